"""C07 bounded contract checker -- patterned einsum equals the semiring einsum of the dense operands.

Runs the real fggs.indices.einsum / log_viterbi_einsum_forward / PatternedTensor.mv / .mm on an
enumerated scope of einsum signatures x typed operand patterns x semirings x requires_grad and
compares with an independent oracle: explicit nested Python loops over all index values with
scalar semiring operations in float64 (0 x inf = 0) on the dense oracles (vf.bounded.gen_pt) of
the operands.  BOUNDED, never counted as proved.

Case recipe (JSON)
------------------
{"fn": "einsum" | "viterbi" | "mv" | "mm",
 "sr": "Real" | "Log" | "Viterbi" | "Bool",  "dtype": "float64" | "float32" | "bool",
 "rg": bool                     physical.requires_grad_(True) on every float operand
 "lab": 0..3                    how the integer labels are turned into hashables (ints, strs, tuples, mixed)
 "inputs": [[0,1],[1,2]], "output": [0,2], "sizes": [2,3,1]   size of label i
 "types": [type, ...]           algebraic index type of each label (see below)
 "ops": [tensor recipe of vf.bounded.gen_pt, ...]      a recipe may carry "bcast": [pool axis, ...]: those physical axes
                                                    are stride-0 (expanded) views; "data" is then constant along them
 "feed": bool                   also feed the returned tensor back into einsum (transposition and total sum)
 "fam": "B" | "E"               generator family of the case (part of the failure key only)}

Well-typedness (precondition of the property: "every list of well-typed patterned tensors")
-------------------------------------------------------------------------------------------
Every label carries an algebraic index type
    type ::= ["n", k]  (atomic, k values)  |  ["+", [type, ...]]  (ordered disjoint sum)  |  ["*", [type, ...]]
and an operand may be indexed by a label only through an axis that *conforms* to the label's type:
    P_i            conforms to any type of its size (the physical axis is bound to that type; every
                   other occurrence of P_i -- diagonals -- must be at the structurally same type);
    unitAxis       conforms to every type of size 1;
    b + e + a      conforms to a sum type that has a summand starting at offset b of size |e| (then
                   exactly a values follow) to which e conforms;
    e1 * ... * ek  conforms to ["*", [t1..tk]] factor by factor.
(The library itself reports anything else as "index type mismatch".)  An operand whose default is
not the semiring zero denotes a dense tensor (einsum calls default_to(zero) first), so it may have
any pattern.  conforms() is written here, independently of fggs.indices.Axis.unify.
"""
from __future__ import annotations
import hashlib, itertools, json, math, os, random, time, warnings
from typing import Any, Dict, List, Optional, Sequence, Tuple

import torch

from vf.core import Ctx, Report, Bounded, Failure
from vf.bounded import gen_pt as G

MODULE = "props.c07_bounded"
MAX_FAIL_PER_KEY = 3
INF = math.inf
SEMIRINGS = ("Real", "Log", "Viterbi", "Bool")


def canon(case) -> str:
    return json.dumps(case, sort_keys=True, separators=(",", ":"))


# ============================================================================= scalar semirings (oracle side)
def s_zero(sr):
    return 0.0 if sr == "Real" else (False if sr == "Bool" else -INF)


def s_one(sr):
    return 1.0 if sr == "Real" else (True if sr == "Bool" else 0.0)


def s_mul(sr, a, b):
    if sr == "Real":
        return 0.0 if (a == 0 or b == 0) else a * b          # 0 x inf = 0
    if sr == "Bool":
        return bool(a) and bool(b)
    return -INF if (a == -INF or b == -INF) else a + b        # log 0 + log inf = log 0


def s_sum(sr, xs):
    xs = list(xs)
    if sr == "Bool":
        return any(xs)
    if sr == "Real":
        return math.fsum(x for x in xs if x != INF) if INF not in xs else INF
    if not xs:
        return -INF
    m = max(xs)
    if sr == "Viterbi" or m == INF or m == -INF:
        return m
    return m + math.log(math.fsum(math.exp(x - m) for x in xs))


def s_add(sr, a, b):
    return s_sum(sr, (a, b))


def make_semiring(sr: str, dtype: str):
    from fggs import semirings as S
    if sr == "Bool":
        return S.BoolSemiring()
    cls = {"Real": S.RealSemiring, "Log": S.LogSemiring, "Viterbi": S.ViterbiSemiring}[sr]
    return cls(dtype=G.DTYPES[dtype])


def carrier_values(sr: str) -> List[Any]:
    """JSON-encoded values {zero, one, 1/2, 2, inf} of the semiring (log of them for Log/Viterbi)"""
    if sr == "Bool":
        return [False, True]
    if sr == "Real":
        return [0.0, 1.0, 0.5, 2.0, "inf"]
    return ["-inf", 0.0, math.log(0.5), math.log(2.0), "inf"]


_WEIGHTS = [5, 5, 4, 4, 2]


def close(got, want, rtol, atol) -> bool:
    if isinstance(want, bool) or isinstance(got, bool):
        return bool(got) == bool(want)
    if got != got or want != want:
        return (got != got) and (want != want)
    if got == want:
        return True
    if math.isinf(got) or math.isinf(want):
        return False
    return abs(got - want) <= atol + rtol * abs(want)


def tolerances(sr, dtype):
    if dtype == "float32":
        return (2e-5, 1e-5 if sr in ("Log", "Viterbi") else 0.0)
    return (1e-9, 1e-12 if sr in ("Log", "Viterbi") else 0.0)


# ============================================================================= index types and conformance
def ty_size(t) -> int:
    if t[0] == "n": return t[1]
    if t[0] == "+": return sum(ty_size(x) for x in t[1])
    n = 1
    for x in t[1]: n *= ty_size(x)
    return n


def conforms(axis, ty, pool, env: Dict[int, str]) -> bool:
    """axis recipe conforms to type `ty`; env binds pool axis -> canonical type (extended in place)"""
    if G.ax_numel(axis, pool) != ty_size(ty):
        return False
    k = axis[0]
    if k == "P":
        c = canon(ty)
        if axis[1] in env:
            return env[axis[1]] == c
        env[axis[1]] = c
        return True
    if k == "*":
        if not axis[1]:
            return True                       # unitAxis: any type of size 1
        if ty[0] != "*" or len(ty[1]) != len(axis[1]):
            return False
        return all(conforms(f, t, pool, env) for f, t in zip(axis[1], ty[1]))
    # sum
    if ty[0] != "+":
        return False
    off = 0
    inner = G.ax_numel(axis[2], pool)
    for t in ty[1]:
        n = ty_size(t)
        if off == axis[1] and n == inner:
            return conforms(axis[2], t, pool, env)
        off += n
    return False


def pattern_conforms(pat, types) -> bool:
    env: Dict[int, str] = {}
    return all(conforms(a, t, pat["pool"], env) for a, t in zip(pat["vaxes"], types))


_TYPES_CACHE: Dict[int, List[Any]] = {}


def types_of_size(n: int) -> List[Any]:
    """atomic type, every ordered sum decomposition (nested one level deeper for parts >= 2),
       the one-summand sum; size 0 also the products with a zero factor that gen_pt generates"""
    if n in _TYPES_CACHE:
        return _TYPES_CACHE[n]
    out: List[Any] = [["n", n]]
    if n >= 2:
        def comps(m):
            if m == 0:
                yield []
                return
            for first in range(1, m + 1):
                for rest in comps(m - first):
                    yield [first] + rest
        for c in comps(n):
            if len(c) < 2: continue
            choices = []
            for part in c:
                ch = [["n", part]]
                if part >= 2 and n <= 3:
                    ch += [t for t in types_of_size(part) if t[0] == "+" and len(t[1]) >= 2]
                choices.append(ch)
            for combo in itertools.product(*choices):
                out.append(["+", list(combo)])
    out.append(["+", [["n", n]]])
    if n == 0:
        out += [["*", [["n", 0], ["n", 2]]], ["*", [["n", 2], ["n", 0]]]]
    if n == 4:
        out += [["*", [["n", 2], ["n", 2]]], ["*", [["n", 2], ["+", [["n", 1], ["n", 1]]]]]]
    if n == 6:
        out += [["*", [["n", 2], ["n", 3]]], ["*", [["n", 3], ["n", 2]]], ["*", [["+", [["n", 1], ["n", 1]]], ["n", 3]]]]
    _TYPES_CACHE[n] = out
    return out


_CONF_CACHE: Dict[Tuple[str, str], List[Dict[str, Any]]] = {}


_ANY_CACHE: Dict[Tuple[Tuple[int, ...], str], List[Dict[str, Any]]] = {}


def any_patterns(shape, tier: str) -> List[Dict[str, Any]]:
    key = (tuple(shape), tier)
    if key not in _ANY_CACHE:
        _ANY_CACHE[key] = G.patterns_for_shape(tuple(shape), tier)
    return _ANY_CACHE[key]


def conforming_patterns(types: Sequence[Any], tier: str) -> List[Dict[str, Any]]:
    key = (canon(list(types)), tier)
    if key not in _CONF_CACHE:
        shape = tuple(ty_size(t) for t in types)
        _CONF_CACHE[key] = [p for p in any_patterns(shape, tier) if pattern_conforms(p, types)]
    return _CONF_CACHE[key]


# ============================================================================= building operands
LABEL_SCHEMES = [
    lambda i: i,
    lambda i: "ijkl"[i],
    lambda i: ("x", i),
    lambda i: [None, 7, "z", (1, 2)][i],
]


def make_operand_recipe(pat, sr, dtype, default, rng) -> Dict[str, Any]:
    vals = carrier_values(sr)
    r = {"pool": list(pat["pool"]), "vaxes": json.loads(json.dumps(pat["vaxes"])),
         "storage": pat.get("storage", "contig"), "dtype": dtype, "default": default}
    if r["storage"] == "expanded" and not r["pool"]:
        r["storage"] = "contig"
    n = G.data_len(r)
    if sr == "Bool":
        r["data"] = [rng.random() < 0.6 for _ in range(n)]
    else:
        r["data"] = rng.choices(vals, weights=_WEIGHTS, k=n)
    return r


def build_operands(case):
    ops = [G.build_pt(r) for r in case["ops"]]
    for i, r in enumerate(case["ops"]):
        if r.get("bcast"):
            ops[i] = with_stride0_axes(ops[i], r)
    for i, j in enumerate(case.get("alias") or []):
        # alias[i] = j < i: operand i is the same object as operand j ("same"), or another tensor over
        # the very same PhysicalAxis objects with its own data ("axes")
        if j is None: continue
        if case.get("alias_mode", "same") == "same":
            ops[i] = ops[j]
        else:
            from fggs.indices import PatternedTensor
            ops[i] = PatternedTensor(ops[i].physical, ops[j].paxes, ops[j].vaxes, ops[i].default)
    if case.get("rg") and case["sr"] != "Bool":
        for t in ops:
            t.physical.requires_grad_(True)
    return ops


def apply_bcast(r: Dict[str, Any], axes) -> Dict[str, Any]:
    """make the physical axes `axes` (numbers into r["pool"]) of a contiguous/transposed recipe stride-0: the
       full row-major "data" is made constant along them (so that gen_pt.dense_oracle, which knows nothing about
       "bcast", still denotes the operand) and build_operands re-creates the physical tensor as an expanded view"""
    pool = r["pool"]
    axes = sorted(a for a in set(axes) if pool[a] >= 2)
    if not axes or r["storage"] not in ("contig", "transposed"):
        return r
    st = strides_of(pool)
    data, new = r["data"], []
    for p in itertools.product(*[range(k) for k in pool]):
        new.append(data[sum((0 if i in axes else v) * s for i, (v, s) in enumerate(zip(p, st)))])
    r["data"] = new
    r["bcast"] = axes
    return r


def with_stride0_axes(t, r):
    """the same patterned tensor over an expanded physical view: stride 0 on the axes r["bcast"]"""
    from fggs.indices import PatternedTensor
    b = set(r["bcast"])
    if len(t.paxes) != len(r["pool"]):
        raise ValueError("bcast recipe: physical axes were renumbered")
    idx = tuple(slice(0, 1) if a in b else slice(None) for a in range(len(r["pool"])))
    ph = t.physical[idx].expand(t.physical.size())
    if not G.same(ph, t.physical) or any(ph.stride()[a] != 0 for a in b):
        raise ValueError("bcast recipe: data is not constant along the stride-0 axes")
    return PatternedTensor(ph, t.paxes, t.vaxes, t.default)


def snapshot_ops(ops):
    return [(t.physical.detach().clone(), tuple(t.physical.stride()), tuple(t.paxes), tuple(t.vaxes), t.default)
            for t in ops]


def ops_unchanged(ops, snap) -> bool:
    for t, (p, st, pa, va, d) in zip(ops, snap):
        if not G.same(t.physical.detach(), p): return False
        if tuple(t.paxes) != pa or tuple(t.vaxes) != va: return False
        if not (t.default == d or (d != d and t.default != t.default)): return False
    return True


# ============================================================================= oracle
def flat_dense(recipe) -> Tuple[List[Any], Tuple[int, ...]]:
    d = G.dense_oracle(recipe)
    shape = tuple(d.size())
    if d.dtype == torch.bool:
        return d.reshape(-1).tolist(), shape
    return d.to(torch.float64).reshape(-1).tolist(), shape


def strides_of(shape):
    st, n = [], 1
    for s in reversed(shape):
        st.append(n); n *= s
    return list(reversed(st))


def label_order(inputs) -> List[int]:
    seen: List[int] = []
    for inp in inputs:
        for l in inp:
            if l not in seen: seen.append(l)
    return seen


def oracle_einsum(case, want_arg=False):
    """returns (out_shape, flat list of the semiring sums) and, with want_arg, for every output cell
       the list of all products by summed-out assignment (dict assignment tuple -> value)"""
    sr, inputs, output, sizes = case["sr"], case["inputs"], case["output"], case["sizes"]
    dens = [flat_dense(r) for r in case["ops"]]
    strs = [strides_of(sh) for _, sh in dens]
    labels = label_order(inputs)
    summed = [l for l in labels if l not in output]
    oshape = tuple(sizes[l] for l in output)
    res, table = [], []
    one = s_one(sr)
    env: Dict[int, int] = {}
    for oc in itertools.product(*[range(sizes[l]) for l in output]):
        for l, v in zip(output, oc): env[l] = v
        terms = []
        tab = {}
        for sc in itertools.product(*[range(sizes[l]) for l in summed]):
            for l, v in zip(summed, sc): env[l] = v
            p = one
            for (flat, _), st, inp in zip(dens, strs, inputs):
                off = 0
                for l, s in zip(inp, st): off += env[l] * s
                p = s_mul(sr, p, flat[off])
            terms.append(p)
            if want_arg: tab[sc] = p
        res.append(s_sum(sr, terms))
        table.append(tab)
    return oshape, res, summed, table


# ============================================================================= running one case
class CaseTimeout(Exception):
    pass


CASE_TIMEOUT_S = 10.0


class time_limit:
    """SIGALRM guard: a call that does not return within CASE_TIMEOUT_S raises CaseTimeout (reported as a failure)"""
    def __enter__(self):
        import signal
        def on_alarm(signum, frame):
            raise CaseTimeout(f"no result after {CASE_TIMEOUT_S:.0f} s (normal cases take milliseconds): does not terminate")
        self.old = signal.signal(signal.SIGALRM, on_alarm)
        signal.setitimer(signal.ITIMER_REAL, CASE_TIMEOUT_S)
    def __exit__(self, *a):
        import signal
        signal.setitimer(signal.ITIMER_REAL, 0)
        signal.signal(signal.SIGALRM, self.old)
        return False


def run_case(case) -> List[Tuple[str, str, str]]:
    """-> list of (clause, keyclass, detail); empty iff the contract holds on this case"""
    import fggs.indices as I
    sr, dtype = case["sr"], case["dtype"]
    fn = case["fn"]
    rtol, atol = tolerances(sr, dtype)
    S = make_semiring(sr, dtype)
    lab = LABEL_SCHEMES[case.get("lab", 0)]
    inputs = [[lab(l) for l in inp] for inp in case["inputs"]]
    output = [lab(l) for l in case["output"]]
    try:
        ops = build_operands(case)
    except Exception as e:                                   # generator problem, not the library's
        return [("harness", "harness-build", f"cannot build operands: {type(e).__name__}: {e}")]
    snap = snapshot_ops(ops)
    oshape, want, summed, table = oracle_einsum(case, want_arg=(fn == "viterbi"))
    out: List[Tuple[str, str, str]] = []
    ptr = None
    try:
        # requires_grad operands are evaluated with grad mode disabled, exactly as inside
        # fggs.sum_product.SumProduct.forward (the only caller that passes such tensors)
        with warnings.catch_warnings(record=True) as wlist, torch.no_grad(), time_limit():
            warnings.simplefilter("always")
            if fn == "einsum":
                res = I.einsum(ops, inputs, output, S)
            elif fn == "viterbi":
                res, ptr = I.log_viterbi_einsum_forward(ops, inputs, output, S)
            elif fn == "mv":
                res = ops[0].mv(ops[1], S)
            elif fn == "mm":
                res = ops[0].mm(ops[1], S)
            else:
                raise ValueError(fn)
            got_t = res.to_dense().detach()
            ptr_t = ptr.to_dense() if ptr is not None else None
        if any("index type mismatch" in str(w.message) for w in wlist):
            return [("scope", "out-of-scope-type-mismatch", "the library reported an index type mismatch")]
    except Exception as e:
        msg = str(e).splitlines()[0][:160] if str(e) else ""
        if any("index type mismatch" in str(w.message) for w in wlist):
            return [("scope", "out-of-scope-type-mismatch", "the library reported an index type mismatch")]
        return [("returns", f"raises-{type(e).__name__}",
                 f"observed {type(e).__name__}: {msg}; expected a tensor of shape {list(oshape)} = {fmt(want)}")]
    if not ops_unchanged(ops, snap):
        out.append(("frame", "operand-modified", "an operand was modified by the call"))
    if tuple(got_t.size()) != oshape:
        out.append(("shape", "shape", f"observed shape {list(got_t.size())}; expected {list(oshape)}"))
        return out
    if got_t.dtype != G.DTYPES[dtype]:
        out.append(("dtype", "dtype", f"observed dtype {got_t.dtype}; expected {dtype}"))
    got = got_t.reshape(-1).tolist()
    bad = [i for i, (g, w) in enumerate(zip(got, want)) if not close(g, w, rtol, atol)]
    if bad:
        i = bad[0]
        kind = value_kind(sr, got[i], want[i])
        out.append(("value", "value-" + kind,
                    f"observed {fmt(got)}; expected {fmt(want)} (first differing flat cell {i}: {got[i]!r} vs {want[i]!r})"))
    if fn == "viterbi":
        out += check_pointers(case, ptr_t, oshape, got, want, summed, table, rtol, atol)
    if case.get("feed") and not out:
        out += check_feed(case, res, want, oshape, S, output, rtol, atol)
    return out


def check_feed(case, res, want, oshape, S, output, rtol, atol):
    """operation sequence: the returned PatternedTensor (whose physical tensor is typically an expanded view
       or empty) is itself a well-typed operand: einsum([res], [output], reversed(output)) is its transposition
       and einsum([res], [output], []) its semiring total.  Expected values come from the brute-force `want`."""
    import fggs.indices as I
    sr = case["sr"]
    n = len(oshape)
    rev = list(reversed(output))
    st = strides_of(oshape)
    want_rev = []
    for c in itertools.product(*[range(k) for k in reversed(oshape)]):
        want_rev.append(want[sum(v * s for v, s in zip(reversed(c), st))])
    want_tot = [s_sum(sr, want)]
    out = []
    for name, o, w, shp in (("transpose", rev, want_rev, tuple(reversed(oshape))), ("total", [], want_tot, ())):
        try:
            with warnings.catch_warnings(), torch.no_grad(), time_limit():
                warnings.simplefilter("ignore")
                g_t = I.einsum([res], [list(output)], o, S).to_dense().detach()
        except Exception as e:
            msg = str(e).splitlines()[0][:160] if str(e) else ""
            out.append(("feed." + name, f"feed-raises-{type(e).__name__}",
                        f"einsum of the returned tensor ({list(output)} -> {o}) observed {type(e).__name__}: {msg}; expected {fmt(w)}"))
            continue
        if tuple(g_t.size()) != shp:
            out.append(("feed." + name, "feed-shape", f"einsum of the returned tensor ({list(output)} -> {o}): observed shape "
                        f"{list(g_t.size())}; expected {list(shp)}"))
            continue
        g = g_t.reshape(-1).tolist()
        bad = [i for i, (a, b) in enumerate(zip(g, w)) if not close(a, b, rtol, atol)]
        if bad:
            out.append(("feed." + name, "feed-value", f"einsum of the returned tensor ({list(output)} -> {o}): observed {fmt(g)}; "
                        f"expected {fmt(w)}"))
    return out


def value_kind(sr, g, w) -> str:
    z = s_zero(sr)
    if isinstance(w, bool): return "bool"
    if g != g: return "nan"
    if w == z and g != z: return "nonzero-for-zero"
    if g == z and w != z: return "zero-for-nonzero"
    if math.isinf(w) and not math.isinf(g): return "finite-for-inf"
    if math.isinf(g) and not math.isinf(w): return "inf-for-finite"
    return "finite"


def fmt(xs) -> str:
    s = "[" + ", ".join(("%.6g" % x) if isinstance(x, float) else str(x) for x in xs[:12]) + (", ..." if len(xs) > 12 else "") + "]"
    return s


def check_pointers(case, ptr_t, oshape, got, want, summed, table, rtol, atol):
    sizes = case["sizes"]
    out = []
    exp_shape = tuple(oshape) + (len(summed),)
    if tuple(ptr_t.size()) != exp_shape:
        return [("pointer.shape", "ptr-shape",
                 f"observed pointer shape {list(ptr_t.size())}; expected {list(exp_shape)} (one entry per summed-out label {summed})")]
    if ptr_t.dtype != torch.long:
        out.append(("pointer.dtype", "ptr-dtype", f"observed pointer dtype {ptr_t.dtype}; expected int64"))
    ncell = len(want)
    p = ptr_t.reshape(ncell, len(summed)).tolist() if ncell else []
    if any(sizes[l] == 0 for l in summed):
        return out                                            # empty sum: no index value exists
    for c in range(ncell):
        vals = tuple(int(v) for v in p[c])
        if any(not (0 <= v < sizes[l]) for v, l in zip(vals, summed)):
            out.append(("pointer.range", "ptr-range",
                        f"cell {c}: pointer {list(vals)} out of range for sizes {[sizes[l] for l in summed]}"))
            return out
        at = table[c][vals]
        if (want[c] == -INF and got[c] == -INF) or got[c] != got[c]:
            continue                                          # NaN maxima are reported by the value clause
        if not close(at, got[c], rtol, atol) or not close(at, want[c], rtol, atol):
            out.append(("pointer.argmax", "ptr-not-argmax",
                        f"cell {c}: product at pointer {list(vals)} is {at!r}; returned maximum {got[c]!r}; true maximum {want[c]!r}"))
            return out
    return out


# ============================================================================= enumeration of signatures
def rgs(length: int, max_blocks: int):
    """restricted growth strings (labels numbered by first appearance) with <= max_blocks labels"""
    def rec(prefix, m):
        if len(prefix) == length:
            yield tuple(prefix); return
        for v in range(min(m + 1, max_blocks)):
            yield from rec(prefix + [v], max(m, v + 1))
    yield from rec([], 0)


def enum_inputs(max_ops: int, max_labels: int, min_ops: int = 1, max_rank: int = 3):
    for nops in range(min_ops, max_ops + 1):
        for ranks in itertools.product(range(max_rank + 1), repeat=nops):
            for s in rgs(sum(ranks), max_labels):
                inputs, pos = [], 0
                for r in ranks:
                    inputs.append(list(s[pos:pos + r])); pos += r
                yield inputs


def all_outputs(k: int) -> List[List[int]]:
    outs = []
    for j in range(k + 1):
        for perm in itertools.permutations(range(k), j):
            outs.append(list(perm))
    return outs


def n_labels(inputs) -> int:
    return len(label_order(inputs))


def size_assignments(k: int, rng: random.Random, n: int, zero: bool) -> List[List[int]]:
    full = [list(s) for s in itertools.product((1, 2, 3), repeat=k)]
    if len(full) <= n:
        out = full
    else:
        out = rng.sample(full, n)
    if zero and k >= 1:
        z = [rng.choice((1, 2, 3)) for _ in range(k)]
        z[rng.randrange(k)] = 0
        out = out + [z]
    return out


def pick_types(sizes: List[int], rng: random.Random) -> List[Any]:
    ts = []
    for n in sizes:
        cand = types_of_size(n)
        ts.append(cand[0] if rng.random() < 0.4 else rng.choice(cand))
    return ts


def nonzero_defaults(sr):
    if sr == "Bool": return [True]
    if sr == "Real": return [1.0, 0.5, "inf"]
    return [0.0, math.log(2.0), "inf"]


def gen_case(fn, sr, dtype, rg, inputs, output, sizes, rng: random.Random, tier: str, lab: int,
             family: Optional[str] = None) -> Dict[str, Any]:
    """family "B": the same draw, but every operand is stored contiguously / transposed and then a drawn subset
       of its physical axes (all of them with probability 1/2) is turned into stride-0 expanded views"""
    types = pick_types(sizes, rng)
    zero = G.enc(s_zero(sr)) if sr != "Bool" else False
    ops = []
    for inp in inputs:
        tys = [types[l] for l in inp]
        r = rng.random()
        if r < 0.8:
            default = zero
            pats = conforming_patterns(tys, tier)
        elif r < 0.9:
            default = rng.choice(nonzero_defaults(sr))
            pats = conforming_patterns(tys, tier)
        else:
            default = rng.choice(nonzero_defaults(sr))
            pats = any_patterns(tuple(ty_size(t) for t in tys), tier)
        if not pats:
            pats = [G._dense_pattern(tuple(ty_size(t) for t in tys))]
        pat = rng.choice(pats)
        if family == "B":
            if rng.random() < 0.4:
                pat = G._dense_pattern(tuple(ty_size(t) for t in tys))
            pat = dict(pat)
            if pat.get("storage") == "expanded":
                pat["storage"] = "contig"
            rec = make_operand_recipe(pat, sr, dtype, default, rng)
            ops.append(apply_bcast(rec, draw_stride0_axes(rec["pool"], rng)))
            continue
        ops.append(make_operand_recipe(pat, sr, dtype, default, rng))
    case = {"fn": fn, "sr": sr, "dtype": dtype, "rg": bool(rg), "lab": lab,
            "inputs": [list(i) for i in inputs], "output": list(output), "sizes": list(sizes),
            "types": types, "ops": ops}
    if family:
        case["fam"] = family
        case["feed"] = True
    return case


def draw_stride0_axes(pool, rng: random.Random) -> List[int]:
    cand = [a for a, n in enumerate(pool) if n >= 2]
    if rng.random() < 0.5:
        return cand
    return [a for a in cand if rng.random() < 0.5]


# ----------------------------------------------------------------------------- family E: sum types with an empty summand
# A label whose index type is a sum with an *empty* summand (2 + 0 + 1, 0 + 3, (0 x 2) + 1 ...) can be indexed
# through the axis of that empty summand: SumAxis(2, PhysicalAxis(0), 1).  Such an operand has an empty
# physical tensor although its virtual shape is not empty; it denotes the all-zero tensor.
ZERO_SUMMANDS = [["n", 0], ["*", [["n", 0], ["n", 2]]], ["*", [["n", 2], ["n", 0]]]]
_ETYPES_CACHE: Dict[int, List[Any]] = {}
_CHOICES_CACHE: Dict[str, List[Any]] = {}


def compositions(n: int):
    if n == 0:
        yield []
        return
    for first in range(1, n + 1):
        for rest in compositions(n - first):
            yield [first] + rest


def empty_summand_types(n: int) -> List[Any]:
    """every ordered sum decomposition of n (the one-part decomposition included) with one empty summand
       (atomic 0, 0 x 2 or 2 x 0) inserted at every position; for n = 0 also 0 + 0"""
    if n not in _ETYPES_CACHE:
        out = []
        for c in compositions(n):
            for pos in range(len(c) + 1):
                for z in ZERO_SUMMANDS:
                    parts = [["n", p] for p in c]
                    out.append(["+", parts[:pos] + [z] + parts[pos:]])
        if n == 0:
            out.append(["+", [["n", 0], ["n", 0]]])
        _ETYPES_CACHE[n] = out
    return _ETYPES_CACHE[n]


def axis_choices(ty) -> List[Tuple[Any, List[int]]]:
    """axes (with their own pool, numbered from 0) that conform to `ty` by construction: the dense axis, the product
       of the dense axes of the factors of a product type, and for a sum type the block of each summand"""
    key = canon(ty)
    if key in _CHOICES_CACHE:
        return _CHOICES_CACHE[key]
    n = ty_size(ty)
    out: List[Tuple[Any, List[int]]] = [(["*", []], [])] if n == 1 else [(["P", 0], [n])]
    if ty[0] == "*" and all(ty_size(t) != 1 for t in ty[1]):
        out.append((["*", [["P", i] for i in range(len(ty[1]))]], [ty_size(t) for t in ty[1]]))
    elif ty[0] == "+":
        off = 0
        for t in ty[1]:
            m = ty_size(t)
            for ax, pl in axis_choices(t):
                out.append((["+", off, ax, n - off - m], pl))
            off += m
    seen, res = set(), []
    for ax, pl in out:
        k = canon([ax, pl])
        if k not in seen:
            seen.add(k); res.append((ax, pl))
    _CHOICES_CACHE[key] = res
    return res


def shift_axis(a, by: int):
    if a[0] == "P": return ["P", a[1] + by]
    if a[0] == "*": return ["*", [shift_axis(f, by) for f in a[1]]]
    return ["+", a[1], shift_axis(a[2], by), a[3]]


def gen_case_empty(fn, sr, dtype, rg, inputs, output, rng: random.Random, lab: int) -> Optional[Dict[str, Any]]:
    labels = label_order(inputs)
    if not labels:
        return None
    k = max(labels) + 1
    sizes = [rng.choice((1, 2, 3)) for _ in range(k)]
    e = rng.choice(labels)
    sizes[e] = rng.choice((0, 1, 2, 2, 3, 3))
    std = pick_types(sizes, rng)
    types = [rng.choice(empty_summand_types(sizes[l])) if (l == e or rng.random() < 0.25) else std[l] for l in range(k)]
    occ = [(i, j) for i, inp in enumerate(inputs) for j, l in enumerate(inp) if l == e]
    forced = rng.choice(occ)                                  # this occurrence goes through an empty block
    zero = G.enc(s_zero(sr)) if sr != "Bool" else False
    ops = []
    for i, inp in enumerate(inputs):
        chosen = []
        for j, l in enumerate(inp):
            ch = axis_choices(types[l])
            if (i, j) == forced:
                ch = [c for c in ch if 0 in c[1]]
            elif rng.random() < 0.35:
                ch = ch[:1]                                   # the dense axis
            chosen.append(rng.choice(ch))
        pool: List[int] = []
        vaxes = []
        for ax, pl in chosen:
            vaxes.append(shift_axis(ax, len(pool))); pool += pl
        pat = {"pool": pool, "vaxes": vaxes, "storage": "contig"}
        default = zero if rng.random() < 0.85 else rng.choice(nonzero_defaults(sr))
        rec = make_operand_recipe(pat, sr, dtype, default, rng)
        if rng.random() < 0.3:
            rec = apply_bcast(rec, draw_stride0_axes(rec["pool"], rng))
        ops.append(rec)
    return {"fn": fn, "sr": sr, "dtype": dtype, "rg": bool(rg), "lab": lab,
            "inputs": [list(i) for i in inputs], "output": list(output), "sizes": sizes,
            "types": types, "ops": ops, "fam": "E", "feed": True}


def pairwise_compatible(case) -> bool:
    """second, independent well-typedness filter (gen_pt.ax_compatible): all axes of zero-default
       operands that are indexed by the same label have a common index type, pair by pair"""
    zero = s_zero(case["sr"])
    per: Dict[int, List[Tuple[Any, Any]]] = {}
    for r, inp in zip(case["ops"], case["inputs"]):
        if G.dec(r["default"]) != zero:
            continue
        for a, l in zip(r["vaxes"], inp):
            per.setdefault(l, []).append((a, r["pool"]))
    for l, axes in per.items():
        for (e, pe), (f, pf) in itertools.combinations(axes, 2):
            if not G.ax_compatible(e, pe, f, pf):
                return False
    return True


def case_nontrivial(case, want=None) -> bool:
    """at least one operand, and the expected result has a non-zero entry"""
    if not case["inputs"]:
        return False
    if want is None:
        want = oracle_einsum(case)[1]
    z = s_zero(case["sr"])
    return any(w != z for w in want)


# ----------------------------------------------------------------------------- units
# A unit = (fn, sr, dtype, rg, inputs, output, ndraws, uid): the worker derives `ndraws` cases from a
# seeded rng that depends only on (seed, uid), so chunking does not change the cases.
STRUCTURED_TYPES = [
    ["+", [["n", 1], ["n", 1]]], ["+", [["n", 1], ["n", 2]]], ["+", [["n", 2], ["n", 1]]],
    ["*", [["n", 2], ["+", [["n", 1], ["n", 1]]]]], ["*", [["+", [["n", 1], ["n", 1]]], ["n", 2]]],
    ["*", [["+", [["n", 1], ["n", 1]]], ["n", 3]]], ["*", [["n", 3], ["+", [["n", 1], ["n", 1]]]]],
    ["*", [["+", [["n", 1], ["n", 1]]], ["+", [["n", 1], ["n", 1]]]]],
]


def directed_cases(unit, seed: int, tier: str):
    """"pairs": every ordered pair of patterns conforming to one structured type, co-indexed ('i,i->', 'i,i->i');
       "alias": one operand passed twice (same object / shared PhysicalAxis objects) under different or equal labels."""
    fn, sr, dtype, rg, inputs, output, ndraws, uid = unit
    rng = random.Random(int(hashlib.sha256(f"{seed}:C07:{uid}".encode()).hexdigest()[:16], 16))
    zero = G.enc(s_zero(sr)) if sr != "Bool" else False
    if fn == "pairs":
        ty = STRUCTURED_TYPES[ndraws]
        pats = conforming_patterns([ty], "thorough")
        seen = set()
        for p, q in itertools.product(pats, repeat=2):
            k = canon([p["pool"], p["vaxes"], q["pool"], q["vaxes"]])
            if k in seen: continue
            seen.add(k)
            ops = [make_operand_recipe(p, sr, dtype, zero, rng), make_operand_recipe(q, sr, dtype, zero, rng)]
            yield {"fn": "einsum", "sr": sr, "dtype": dtype, "rg": bool(rg), "lab": 1, "inputs": [[0], [0]],
                   "output": list(output), "sizes": [ty_size(ty)], "types": [ty], "ops": ops}
        return
    # alias
    shape = tuple(ndraws)
    pats = any_patterns(shape, tier)
    seen = set()
    for pat in pats:
        k = canon([pat["pool"], pat["vaxes"]])
        if k in seen: continue
        seen.add(k)
        for mode in ("same", "axes"):
            a = make_operand_recipe(pat, sr, dtype, zero, rng)
            b = a if mode == "same" else make_operand_recipe(pat, sr, dtype, zero, rng)
            r = len(shape)
            sizes = list(shape) + (list(shape) if inputs == "outer" else [])
            if inputs == "outer":
                ins, out = [list(range(r)), list(range(r, 2 * r))], list(range(2 * r))
            elif inputs == "same":
                ins, out = [list(range(r)), list(range(r))], list(range(r))
            else:                                               # "chain": ij,jk->ik on a square operand
                ins, out, sizes = [[0, 1], [1, 2]], [0, 2], [shape[0]] * 3
            types = [["n", n] for n in sizes]
            yield {"fn": "einsum", "sr": sr, "dtype": dtype, "rg": bool(rg), "lab": 1, "inputs": ins, "output": out,
                   "sizes": sizes, "types": types, "ops": [a, json.loads(json.dumps(b))],
                   "alias": [None, 0], "alias_mode": mode}


def unit_cases(unit, seed: int, tier: str):
    fn, sr, dtype, rg, inputs, output, ndraws, uid = unit
    if fn in ("pairs", "alias"):
        yield from directed_cases(unit, seed, tier)
        return
    rng = random.Random(int(hashlib.sha256(f"{seed}:C07:{uid}".encode()).hexdigest()[:16], 16))
    if fn.startswith("E:"):                                   # a label of sum type with an empty summand
        for i in range(ndraws):
            case = gen_case_empty(fn[2:], sr, dtype, rg, inputs, output, rng, lab=(uid + i) % 4 if fn[2:] in ("einsum", "viterbi") else 1)
            if case is not None:
                yield case
        return
    k = n_labels(inputs)
    if fn.startswith("B:"):                                   # stride-0 physical axes at any position
        fn = fn[2:]
        if fn in ("mv", "mm"):
            k = 2 if fn == "mv" else 3
        for i, sizes in enumerate(size_assignments(k, rng, ndraws, zero=(uid % 5 == 0))):
            yield gen_case(fn, sr, dtype, rg, inputs, output, sizes, rng, tier,
                           lab=(uid + i) % 4 if fn in ("einsum", "viterbi") else 1, family="B")
        return
    if fn in ("mv", "mm"):
        k = 2 if fn == "mv" else 3
    if fn == "einsum4":                                       # one label of size 4 or 6 (product / longer sum types)
        fn = "einsum"
        sz = []
        for _ in range(ndraws):
            sizes = [rng.choice((1, 2, 3, 4, 6)) for _ in range(k)]
            sizes[rng.randrange(k)] = rng.choice((4, 6))
            sz.append(sizes)
    else:
        sz = size_assignments(k, rng, ndraws, zero=(uid % 3 == 0))
    for i, sizes in enumerate(sz):
        yield gen_case(fn, sr, dtype, rg, inputs, output, sizes, rng, tier, lab=(uid + i) % 4 if fn in ("einsum", "viterbi") else 1)


def features_of(case) -> str:
    """short class of the input used in failure keys"""
    labels = label_order(case["inputs"])
    summed = [l for l in labels if l not in case["output"]]
    if not summed: return "no-summed-label"
    if any(case["sizes"][l] == 0 for l in labels): return "zero-size-label"
    return "summed-labels"


def _worker(args):
    units, seed, tier = args
    torch.set_num_threads(1)
    ncases = 0
    digests = []
    fails = []
    samples = []
    per_fn: Dict[str, List[int]] = {}
    used_patterns = set()
    oos: Dict[str, int] = {}
    oos_samples: List[Any] = []
    fcount: Dict[str, int] = {}
    for unit in units:
        for case in unit_cases(unit, seed, tier):
            if not pairwise_compatible(case):
                oos["generator: not pairwise ax_compatible"] = oos.get("generator: not pairwise ax_compatible", 0) + 1
                continue
            c = canon(case)
            try:
                res = run_case(case)
            except Exception as e:                            # harness error: surface it, never hide it
                res = [("harness", "harness-exception", f"{type(e).__name__}: {e}")]
            if res and res[0][1] == "out-of-scope-type-mismatch":
                # typed by both harness filters but the library warned: counted and kept as a sample for triage
                oos["library warned 'index type mismatch'"] = oos.get("library warned 'index type mismatch'", 0) + 1
                if len(oos_samples) < 2: oos_samples.append(case)
                continue
            ncases += 1
            nt = case_nontrivial(case)
            st = per_fn.setdefault(case["fn"], [0, 0])
            st[0] += 1
            if nt:
                digests.append((case["fn"], hashlib.md5(c.encode()).digest()[:8]))
            for r in case["ops"]:
                used_patterns.add(canon({"pool": r["pool"], "vaxes": r["vaxes"], "storage": r["storage"]}))
            if len(samples) < 2 and nt and len(case["inputs"]) >= 2:
                samples.append(case)
            for clause, kc, detail in res:
                f = {"case": case, "clause": clause, "keyclass": kc, "detail": detail}
                k = fail_key(f)
                fcount[k] = fcount.get(k, 0) + 1
                if fcount[k] <= 2 * MAX_FAIL_PER_KEY:          # keep a few per key and chunk, count all
                    fails.append(f)
    return {"fcount": fcount, "n": ncases, "digests": digests, "fails": fails, "samples": samples, "per_fn": per_fn,
            "used": used_patterns, "oos": oos, "oos_samples": oos_samples}


def _warm(key):
    return G.patterns_for_shape(key[0], key[1])


def has_zero_size_product(a, pool) -> bool:
    """the axis contains a ProductAxis with >= 2 factors and no elements"""
    if a[0] == "P": return False
    if a[0] == "+": return has_zero_size_product(a[2], pool)
    return (len(a[1]) >= 2 and G.ax_numel(a, pool) == 0) or any(has_zero_size_product(f, pool) for f in a[1])


def recorded_zero_size_product_class(f) -> bool:
    """The finding recorded as PT-zero-size-axis (known_findings.json) is: unification treats an empty *product* as
       unified without unifying its factors, and project then raises ValueError / RecursionError.  Only a failure
       with that symptom on an input that has such a product is tagged "zero-size-axis" in its key; the one-line
       description writes pools as pool=(0, 2), which the finding's pattern does not match, so that no other
       failure (another exception, a wrong value or shape) on an input with a zero-size physical axis is
       taken for the recorded one."""
    if f["keyclass"] not in ("raises-ValueError", "raises-RecursionError"):
        return False
    return any(has_zero_size_product(a, r["pool"]) for r in f["case"]["ops"] for a in r["vaxes"])


def fail_key(f) -> str:
    c = f["case"]
    k = f"{c['fn']}:{f['keyclass']}"
    if f["keyclass"].startswith("raises"):
        k += ":" + features_of(c)
    if f["keyclass"].startswith("value"):
        k += ":" + c["sr"]
    if c.get("fam"):
        k += ":family-" + c["fam"]
    if recorded_zero_size_product_class(f):
        k += ":zero-size-axis"
    return k


def fail_what(f) -> str:
    c = f["case"]
    ops = "; ".join(f"{r['vaxes']}/pool=({', '.join(map(str, r['pool']))})/{r['storage']}"
                    + (f"+stride0{r['bcast']}" if r.get("bcast") else "") + f"/default={r['default']}" for r in c["ops"])
    return (f"{c['fn']} {c['sr']}/{c['dtype']} rg={int(c['rg'])} inputs={c['inputs']} -> {c['output']} sizes={c['sizes']} "
            f"operands: {ops}")[:400]


# ============================================================================= units per tier
def build_units(ctx: Ctx) -> Tuple[List[Any], Dict[str, Any]]:
    th = ctx.thorough
    rng = ctx.rng("units")
    units: List[Any] = []
    info: Dict[str, Any] = {}
    uid = 0

    def combos(float32_too: bool):
        cs = []
        for sr in SEMIRINGS:
            if sr == "Bool":
                cs.append((sr, "bool", False))
            else:
                cs.append((sr, "float64", False)); cs.append((sr, "float64", True))
                if float32_too:
                    cs.append((sr, "float32", False))
        return cs

    # --- einsum: exhaustive signatures of the tier's bound
    if th:
        sigs_small = list(enum_inputs(2, 3))
        sigs_big = [s for s in enum_inputs(3, 4) if not (len(s) <= 2 and n_labels(s) <= 3)]
    else:
        sigs_small = list(enum_inputs(2, 3))
        sigs_big = []
    info["signatures_small(<=2 operands,<=3 labels)"] = len(sigs_small)
    npairs = 0
    for inputs in sigs_small:
        k = n_labels(inputs)
        for output in all_outputs(k):
            npairs += 1
            for ci, (sr, dt, rg) in enumerate(combos(float32_too=(npairs % 8 == 0))):
                units.append(("einsum", sr, dt, rg, inputs, output, (6 if th else 3), uid)); uid += 1
            for rg in (False, True):
                units.append(("viterbi", "Viterbi", "float64", rg, inputs, output, (4 if th else 2), uid)); uid += 1
    info["(inputs,output) pairs small"] = npairs
    if th:
        nb = 0
        for inputs in sigs_big:
            k = n_labels(inputs)
            outs = all_outputs(k)
            if len(outs) > 16:
                outs = [outs[0], outs[-1]] + rng.sample(outs[1:-1], 22)
            for oi, output in enumerate(outs):
                nb += 1
                cs = combos(False)
                sr, dt, rg = cs[(nb + oi) % len(cs)]
                units.append(("einsum", sr, dt, rg, inputs, output, 3, uid)); uid += 1
                if nb % 3 == 0:
                    units.append(("viterbi", "Viterbi", "float64", bool(nb % 2), inputs, output, 1, uid)); uid += 1
        info["signatures_big(<=3 operands,<=4 labels, rest)"] = len(sigs_big)
        info["(inputs,output) pairs big (24 of the 65 output lists sampled for 4-label signatures)"] = nb
    else:
        # a smoke sample of the larger signatures in the quick tier
        big = [s for s in enum_inputs(3, 4, min_ops=3)]
        for inputs in rng.sample(big, 400):
            k = n_labels(inputs)
            output = rng.choice(all_outputs(k))
            sr, dt, rg = rng.choice(combos(False))
            units.append(("einsum", sr, dt, rg, inputs, output, 1, uid)); uid += 1
        info["signatures_big sampled"] = 400
    # --- product types: one label of size 4 or 6, signatures with <= 2 operands / <= 2 labels / rank <= 2
    n4 = 0
    for inputs in enum_inputs(2, 2, max_rank=2):
        k = n_labels(inputs)
        if k == 0: continue
        for output in all_outputs(k):
            for sr, dt, rg in combos(False):
                units.append(("einsum4", sr, dt, rg, inputs, output, (6 if th else 2), uid)); uid += 1; n4 += 1
    info["units with a label of size 4 or 6 (product types)"] = n4
    # --- directed: all pairs of patterns conforming to one structured (sum / product-of-sum) type, co-indexed
    nd = 0
    for ti in range(len(STRUCTURED_TYPES)):
        for output in ([], [0]):
            for sr, dt, rg in (combos(False) if th else [("Real", "float64", False), ("Log", "float64", True), ("Bool", "bool", False)]):
                units.append(("pairs", sr, dt, rg, None, output, ti, uid)); uid += 1; nd += 1
    # --- directed: one operand passed twice (same object, or two tensors over the same PhysicalAxis objects)
    shapes_alias = [(1,), (2,), (3,), (4,), (6,), (2, 2), (1, 2), (3, 3)] if th else [(2,), (3,), (4,), (2, 2)]
    for shp in shapes_alias:
        for how in ("outer", "same") + (("chain",) if len(shp) == 2 and shp[0] == shp[1] else ()):
            for sr, dt, rg in (combos(False) if th else [("Real", "float64", False), ("Viterbi", "float64", True)]):
                units.append(("alias", sr, dt, rg, how, None, list(shp), uid)); uid += 1; nd += 1
    info["directed units (co-indexed pattern pairs of structured types; aliased operands)"] = nd
    # --- the empty operand list
    for sr, dt, rg in combos(True):
        units.append(("einsum", sr, dt, rg, [], [], 1, uid)); uid += 1
    units.append(("viterbi", "Viterbi", "float64", False, [], [], 1, uid)); uid += 1
    # --- mv / mm
    reps = 12 if th else 4
    for rep in range(reps):
        for sr, dt, rg in combos(rep % 2 == 0):
            units.append(("mv", sr, dt, rg, [[0, 1], [1]], [0], 9, uid)); uid += 1
            units.append(("mm", sr, dt, rg, [[0, 1], [1, 2]], [0, 2], 27, uid)); uid += 1
    # (new families are appended after all older units: a unit's cases depend on its uid only)
    # --- family B: stride-0 (expanded) physical axes at any position of any operand, as produced by einsum itself
    #     (zero results, re-expanded reductions) and consumed again by sum_product.  With requires_grad off and no
    #     summed-out physical axis this is the path that strips the stride-0 dimensions and re-inserts them.
    nB = 0
    nop = 0
    for inputs in sigs_small:
        k = n_labels(inputs)
        if k == 0: continue
        for output in all_outputs(k):
            if len(output) == k:                               # no summed-out label
                for sr, dt, rg in [c for c in combos(False) if not c[2]]:
                    units.append(("B:einsum", sr, dt, rg, inputs, output, (4 if th else (2 if sr in ("Real", "Log") else 1)), uid)); uid += 1; nB += 1
                sr, dt, rg = [c for c in combos(False) if c[2]][nop % 3]
                units.append(("B:einsum", sr, dt, rg, inputs, output, (2 if th else 1), uid)); uid += 1; nB += 1
                units.append(("B:viterbi", "Viterbi", "float64", bool(nop % 4 == 3), inputs, output, (4 if th else 2), uid)); uid += 1; nB += 1
            else:
                cs = combos(False)
                sr, dt, rg = cs[nop % len(cs)]
                units.append(("B:einsum", sr, dt, rg, inputs, output, (3 if th else 1), uid)); uid += 1; nB += 1
                if nop % 4 == 0:
                    units.append(("B:viterbi", "Viterbi", "float64", bool(nop % 8 == 0), inputs, output, 1, uid)); uid += 1; nB += 1
            nop += 1
    big3 = [s for s in enum_inputs(3, 3, min_ops=3, max_rank=2) if n_labels(s) >= 1]
    for inputs in (big3 if th else rng.sample(big3, 150)):
        k = n_labels(inputs)
        perms = [o for o in all_outputs(k) if len(o) == k]
        for output in (perms if th else [rng.choice(perms)]):
            sr, dt, rg = rng.choice([c for c in combos(False) if not c[2]])
            units.append(("B:einsum", sr, dt, rg, inputs, output, 2, uid)); uid += 1; nB += 1
        units.append(("B:viterbi", "Viterbi", "float64", False, inputs, rng.choice(perms), 1, uid)); uid += 1; nB += 1
    for rep in range(6 if th else 2):
        for sr, dt, rg in combos(False):
            units.append(("B:mv", sr, dt, rg, [[0, 1], [1]], [0], 9, uid)); uid += 1; nB += 1
            units.append(("B:mm", sr, dt, rg, [[0, 1], [1, 2]], [0, 2], 12, uid)); uid += 1; nB += 1
    info["family B units (stride-0 physical axes anywhere; result fed back into einsum)"] = nB
    # --- family E: a label of sum type with an empty summand, indexed through the (physically empty) block of it
    nE = 0
    sigsE = [s for s in enum_inputs(2, 2, max_rank=2) if n_labels(s) >= 1]
    for inputs in sigsE:
        for output in all_outputs(n_labels(inputs)):
            for sr, dt, rg in combos(False):
                units.append(("E:einsum", sr, dt, rg, inputs, output, (8 if th else 3), uid)); uid += 1; nE += 1
            for rg in (False, True):
                units.append(("E:viterbi", "Viterbi", "float64", rg, inputs, output, (6 if th else 2), uid)); uid += 1; nE += 1
    for inputs in (big3 if th else rng.sample(big3, 120)):
        outs = all_outputs(n_labels(inputs))
        for output in (outs if th else [rng.choice(outs)]):
            sr, dt, rg = rng.choice(combos(False))
            units.append(("E:einsum", sr, dt, rg, inputs, output, 2, uid)); uid += 1; nE += 1
        units.append(("E:viterbi", "Viterbi", "float64", bool(nE % 2), inputs, rng.choice(outs), 1, uid)); uid += 1; nE += 1
    for rep in range(6 if th else 2):
        for sr, dt, rg in combos(False):
            units.append(("E:mv", sr, dt, rg, [[0, 1], [1]], [0], 8, uid)); uid += 1; nE += 1
            units.append(("E:mm", sr, dt, rg, [[0, 1], [1, 2]], [0, 2], 8, uid)); uid += 1; nE += 1
    info["family E units (sum types with an empty summand; result fed back into einsum)"] = nE
    return units, info


FAMILIES_BOUND = ("; family B: the same draws with stride-0 (expanded) physical axes at any subset of positions of every operand "
                  "(every <= 2-operand / <= 3-label signature x every output list, more draws where no label is summed out, plus "
                  "3-operand signatures of rank <= 2); family E: a label whose type is a sum with an empty summand (0, 0 x 2, 2 x 0 "
                  "at any position of any decomposition of 0..3) indexed at least once through that physically empty block "
                  "(<= 2 operands / <= 2 labels / rank <= 2 x every output list, 3-operand sample, mv, mm); in both families the "
                  "returned tensor is fed back into einsum (transposition, total) and compared with the brute-force result")


# ============================================================================= driver
def run_bounded(ctx: Ctx) -> Report:
    import multiprocessing as mp
    t0 = time.time()
    rep = Report(property_id="C07", level="exploration")
    units, info = build_units(ctx)
    jobs = max(1, ctx.jobs)
    # fill gen_pt's pattern cache (in parallel) before forking the workers, so that they share it
    shapes = [tuple(s) for s in itertools.chain([()], *[itertools.product((0, 1, 2, 3), repeat=r) for r in (1, 2, 3)])]
    shapes += [tuple(s) for r in (1, 2) for s in itertools.product((1, 2, 3, 4, 6), repeat=r) if 4 in s or 6 in s]
    todo = [(s, ctx.tier) for s in shapes if (s, ctx.tier) not in G._PFS_CACHE]
    if jobs > 1 and todo:
        with mp.get_context("fork").Pool(jobs) as pool:
            for key, pats in zip(todo, pool.map(_warm, todo, chunksize=1)):
                G._PFS_CACHE[key] = pats
    else:
        for key in todo: _warm(key)
    t_warm = time.time() - t0
    import gc
    gc.collect(); gc.freeze()                                  # keep forked workers from copying the parent's heap
    nchunks = jobs * 12
    # interleave so that every chunk gets a similar mix
    chunks = [units[i::nchunks] for i in range(nchunks)]
    chunks = [c for c in chunks if c]
    args = [(c, ctx.seed, ctx.tier) for c in chunks]
    if jobs > 1:
        with mp.get_context("fork").Pool(jobs) as pool:
            results = pool.map(_worker, args, chunksize=1)
    else:
        results = [_worker(a) for a in args]
    total = sum(r["n"] for r in results)
    per_fn: Dict[str, List[int]] = {}
    dig: Dict[str, set] = {}
    used = set()
    oos: Dict[str, int] = {}
    oos_samples: List[Any] = []
    samples: Dict[str, List[Any]] = {}
    fails = []
    for r in results:
        for fn, (n, _) in r["per_fn"].items():
            per_fn.setdefault(fn, [0, 0])[0] += n
        for fn, d in r["digests"]:
            dig.setdefault(fn, set()).add(d)
        used |= r["used"]
        for k, v in r["oos"].items(): oos[k] = oos.get(k, 0) + v
        oos_samples += r["oos_samples"]
        for s in r["samples"]:
            samples.setdefault(s["fn"], []).append(s)
        fails += r["fails"]
    avail = set()
    for (shape, tier), pats in G._PFS_CACHE.items():
        if tier == ctx.tier:
            for p in pats:
                avail.add(canon({"pool": p["pool"], "vaxes": p["vaxes"], "storage": p["storage"]}))
    bounds = {
        "einsum": ("every signature with <= 2 operands / <= 3 labels (operand rank <= 3, repeated labels allowed) x every "
                   "duplicate-free output list" + (", plus every signature with <= 3 operands / <= 4 labels x every output list (<= 3 labels) / 24 sampled output lists (4 labels)"
                   if ctx.thorough else ", plus 400 sampled 3-operand signatures") +
                   ", plus the empty operand list; label sizes in {1,2,3} and one zero-size assignment per unit; "
                   "operands = well-typed patterns from patterns_for_shape (dense, diagonal, SumAxis, unit, stride-0/transposed "
                   "storage, zero-size physical axes) with default = zero or not; x {Real,Log,Viterbi,Bool} x requires_grad x "
                   "float64 (float32 subset)" + FAMILIES_BOUND),
        "viterbi": "log_viterbi_einsum_forward on the same signatures (Viterbi semiring, float64, requires_grad on/off)" + FAMILIES_BOUND,
        "mv": "PatternedTensor.mv, sizes in {0,1,2,3}^2, 4 semirings x requires_grad, float64 + float32" + FAMILIES_BOUND,
        "mm": "PatternedTensor.mm, sizes in {0,1,2,3}^3, 4 semirings x requires_grad, float64 + float32" + FAMILIES_BOUND,
    }
    fnname = {"einsum": "fggs.indices.einsum", "viterbi": "fggs.indices.log_viterbi_einsum_forward",
              "mv": "fggs.indices.PatternedTensor.mv", "mm": "fggs.indices.PatternedTensor.mm"}
    for fn in ("einsum", "viterbi", "mv", "mm"):
        n = per_fn.get(fn, [0, 0])[0]
        rep.bounded.append(Bounded(
            function=fnname[fn], bound=bounds[fn], cases=n, distinct_nontrivial=len(dig.get(fn, ())),
            rule=("signatures are enumerated exhaustively within the bound; per (signature, output, semiring, dtype, "
                  "requires_grad) unit a seeded draw of label sizes, label types, conforming operand patterns and data from "
                  "{zero, one, 1/2, 2, inf}; a case is non-trivial iff it has >= 1 operand and the oracle result has a "
                  "non-zero cell; distinct = distinct canonical JSON recipes"),
            samples=samples.get(fn, [])[:3], exhaustive=False,
            extra={"operand patterns used / available in patterns_for_shape": f"{len(used & avail)}/{len(avail)}"}))
    # failures
    fails.sort(key=lambda f: (fail_key(f), len(canon(f["case"])), canon(f["case"])))
    count: Dict[str, int] = {}
    for r in results:
        for k, v in r["fcount"].items(): count[k] = count.get(k, 0) + v
    kept: Dict[str, int] = {}
    for f in fails:
        k = fail_key(f)
        kept[k] = kept.get(k, 0) + 1
        if kept[k] > MAX_FAIL_PER_KEY:
            continue
        c = f["case"]
        rep.failures.append(Failure(
            obligation=f"{fnname[c['fn']]}.{f['clause']}", what=fail_what(f),
            replay={"module": MODULE, "func": "replay_case", "case": c}, detail=f["detail"], key=k))
    rep.extra["c07_bounded"] = {"units": len(units), "cases": total, "failures_by_key": count, "scope": info,
                                "generated_but_out_of_scope": oos, "out_of_scope_samples": oos_samples[:2],
                                "wall_s": round(time.time() - t0, 1), "pattern_cache_s": round(t_warm, 1)}
    rep.assumptions.append("C07 bounded: operands with requires_grad=True are evaluated under torch.no_grad(), as inside "
                           "SumProduct.forward; with grad mode enabled RealSemiring.einsum raises (out= on a tensor that requires grad)")
    rep.assumptions.append("C07 bounded: 'well-typed' = every label has an algebraic index type and every zero-default operand axis "
                           "conforms to it (conforms() in props/c07_bounded.py, cross-checked with gen_pt.ax_compatible); cases on "
                           "which the library nevertheless warns 'index type mismatch' are counted as out of scope, not as failures")
    rep.functions_under_contract += list(fnname.values())
    return rep


def replay_case(case) -> bool:
    torch.set_num_threads(1)
    res = run_case(case)
    print("case:", canon(case)[:1500])
    if not res:
        print("contract holds on this case")
        return False
    for clause, kc, detail in res:
        print(f"VIOLATED {case['fn']}.{clause} [{kc}]: {detail}")
    return any(kc not in ("harness-build", "harness-exception") for _, kc, _ in res)


if __name__ == "__main__":
    import sys
    tier = sys.argv[1] if len(sys.argv) > 1 else "quick"
    t = time.time()
    r = run_bounded(Ctx("C07", tier, 0))
    print("wall", round(time.time() - t, 1))
    for b in r.bounded: print(b.function, b.cases, b.distinct_nontrivial, b.extra)
    print(json.dumps(r.extra, indent=1)[:3000])
    for f in r.failures: print(f.obligation, "|", f.key, "|", f.what[:200], "|", f.detail[:200])
