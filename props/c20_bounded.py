"""C20 (bounded): domains and factors index consistently and reject ill-shaped bindings.

Real classes FiniteDomain, RangeDomain, FiniteFactor, InterpretationMixin (on FGG and
FactorGraph) are driven through their public API over enumerated small scopes; the
oracles are written here (list positions, own nested-list indexing, own raise-iff tables).

Value encoding in recipes (JSON): int -> int, str -> str, None -> null, bool -> true/false,
float -> {"f": x}, tuple -> {"t": [...]}.
"""
from __future__ import annotations
import itertools, json, math, warnings
from typing import Any, Dict, List, Tuple

import torch
import fggs
from fggs import (FGG, FactorGraph, Node, Edge, NodeLabel, EdgeLabel, FiniteDomain, RangeDomain, FiniteFactor)
from fggs.domains import Domain
from fggs.indices import PatternedTensor, PhysicalAxis, SumAxis, productAxis
from vf.core import Ctx, Report, Bounded, Failure

MODULE = "props.c20_bounded"
PER_KEY_CAP = 3


# ----------------------------------------------------------------------------------------
# value encoding
# ----------------------------------------------------------------------------------------
def dec(v):
    if isinstance(v, dict):
        if "f" in v:
            return float(v["f"])
        return tuple(dec(x) for x in v["t"])
    return v


def enc(v):
    if isinstance(v, bool) or v is None or isinstance(v, (int, str)):
        return v
    if isinstance(v, float):
        return {"f": v}
    return {"t": [enc(x) for x in v]}


def strict_eq(a, b) -> bool:
    """Same type and equal (recursively): the 'identical value' relation."""
    if type(a) is not type(b):
        return False
    if isinstance(a, tuple):
        return len(a) == len(b) and all(strict_eq(x, y) for x, y in zip(a, b))
    return a == b


POOL = [0, 1, 2, -1, "a", "b", "", (), (0,), (1, "a"), None, True, 1.0, 2.5]


class Collector:
    def __init__(self):
        self.fails: List[dict] = []
        self.counts: Dict[str, int] = {}

    def add(self, obligation, key, what, case, detail=""):
        self.counts[key] = self.counts.get(key, 0) + 1
        if self.counts[key] <= PER_KEY_CAP:
            self.fails.append({"obligation": obligation, "key": key, "what": what, "case": case, "detail": detail})


# ----------------------------------------------------------------------------------------
# A. domains
# ----------------------------------------------------------------------------------------
def check_finite_domain(case, col: Collector) -> bool:
    """case = {"kind": "finite_domain", "values": [enc...]}; values pairwise distinct (precondition)."""
    vals = [dec(v) for v in case["values"]]
    d = FiniteDomain(vals)
    n = len(vals)
    ok = True

    def bad(clause, msg):
        nonlocal ok
        ok = False
        col.add(f"FiniteDomain.{clause}", f"FiniteDomain.{clause}", f"FiniteDomain({vals!r}): {msg}", case, msg)
    if d.size() != n:
        bad("size", f"size() observed {d.size()} expected {n}")
    for i, v in enumerate(vals):
        try:
            k = d.numberize(v)
        except Exception as e:
            bad("numberize", f"numberize({v!r}) raised {e!r}")
            continue
        if k != i or isinstance(k, bool):
            bad("numberize", f"numberize({v!r}) observed {k!r} expected {i}")
        back = d.denumberize(i)
        if not strict_eq(back, v):
            bad("denumberize", f"denumberize({i}) observed {back!r} expected {v!r}")
        if d.numberize(d.denumberize(i)) != i:
            bad("inverse", f"numberize(denumberize({i})) != {i}")
        if d.contains(v) is not True:
            bad("contains", f"contains({v!r}) observed {d.contains(v)!r} expected True")
    for u in POOL + ["zz", 7, (2,)]:
        if any(u == v for v in vals):
            continue
        if d.contains(u) is not False:
            bad("contains", f"contains({u!r}) observed {d.contains(u)!r} expected False")
        try:
            k = d.numberize(u)
            bad("numberize", f"numberize({u!r}) of a non-member returned {k!r}; expected KeyError")
        except KeyError:
            pass
        except Exception as e:
            bad("numberize", f"numberize({u!r}) of a non-member raised {e!r}; expected KeyError")
    for i in (n, n + 1):
        try:
            d.denumberize(i)
            bad("denumberize", f"denumberize({i}) out of range returned a value")
        except IndexError:
            pass
    # equality by content
    same = FiniteDomain(list(vals))
    if not (d == same) or (d != same) or not (same == d):
        bad("eq", "a domain built from an equal value list is not ==")
    if not (d == d) or (d != d):
        bad("eq", "not reflexive")
    for other in ([*vals, "extra"], vals[:-1] if vals else ["x"], list(reversed(vals)) if n >= 2 else ["y"], ["q"] * n if n else ["q"]):
        if other == vals:
            continue
        o = FiniteDomain(other)
        if (d == o) or not (d != o) or (o == d):
            bad("eq", f"== a domain with values {other!r}")
    if d == RangeDomain(n) and n > 0 and vals != list(range(n)):
        bad("eq", "== a RangeDomain although the values differ")
    j = d.to_json()
    if j.get("class") != "finite" or j.get("values") != vals:
        bad("to_json", f"to_json observed {j!r}")
    return ok


def check_range_domain(case, col: Collector) -> bool:
    n = case["size"]
    d = RangeDomain(n)
    ok = True

    def bad(clause, msg, key=None):
        nonlocal ok
        ok = False
        col.add(f"RangeDomain.{clause}", key or f"RangeDomain.{clause}", f"RangeDomain({n}): {msg}", case, msg)
    if d.size() != n:
        bad("size", f"size() {d.size()}")
    for i in range(n):
        if d.numberize(i) != i or d.denumberize(i) != i or d.numberize(d.denumberize(i)) != i or d.denumberize(d.numberize(i)) != i:
            bad("inverse", f"numberize/denumberize not identity at {i}")
        if d.contains(i) is not True:
            bad("contains", f"contains({i}) is not True")
    for v in (-2, -1, n, n + 1):
        if d.contains(v) is not False:
            bad("contains", f"contains({v}) observed {d.contains(v)!r} expected False")
    # the values of a range domain are the naturals 0..size-1; contains must agree with the bijection
    for v in sorted({0.5, n - 0.5}):
        if 0 <= v < n:
            try:
                r = d.contains(v)
            except Exception as e:
                r = e
            if r is not False:
                bad("contains", f"contains({v}) observed {r!r} expected False ({v} is not one of the values 0..{n - 1}; "
                                f"numberize({v}) = {d.numberize(v)!r} is not an index)", key="RangeDomain.contains:non-integer-float")
    for m in range(0, 5):
        e = RangeDomain(m)
        if (d == e) != (m == n) or (d != e) != (m != n):
            bad("eq", f"== RangeDomain({m}) observed {d == e}")
    j = d.to_json()
    if j != {"class": "range", "size": n}:
        bad("to_json", f"{j!r}")
    return ok


# ----------------------------------------------------------------------------------------
# B. FiniteFactor
# ----------------------------------------------------------------------------------------
class InfDomain(Domain):
    def to_json(self):
        return {"class": "inf"}
    def contains(self, value):
        return True
    def size(self):
        return math.inf
    def numberize(self, v):
        return v


def make_dom(spec):
    """spec: ["F", k] finite domain with k values 'v0'.. ; ["R", k] range ; ["I"] infinite ; ["V", [enc...]] explicit values."""
    if spec[0] == "F":
        return FiniteDomain([f"v{i}" for i in range(spec[1])])
    if spec[0] == "R":
        return RangeDomain(spec[1])
    if spec[0] == "V":
        return FiniteDomain([dec(v) for v in spec[1]])
    return InfDomain()


def dom_size(spec):
    return math.inf if spec[0] == "I" else (len(spec[1]) if spec[0] == "V" else spec[1])


def dom_values(spec):
    if spec[0] == "F":
        return [f"v{i}" for i in range(spec[1])]
    if spec[0] == "R":
        return list(range(spec[1]))
    return [dec(v) for v in spec[1]]


def nested(shape, start=1.0):
    """Nested list of the given shape filled with start, start+1, ... (row-major); independent of torch."""
    cnt = [start]

    def go(dims):
        if not dims:
            v = cnt[0]
            cnt[0] += 1.0
            return v
        return [go(dims[1:]) for _ in range(dims[0])]
    return go(list(shape))


def nested_shape(x) -> tuple:
    if not isinstance(x, list):
        return ()
    if len(x) == 0:
        return (0,)
    return (len(x),) + nested_shape(x[0])


def make_weights(shape, rep, start=1.0):
    nl = nested(shape, start)
    if rep == "list":
        return nl, nested_shape(nl)
    t = torch.tensor(nl, dtype=torch.get_default_dtype()).reshape(tuple(shape))
    if rep == "tensor":
        return t, tuple(shape)
    rev = tuple(reversed(range(t.dim())))
    if rep == "tensor_perm":        # the same dense tensor as a non-contiguous (permuted) view
        return t.permute(rev).contiguous().permute(rev), tuple(shape)
    if rep == "patterned_perm":     # ... and as a patterned tensor whose virtual axes are a permutation of its physical axes
        return PatternedTensor(t.permute(rev).contiguous()).permute(rev), tuple(shape)
    return PatternedTensor(t), tuple(shape)


def check_factor_init(case, col: Collector) -> bool:
    """case = {"kind":"factor_init","doms":[spec..],"shape":[..],"rep":"list|tensor|patterned"}"""
    specs, shape, rep = case["doms"], case["shape"], case["rep"]
    doms = [make_dom(s) for s in specs]
    w, eff = make_weights(shape, rep)
    sizes = tuple(dom_size(s) for s in specs)
    expect = "TypeError" if any(s == math.inf for s in sizes) else ("ok" if eff == sizes else "ValueError")
    try:
        f = FiniteFactor(doms, w)
        got = "ok"
    except ValueError:
        got = "ValueError"
    except TypeError:
        got = "TypeError"
    except Exception as e:
        got = f"{type(e).__name__}: {e}"
    ok = True
    if got != expect:
        ok = False
        col.add("FiniteFactor.__init__.raises", f"FiniteFactor():{rep}:expected-{expect}:got-{got.split(':')[0]}",
                f"FiniteFactor(domain sizes {sizes}, {rep} weights of shape {eff}): observed {got}, expected {expect}", case)
        return ok
    if got != "ok":
        return ok
    if tuple(f.weights.shape) != sizes or not isinstance(f.weights, PatternedTensor) or f.arity != len(sizes):
        ok = False
        col.add("FiniteFactor.__init__.post", "FiniteFactor():weights-shape", f"sizes {sizes}: weights.shape {tuple(f.weights.shape)}", case)
    ref = nested(sizes)                                 # what the weights denote, as a nested list
    vals = [dom_values(s) for s in specs]
    for idx in itertools.product(*[range(k) for k in sizes]):
        exp = ref
        for i in idx:
            exp = exp[i]
        try:
            r = f.apply([vals[a][i] for a, i in enumerate(idx)])
            r = float(r)
        except Exception as e:
            r = e
        if r != exp:
            ok = False
            col.add("FiniteFactor.apply", f"FiniteFactor.apply:{rep}", f"sizes {sizes} apply at {idx}: observed {r!r} expected {exp}", case)
            break
    # to_json of the weights denotes the same nested list
    try:
        j = f.to_json()
        if j["function"] != "finite" or (j["weights"] != ref and len(sizes) > 0 and 0 not in sizes) or (len(sizes) == 0 and j["weights"] != ref):
            ok = False
            col.add("FiniteFactor.to_json", "FiniteFactor.to_json", f"sizes {sizes}: observed {j!r} expected weights {ref!r}", case)
    except Exception as e:
        ok = False
        col.add("FiniteFactor.to_json", "FiniteFactor.to_json:raises", f"sizes {sizes} {rep}: {e!r}", case)
    # the setter rejects a wrong shape and keeps the old weights
    before = f.weights.to_dense().clone()
    wrong = tuple(list(sizes) + [2])
    try:
        f.weights = torch.zeros(wrong)
        ok = False
        col.add("FiniteFactor.weights.setter", "FiniteFactor.weights=:wrong-shape-accepted", f"sizes {sizes}: accepted shape {wrong}", case)
    except ValueError:
        if not torch.equal(f.weights.to_dense(), before):
            ok = False
            col.add("FiniteFactor.weights.setter", "FiniteFactor.weights=:changed-on-raise", f"sizes {sizes}", case)
    return ok


# ---- equality ---------------------------------------------------------------------------
def patterned_variants(dense: torch.Tensor) -> List[Tuple[str, PatternedTensor]]:
    """PatternedTensors with different sparsity patterns that denote `dense` (only those that apply)."""
    out = [("dense", PatternedTensor(dense.clone()))]
    shape = tuple(dense.shape)
    if len(shape) == 2 and shape[0] == shape[1] and shape[0] >= 2:
        n = shape[0]
        off = dense.clone()
        off[range(n), range(n)] = 0
        if not off.any():
            k = PhysicalAxis(n)
            out.append(("diagonal", PatternedTensor(torch.diagonal(dense).clone(), (k,), (k, k), 0.)))
    if dense.numel() > 1 and bool((dense == dense.flatten()[0]).all()):
        out.append(("stride0", PatternedTensor(dense.flatten()[0].clone().expand(shape))))
        out.append(("full", PatternedTensor.full(shape, float(dense.flatten()[0]))))
    if len(shape) >= 1 and shape[0] >= 2 and dense.numel() > 0:
        # first row(s) zero, rest a block embedded with SumAxis
        if not dense[0].any():
            blk = dense[1:].clone()
            paxes = tuple(PhysicalAxis(s) for s in blk.shape)
            vaxes = (SumAxis(1, paxes[0], 0),) + paxes[1:]
            out.append(("sum-embedded", PatternedTensor(blk, paxes, vaxes, 0.)))
    return out


EQ_TENSORS = {
    "diag2": [[1.0, 0.0], [0.0, 2.0]],
    "diag3": [[1.0, 0.0, 0.0], [0.0, 2.0, 0.0], [0.0, 0.0, 3.0]],
    "const22": [[4.0, 4.0], [4.0, 4.0]],
    "const3": [7.0, 7.0, 7.0],
    "low2": [[0.0, 0.0], [1.0, 2.0]],
    "low3": [[0.0, 0.0], [1.0, 2.0], [3.0, 4.0]],
    "vec0": [0.0, 5.0, 6.0],
    "full22": [[1.0, 2.0], [3.0, 4.0]],
    "inf2": [[math.inf, 0.0], [0.0, -math.inf]],
    "zeros22": [[0.0, 0.0], [0.0, 0.0]],
    "scalar": 3.0,
}


def check_factor_eq(case, col: Collector) -> bool:
    """case = {"kind":"factor_eq","a":name,"b":name,"doms":"F|R|mixed"}: all pattern variants of a vs all of b."""
    ta = torch.tensor(EQ_TENSORS[case["a"]])
    tb = torch.tensor(EQ_TENSORS[case["b"]])
    ok = True

    def doms_for(t, kind):
        return [make_dom([("F" if kind == "F" else "R"), n]) for n in t.shape]
    da = doms_for(ta, case["doms"][0])
    db = doms_for(tb, case["doms"][1])
    same_doms = (tuple(ta.shape) == tuple(tb.shape)) and (ta.dim() == 0 or case["doms"][0] == case["doms"][1])
    expect = same_doms and torch.equal(ta, tb)
    for (na, pa) in patterned_variants(ta):
        for (nb, pb) in patterned_variants(tb):
            fa, fb = FiniteFactor(da, pa), FiniteFactor(db, pb)
            try:
                r1, r2, r3 = (fa == fb), (fb == fa), (fa != fb)
            except Exception as e:
                ok = False
                col.add("FiniteFactor.__eq__", "FiniteFactor.==:raises", f"{case} patterns {na}/{nb}: {e!r}", dict(case, pa=na, pb=nb))
                continue
            if r1 != expect or r2 != expect or r3 == expect:
                ok = False
                col.add("FiniteFactor.__eq__", f"FiniteFactor.==:{'same' if expect else 'different'}-denotation:{na}/{nb}",
                        f"{case['a']}[{na}] == {case['b']}[{nb}] (domains {case['doms']}): observed ==:{r1}/{r2} !=:{r3}, expected {expect}",
                        dict(case, pa=na, pb=nb))
            if not (fa == fa):
                ok = False
                col.add("FiniteFactor.__eq__", "FiniteFactor.==:not-reflexive", f"{case}", case)
    return ok


# ----------------------------------------------------------------------------------------
# C/D. add_domain / add_factor / new_finite_factor / shape on FGG and FactorGraph
# ----------------------------------------------------------------------------------------
NL = {c: NodeLabel(c) for c in "ABC"}
DOMSPEC = {"D2": ["V", [0, 1]], "D2eq": ["V", [0, 1]], "D2x": ["V", ["p", "q"]], "D3": ["V", [0, 1, 2]], "R2": ["R", 2]}
HOST_DOMAINS = {"A": "D2", "B": "D3"}           # C has no domain


def label(ref: str) -> EdgeLabel:
    head, typ = ref.split(":")
    name, kind = head[:-1], head[-1]
    return EdgeLabel(name, tuple(NL[c] for c in typ), is_terminal=(kind == "T"), is_nonterminal=(kind == "N"))


def make_host(kind):
    h = FGG("S") if kind == "FGG" else FactorGraph()
    for nl, d in HOST_DOMAINS.items():
        h.add_domain(NL[nl], make_dom(DOMSPEC[d]))
    return h


def host_view(h):
    doms = [(k, type(d).__name__, list(d.values) if isinstance(d, FiniteDomain) else d.size(), id(d)) for k, d in h.domains.items()]
    facs = [(k, id(f), f.weights.to_dense().tolist() if isinstance(f, FiniteFactor) else None) for k, f in h.factors.items()]
    return (list(h.node_labels()), list(h.edge_labels()), doms, facs)


def factor_for(domrefs, fill=1.0):
    doms = [make_dom(DOMSPEC[d]) for d in domrefs]
    sizes = [dom_size(DOMSPEC[d]) for d in domrefs]
    return FiniteFactor(doms, nested(sizes, fill)), tuple(sizes)


def check_binding(case, col: Collector) -> bool:
    """case = {"kind":"binding","host":..,"pre":"unknown|known|conflict|bound","label":ref,"factor":[domrefs],"via":"add_factor|new_finite_factor"}"""
    h = make_host(case["host"])
    el = label(case["label"])
    pre = case["pre"]
    typ = case["label"].split(":")[1]
    if pre == "known":
        h.add_edge_label(el)
    elif pre == "conflict":
        other = EdgeLabel(el.name, tuple(el.type) + (NL["A"],), is_terminal=True)
        h.add_edge_label(other)
    elif pre == "bound":
        f0, _ = factor_for([HOST_DOMAINS[c] for c in typ], fill=100.0)
        h.add_factor(el, f0)                          # feasible by construction of the case list
    via = case["via"]
    sizes_label = tuple(dom_size(DOMSPEC[HOST_DOMAINS[c]]) if c in HOST_DOMAINS else None for c in typ)
    reasons = []
    if via == "add_factor":
        fac, fsizes = factor_for(case["factor"])
        if el.is_nonterminal:
            reasons.append("nonterminal")
        if pre == "conflict":
            reasons.append("name-denotes-different-label")
        if pre == "bound":
            reasons.append("already-bound")
        if len(case["factor"]) != len(typ):
            reasons.append("arity-mismatch")
        else:
            if any(c not in HOST_DOMAINS for c in typ):
                reasons.append("node-label-without-domain")
            for c, dref in zip(typ, case["factor"]):
                if c in HOST_DOMAINS and not _dom_equal(DOMSPEC[HOST_DOMAINS[c]], DOMSPEC[dref]):
                    reasons.append("domain-mismatch")
                    break
        expect = "ValueError" if reasons else "ok"
    else:
        # new_finite_factor(name, weights): the label is looked up by name
        shape = case["factor"]                        # here: the weight shape
        if pre == "unknown":
            expect, reasons = "KeyError", ["unknown-label"]
        else:
            target = el if pre != "conflict" else None
            if pre == "conflict":
                # the name denotes the *other* label (type + A): binding refers to that label
                typ2 = typ + "A"
                sizes_label = tuple(dom_size(DOMSPEC[HOST_DOMAINS[c]]) if c in HOST_DOMAINS else None for c in typ2)
                is_nt = False
            else:
                is_nt = el.is_nonterminal
            if None in sizes_label:
                expect, reasons = "KeyError|ValueError", ["node-label-without-domain"]
            else:
                if is_nt:
                    reasons.append("nonterminal")
                if pre == "bound":
                    reasons.append("already-bound")
                if tuple(shape) != sizes_label:
                    reasons.append("weights-shape-mismatch")
                expect = "ValueError" if reasons else "ok"
    before = host_view(h)
    try:
        if via == "add_factor":
            h.add_factor(el, fac)
        else:
            fac = h.new_finite_factor(el.name, nested(case["factor"]))
        got = "ok"
    except Exception as e:
        got = type(e).__name__
        err = e
    after = host_view(h)
    ok = True
    tag = f"{case['host']}.{via}"
    if got not in expect.split("|"):
        ok = False
        col.add(f"{tag}.raises", f"{via}:expected-{expect}:got-{got}:" + "+".join(reasons or ["valid"]),
                f"{tag}({case['label']}, factor over {case['factor']}) with label {pre}: observed {got}, expected {expect} ({'+'.join(reasons) or 'valid binding'})",
                case, detail="" if got == "ok" else repr(err))
    if got != "ok" and after != before:
        ok = False
        diff = [n for n, a, b in zip(("node_labels", "edge_labels", "domains", "factors"), before, after) if a != b]
        col.add(f"{tag}.on_raise", f"{via}:on_raise:changed-{'+'.join(diff)}:" + "+".join(reasons or ["?"]),
                f"{tag}({case['label']}, {case['factor']}) with label {pre} raised {got} but changed {diff}", case,
                detail=f"observed edge labels after {[str(l.name) for l in after[1]]}, before {[str(l.name) for l in before[1]]}")
    if got == "ok" and expect == "ok":
        if h.factors.get(el.name) is not fac:
            ok = False
            col.add(f"{tag}.post", f"{via}:post:factor-not-stored", f"{case}", case)
        try:
            shp = h.shape(h.get_edge_label(el.name))
            want = tuple(fac.weights.shape)
            if tuple(shp) != want:
                ok = False
                col.add(f"{tag}.post", f"{via}:post:shape", f"{case}: shape {shp} expected {want}", case)
        except Exception as e:
            ok = False
            col.add(f"{tag}.post", f"{via}:post:shape-raises", f"{case}: {e!r}", case)
    return ok


def _dom_equal(s1, s2) -> bool:
    if s1[0] != s2[0]:
        return False
    return s1[1] == s2[1]


def binding_cases() -> List[dict]:
    cases = []
    types = [""] + list("ABC") + ["AA", "AB", "BA", "AC"]
    facs = [[]] + [[d] for d in DOMSPEC] + [["D2", "D3"], ["D2", "D2"], ["D3", "D2"], ["D2eq", "D3"], ["D2", "R2"], ["D2x", "D3"]]
    for host in ("FGG", "FactorGraph"):
        for kind in "TN":
            for typ in types:
                ref = f"f{kind}:{typ}"
                for pre in ("unknown", "known", "conflict", "bound"):
                    if pre == "bound" and (kind == "N" or any(c not in HOST_DOMAINS for c in typ)):
                        continue
                    for fac in facs:
                        cases.append({"kind": "binding", "host": host, "pre": pre, "label": ref, "factor": fac, "via": "add_factor"})
                    shapes = {(), (2,), (3,), (2, 3), (2, 2), (3, 2), (2, 3, 2), (2, 2, 2)}
                    for shp in sorted(shapes):
                        cases.append({"kind": "binding", "host": host, "pre": pre, "label": ref, "factor": list(shp), "via": "new_finite_factor"})
    return cases


def check_add_domain(case, col: Collector) -> bool:
    """case = {"kind":"add_domain","host":..,"first":domref|None,"second":domref,"via":"add_domain|new_finite_domain"}"""
    h = FGG("S") if case["host"] == "FGG" else FactorGraph()
    ok = True
    if case["first"]:
        h.add_domain(NL["A"], make_dom(DOMSPEC[case["first"]]))
    before = host_view(h)
    expect = "ValueError" if case["first"] else "ok"
    d2 = make_dom(DOMSPEC[case["second"]])
    try:
        if case["via"] == "add_domain":
            h.add_domain(NL["A"], d2)
        else:
            d2 = h.new_finite_domain("A", dom_values(DOMSPEC[case["second"]]))
        got = "ok"
    except Exception as e:
        got = type(e).__name__
    tag = f"{case['host']}.{case['via']}"
    if got != expect:
        ok = False
        col.add(f"{tag}.raises", f"{case['via']}:expected-{expect}:got-{got}", f"{tag} {case}: observed {got} expected {expect}", case)
    if got != "ok" and host_view(h) != before:
        ok = False
        col.add(f"{tag}.on_raise", f"{case['via']}:on_raise:changed", f"{tag} {case}", case)
    if got == "ok" and expect == "ok":
        if h.domains.get("A") is not d2 or not h.has_node_label_name("A"):
            ok = False
            col.add(f"{tag}.post", f"{case['via']}:post", f"{tag} {case}", case)
        if h.shape([NL["A"]]) != (d2.size(),):
            ok = False
            col.add(f"{tag}.post", f"{case['via']}:post:shape", f"{tag} {case}", case)
    return ok


def check_shape(case, col: Collector) -> bool:
    """case = {"kind":"shape","host":..,"type":"AB","as":"edge|label|nodes-list|nodes-tuple|labels-list|labels-tuple"}"""
    h = make_host(case["host"])
    typ = case["type"]
    want = tuple(dom_size(DOMSPEC[HOST_DOMAINS[c]]) for c in typ)
    nodes = [Node(NL[c]) for c in typ]
    el = EdgeLabel("f", tuple(NL[c] for c in typ), is_terminal=True)
    arg = {"edge": Edge(el, nodes), "label": el, "nodes-list": nodes, "nodes-tuple": tuple(nodes),
           "labels-list": [NL[c] for c in typ], "labels-tuple": tuple(NL[c] for c in typ)}[case["as"]]
    try:
        got = h.shape(arg)
    except Exception as e:
        got = e
    if got != want or not isinstance(got, tuple):
        col.add(f"{case['host']}.shape", f"shape:{case['as']}", f"shape of {typ!r} given as {case['as']}: observed {got!r} expected {want}", case)
        return False
    return True


# ----------------------------------------------------------------------------------------
# driver
# ----------------------------------------------------------------------------------------
def finite_domain_cases(max_size):
    skipped = 0
    cases = []
    for k in range(max_size + 1):
        for tup in itertools.permutations(range(len(POOL)), k):
            vals = [POOL[i] for i in tup]
            if any(vals[i] == vals[j] for i in range(k) for j in range(i)):
                skipped += 1                       # e.g. 1 / True / 1.0: equal, hence not distinct values
                continue
            cases.append({"kind": "finite_domain", "values": [enc(v) for v in vals]})
    return cases, skipped


def factor_init_cases(max_rank=3, max_ext=3):
    dom_tuples = []
    for r in range(max_rank + 1):
        for sizes in itertools.product(range(max_ext + 1), repeat=r):
            # alternate finite / range domains deterministically
            dom_tuples.append([["F" if (i + s) % 2 == 0 else "R", s] for i, s in enumerate(sizes)])
    shapes = [list(s) for r in range(max_rank + 1) for s in itertools.product(range(max_ext + 1), repeat=r)]
    cases = []
    for doms in dom_tuples:
        for shp in shapes:
            for rep in ("list", "tensor", "patterned"):
                cases.append({"kind": "factor_init", "doms": doms, "shape": shp, "rep": rep})
            if len(shp) >= 2 and len(shp) == len(doms):
                for rep in ("tensor_perm", "patterned_perm"):
                    cases.append({"kind": "factor_init", "doms": doms, "shape": shp, "rep": rep})
    # an infinite domain anywhere -> TypeError whatever the weights
    for doms in ([["I"]], [["F", 2], ["I"]], [["I"], ["R", 2]]):
        for shp in ([], [2], [2, 2]):
            for rep in ("list", "tensor", "patterned"):
                cases.append({"kind": "factor_init", "doms": doms, "shape": shp, "rep": rep})
    return cases


CHECKERS = {"finite_domain": check_finite_domain, "range_domain": check_range_domain, "factor_init": check_factor_init,
            "factor_eq": check_factor_eq, "binding": check_binding, "add_domain": check_add_domain, "shape": check_shape}


def run_bounded(ctx: Ctx) -> Report:
    torch.set_num_threads(1)
    rep = Report(property_id="C20", level="exploration")
    rep.functions_under_contract = ["fggs.domains.FiniteDomain", "fggs.domains.RangeDomain", "fggs.factors.FiniteFactor",
                                    "fggs.fggs.InterpretationMixin.add_domain", "fggs.fggs.InterpretationMixin.add_factor",
                                    "fggs.fggs.InterpretationMixin.new_finite_factor", "fggs.fggs.InterpretationMixin.new_finite_domain",
                                    "fggs.fggs.InterpretationMixin.shape"]
    col = Collector()

    def run_group(name, bound, rule, cases, exhaustive=True, extra=None):
        nontrivial = set()
        for c in cases:
            CHECKERS[c["kind"]](c, col)
            nontrivial.add(json.dumps(c, sort_keys=True))
        rep.bounded.append(Bounded(function=name, bound=bound, cases=len(cases), distinct_nontrivial=len(nontrivial), rule=rule,
                                   samples=cases[:1] + cases[len(cases) // 2: len(cases) // 2 + 1] + cases[-1:], exhaustive=exhaustive,
                                   extra=extra or {}))

    with warnings.catch_warnings():
        warnings.simplefilter("ignore")
        maxd = 4
        fcases, skipped = finite_domain_cases(maxd)
        run_group("FiniteDomain (size, numberize, denumberize, contains, ==, to_json)",
                  f"all ordered lists of pairwise-distinct values of length 0..{maxd} from a pool of {len(POOL)} mixed hashables"
,
                  "enumeration of permutations; lists containing two equal values (1/True/1.0) are outside the precondition and skipped (counted)",
                  fcases, exhaustive=True, extra={"skipped_lists_with_equal_values": skipped, "pool": [repr(v) for v in POOL]})
        run_group("RangeDomain", "sizes 0..4", "enumeration", [{"kind": "range_domain", "size": n} for n in range(5)])
        run_group("FiniteFactor.__init__/weights/apply/to_json",
                  f"0-3 domains of sizes 0-{4 if ctx.thorough else 3} (finite and range alternating) x every weight shape of rank 0-3 with the same extents x (nested list, Tensor, PatternedTensor); "
                  "plus infinite-domain cases",
                  "full product; for nested lists the effective shape is computed by an own function (a list cannot express extents after a 0); "
                  "accepted iff effective shape == domain sizes; apply compared at every index of every accepted factor",
                  factor_init_cases(3, 4 if ctx.thorough else 3))
        names = list(EQ_TENSORS)
        eqc = [{"kind": "factor_eq", "a": a, "b": b, "doms": d} for a in names for b in names for d in ("FF", "RR", "FR")
               if torch.tensor(EQ_TENSORS[a]).shape == torch.tensor(EQ_TENSORS[b]).shape]
        run_group("FiniteFactor.__eq__/__ne__",
                  f"{len(names)} dense tensors (diagonal, constant, lower block, +-inf, zeros, scalar) x all of their sparsity patterns "
                  "(dense, diagonal, stride-0 expanded, SumAxis-embedded block) x domain kinds",
                  "all same-shape pairs; equal iff same domains and same dense values", eqc)
        adc = [{"kind": "add_domain", "host": h, "first": f, "second": s, "via": v} for h in ("FGG", "FactorGraph")
               for f in (None, "D2", "D3", "R2") for s in ("D2", "D3", "D2x") for v in ("add_domain", "new_finite_domain")]
        run_group("add_domain / new_finite_domain", "label unmapped / mapped to an equal / to a different domain", "enumeration", adc)
        run_group("add_factor / new_finite_factor",
                  "hosts {FGG, FactorGraph} x labels f{T,N} of types over {A,B,C} (C without domain) arity 0-2 x label state {unknown, known, "
                  "name denotes another label, already bound} x 12 factor domain tuples / 8 weight shapes",
                  "full product (bound-state only where a first binding is possible); raise-iff table and snapshot comparison on raise",
                  binding_cases())
        shc = [{"kind": "shape", "host": h, "type": t, "as": a} for h in ("FGG", "FactorGraph") for t in ("", "A", "B", "AB", "BA", "ABA")
               for a in ("edge", "label", "nodes-list", "nodes-tuple", "labels-list", "labels-tuple")]
        run_group("shape()", "types of length 0-3 over mapped labels x 6 argument forms", "enumeration", shc)
    # observations that are not failures
    obs = {}
    try:
        obs["RangeDomain(2).contains('a')"] = repr(RangeDomain(2).contains("a"))
    except Exception as e:
        obs["RangeDomain(2).contains('a')"] = f"raises {type(e).__name__}"
    obs["FiniteDomain([0,1]) == RangeDomain(2)"] = FiniteDomain([0, 1]) == RangeDomain(2)
    obs["FiniteDomain([1]) == FiniteDomain([True])"] = FiniteDomain([1]) == FiniteDomain([True])
    rep.extra["observations"] = obs
    rep.extra["failure_counts_by_key"] = dict(sorted(col.counts.items()))
    for f in col.fails:
        rep.failures.append(Failure(obligation=f["obligation"], what=f["what"], key=f["key"], detail=f["detail"],
                                    replay={"module": MODULE, "func": "replay_case", "case": f["case"]}))
    rep.trusted_base = ["PatternedTensor.__getitem__/to_dense/equal (C06, C13)"]
    return rep


def replay_case(case: dict) -> bool:
    col = Collector()
    with warnings.catch_warnings():
        warnings.simplefilter("ignore")
        c = {k: v for k, v in case.items() if k not in ("pa", "pb")}
        ok = CHECKERS[case["kind"]](c, col)
    for f in col.fails:
        print(f"[C20 replay] {f['obligation']} key={f['key']}\n   {f['what']}\n   {f['detail']}")
    if ok:
        print("[C20 replay] contract holds for", json.dumps(case))
    return not ok
