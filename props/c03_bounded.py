"""C03 (bounded): gradients of the sum-product are the true derivatives.

Contract, float64 only, for every grammar of the scope below (finite sum-product Z, weights in
[0.05, 0.6] plus exact zeros), semiring in {Real, Log}, method in {fixed-point, newton, linear where
the grammar is linearly recursive}, j_precompute in {False, True} (Real only: the Log backward pass
never reads it) and output cotangents c: three per configuration (seeded in [-1, 1], all ones, one-hot) plus, per
(semiring, j_precompute) with one method per grammar (thorough tier: the first three with every method), the STRUCTURED ones of
structured_cotangents(): contrast e_a - e_b, dense with entries summing to exactly 0, all -1, exact zeros at every
other entry, all 2^-30 (allowance scaled by 2^-30), the zero functional, and all ones back-propagated twice with
retain_graph (.grad == 2 x derivative); thorough adds a single -1, zeros at the other parity, a seeded tiny one and
the zero-sum one twice.  The statement says "any linear functional of the start tensor" and backward() is linear in
c, so no aggregate of c (sum, maximum, sign pattern, norm below some threshold, first entry) may decide anything:

    for w in factor weights: w.requires_grad_()
    z = fggs.sum_product(fgg, method=, semiring=, j_precompute=, tol=1e-12, kmax=20000)
    (c * z.to_dense()).sum().backward()              # Log: restricted to the entries with Z > 0

  no_exception   neither call raises
  real           weights.grad.to_dense()[i] == sum_a c[a] * dZ[a]/dw[i]           for every entry i
  log            weights.grad.to_dense()[i] == sum_a c[a] * w[i]/Z[a] * dZ[a]/dw[i]  for every entry
                 with a finite log-weight (entries with log-weight -inf are not constrained)
  unreachable    a factor that cannot influence the start has gradient None or all zeros (this is
                 the same clause: the oracle derivative is 0 there)
within |obs - exp| <= 1e-8 + 1e-5 |exp|; a NaN/inf where a finite number is expected is a violation.

Oracle (no fggs, no torch): forward-mode automatic differentiation with dual numbers
(value, {parameter: partial}) pushed through the reference evaluation of gen_fgg (sum over rules
and over all assignments of the internal nodes of the product of the edge factors).  For
non-recursive grammars this is the exact derivative of the polynomial.  For recursive grammars
the dual numbers are carried through the Kleene iteration from zero until values and partials are
stationary to 1e-14 (the partials of the iterates converge to the partials of the least fixed
point when the Jacobian's spectral radius is < 1; grammars where this does not happen within the
budget are outside the scope), and this oracle is itself cross-checked against central differences
(h = 1e-6) of gen_fgg.reference_sum_products run to 1e-13 (agreement within 1e-6 + 1e-4|exp|,
which is the noise level of central differences: 1e-13 / 2e-6 times the conditioning); a
disagreement is a harness error reported in `extra`, never a violation.

Tolerances: the solver runs with tol=1e-12 so the forward error (and the error of the Jacobian
evaluated at the iterate) is ~1e-12 x conditioning (< 1e4 in scope), float64 rounding is ~1e-15 per
operation; both are far below rtol 1e-5 / atol 1e-8.  A configuration in which the library warns
that the iteration budget was exhausted is outside the contract (counted, not compared).
"""
from __future__ import annotations
import itertools
import json
import math
import multiprocessing as mp
import os
import sys
import traceback
import warnings
from typing import Any, Dict, List, Optional, Tuple

from vf.core import Ctx, Report, Bounded, Failure
from vf.bounded import gen_fgg as G

PID = "C03"
MODULE = "props.c03_bounded"
INF = math.inf
RTOL, ATOL = 1e-5, 1e-8
SOLVER_TOL, SOLVER_KMAX = 1e-12, 20000
W_LO, W_HI, P_ZERO = 0.05, 0.6, 0.12
BOUND = ("[+ structured cotangents: contrast / exactly-zero-sum / all-negative / zeros at alternate entries / 2^-30 / zero / back-propagated twice; + a second enumeration pass restricted to start symbols with >= 2 entries] [+ hand-written: valueless rules in every rule order, recursion through duplicated externals / patterned diagonal factors] FGGs within the bound of G (<= 3 nonterminals, <= 2 rules each, <= 3 nodes / 3 edges per rhs, arity <= 2, "
         "domain sizes 1..3; non-recursive skeletons and recursive families) plus hand-written grammars with up to 4 "
         "nodes / 4 edges per rhs (shared factors, unreachable factors, edgeless nodes, duplicated externals, start arity "
         "1-2, node private to the first edges), weights re-drawn in [0.05, 0.6] with exact zeros, finite well-conditioned "
         "Z; float64 x {Real, Log} x {fixed-point, newton, linear} x j_precompute {off, on} (Real) x 3 cotangents, and "
         "{Real, Log} x j_precompute x one method per grammar x 7 (thorough 11, three of them with every method) structured cotangents")


# ------------------------------------------------------------------------------------------
# grammars
# ------------------------------------------------------------------------------------------

def reweight(recipe, rng, p_zero: float = P_ZERO) -> dict:
    """Same skeleton, every weight re-drawn: exactly 0 with probability p_zero, else uniform [0.05, 0.6]."""
    g = json.loads(json.dumps({k: v for k, v in recipe.items() if k not in ("meta", "presentation")}))
    def draw(_):
        if rng.random() < p_zero:
            return 0.0
        return round(rng.uniform(W_LO, W_HI), 4)
    g["weights"] = {t: G.map_nested(draw, w) for t, w in g["weights"].items()}
    g.pop("weights_log", None)
    g["meta"] = {"family": "reweighted:" + str((recipe.get("meta") or {}).get("family", "G"))}
    return g


def handwritten() -> List[dict]:
    """The shapes the statement names (and the ones the design singles out for J / J_precompute_products)."""
    T, N = True, False
    mk = G._mk
    out = []
    for d in (2, 3):
        v1 = [0.5, 0.2, 0.35][:d]
        v2 = [0.3, 0.6, 0.0][:d]
        v3 = [0.25, 0.0, 0.45][:d]
        m1 = [row[:d] for row in [[0.1, 0.2, 0.3], [0.3, 0.4, 0.0], [0.25, 0.05, 0.5]][:d]]
        m2 = [row[:d] for row in [[0.2, 0.0, 0.15], [0.35, 0.1, 0.2], [0.0, 0.3, 0.1]][:d]]
        # >= 3 edges, a node private to the first edge(s); chain a(0,1) b(1,2) c(2)
        out.append(mk({"N0": d}, {"S": ([], N), "a": (["N0", "N0"], T), "b": (["N0", "N0"], T), "c": (["N0"], T)}, "S",
                      [("S", ["N0", "N0", "N0"], [("a", [0, 1]), ("b", [1, 2]), ("c", [2])], [])],
                      {"a": m1, "b": m2, "c": v1}, {"family": "three-edges-private-first-node"}))
        # same with start arity 1 (external node is the one private to the first edge)
        out.append(mk({"N0": d}, {"S": (["N0"], N), "a": (["N0", "N0"], T), "b": (["N0", "N0"], T), "c": (["N0"], T)}, "S",
                      [("S", ["N0", "N0", "N0"], [("a", [0, 1]), ("b", [1, 2]), ("c", [2])], [0])],
                      {"a": m1, "b": m2, "c": v1}, {"family": "three-edges-private-first-node-arity1"}))
        # four edges, star + chain, one edgeless internal node next to them
        out.append(mk({"N0": d}, {"S": ([], N), "a": (["N0"], T), "b": (["N0", "N0"], T), "c": (["N0", "N0"], T), "e": (["N0"], T)}, "S",
                      [("S", ["N0", "N0", "N0", "N0"], [("a", [0]), ("b", [0, 1]), ("c", [1, 2]), ("e", [2])], [])],
                      {"a": v1, "b": m1, "c": m2, "e": v2}, {"family": "four-edges-edgeless-internal"}))
        # three edges on disjoint nodes (every prefix product is disconnected from the rest)
        out.append(mk({"N0": d}, {"S": ([], N), "a": (["N0"], T), "b": (["N0"], T), "c": (["N0"], T)}, "S",
                      [("S", ["N0", "N0", "N0"], [("a", [0]), ("b", [1]), ("c", [2])], [])],
                      {"a": v1, "b": v2, "c": v3}, {"family": "three-edges-disjoint"}))
        # a factor used twice in one rule and in two rules (through a nonterminal of arity 1)
        out.append(mk({"N0": d}, {"S": ([], N), "X": (["N0"], N), "a": (["N0"], T)}, "S",
                      [("S", ["N0", "N0"], [("a", [0]), ("a", [1]), ("X", [0])], []),
                       ("X", ["N0"], [("a", [0])], [0]), ("X", ["N0", "N0"], [("a", [1])], [0])],
                      {"a": v1}, {"family": "shared-factor"}))
        # the same binary factor three times in one rule
        out.append(mk({"N0": d}, {"S": ([], N), "a": (["N0", "N0"], T)}, "S",
                      [("S", ["N0", "N0", "N0"], [("a", [0, 1]), ("a", [1, 2]), ("a", [2, 0])], [])],
                      {"a": m1}, {"family": "factor-three-times-cycle"}))
        # factors that cannot influence the start: unreachable nonterminal, a rule multiplied by a
        # nonterminal without rules, and a factor that no rule uses
        out.append(mk({"N0": d}, {"S": ([], N), "X": (["N0"], N), "Y": ([], N), "a": (["N0"], T), "u": (["N0"], T),
                                  "v": (["N0"], T), "z": (["N0", "N0"], T)}, "S",
                      [("S", ["N0"], [("a", [0])], []), ("S", ["N0"], [("X", [0]), ("v", [0])], []),
                       ("Y", ["N0"], [("u", [0]), ("a", [0])], [])],
                      {"a": v1, "u": v2, "v": v3, "z": m1}, {"family": "unreachable-factors"}))
        # edgeless internal and edgeless external node next to the differentiated edge, start arity 2
        out.append(mk({"N0": d}, {"S": (["N0", "N0"], N), "a": (["N0"], T), "b": (["N0"], T)}, "S",
                      [("S", ["N0", "N0", "N0"], [("a", [0]), ("b", [0])], [0, 1])],
                      {"a": v1, "b": v2}, {"family": "edgeless-ext-and-internal-arity2"}))
        out.append(mk({"N0": d, "N1": 2}, {"S": (["N1"], N), "X": (["N0"], N), "a": (["N0"], T), "b": (["N0", "N1"], T)}, "S",
                      [("S", ["N1", "N0", "N0"], [("X", [1])], [0]), ("S", ["N1", "N0"], [("b", [1, 0]), ("X", [1])], [0]),
                       ("X", ["N0", "N1"], [("a", [0])], [0])],
                      {"a": v1, "b": [[0.3, 0.1], [0.0, 0.5], [0.2, 0.4]][:d]}, {"family": "edgeless-nodes-two-labels"}))
        # duplicated external nodes: every edge is attached to externals only; an edge attached twice to one external
        out.append(mk({"N0": d}, {"S": (["N0", "N0"], N), "a": (["N0", "N0"], T), "b": (["N0"], T), "c": (["N0", "N0"], T)}, "S",
                      [("S", ["N0", "N0"], [("a", [0, 1]), ("b", [1]), ("c", [1, 1])], [0, 1])],
                      {"a": m1, "b": v1, "c": m2}, {"family": "all-edges-on-externals"}))
        out.append(mk({"N0": d}, {"S": ([], N), "X": (["N0", "N0"], N), "a": (["N0", "N0"], T), "b": (["N0"], T)}, "S",
                      [("S", ["N0", "N0"], [("X", [0, 1]), ("b", [0])], []),
                       ("X", ["N0", "N0"], [("a", [1, 0]), ("b", [0]), ("a", [0, 0])], [0, 1])],
                      {"a": m1, "b": v1}, {"family": "externals-swapped-and-doubled"}))
        # recursive, the recursive edge sits on the external node (ext + edge.nodes = [n, n]), linear
        out.append(mk({"N0": d}, {"S": (["N0"], N), "X": (["N0"], N), "c": (["N0"], T), "b": (["N0"], T)}, "S",
                      [("S", ["N0"], [("X", [0])], [0]),
                       ("X", ["N0"], [("X", [0]), ("c", [0])], [0]), ("X", ["N0"], [("b", [0])], [0])],
                      {"c": v1, "b": v2}, {"family": "recursive-edge-on-external"}))
        # recursive chain  X(n) -> t(n,m) X(m) u(m) | b(n)   (three edges, linear)
        out.append(mk({"N0": d}, {"S": ([], N), "X": (["N0"], N), "t": (["N0", "N0"], T), "u": (["N0"], T), "b": (["N0"], T)}, "S",
                      [("S", ["N0"], [("X", [0])], []),
                       ("X", ["N0", "N0"], [("t", [0, 1]), ("X", [1]), ("u", [1])], [0]), ("X", ["N0"], [("b", [0])], [0])],
                      {"t": m1, "u": v1, "b": v2}, {"family": "recursive-chain-three-edges"}))
        # non-linear with arity 1:  X(n) -> X(m) t(n,m) X(n) | a(n)
        out.append(mk({"N0": d}, {"S": (["N0"], N), "X": (["N0"], N), "t": (["N0", "N0"], T), "a": (["N0"], T)}, "S",
                      [("S", ["N0"], [("X", [0])], [0]),
                       ("X", ["N0", "N0"], [("X", [1]), ("t", [0, 1]), ("X", [0])], [0]), ("X", ["N0"], [("a", [0])], [0])],
                      {"t": m1, "a": v1}, {"family": "nonlinear-arity1"}))
        # non-linear, three nonterminal edges and a nullary factor, edgeless internal node
        out.append(mk({"N0": d}, {"S": ([], N), "X": ([], N), "p": ([], T), "q": ([], T)}, "S",
                      [("S", [], [("X", [])], []),
                       ("X", ["N0"], [("X", []), ("p", []), ("X", []), ("X", [])], []), ("X", [], [("q", [])], [])],
                      {"p": 0.3, "q": 0.4}, {"family": "nonlinear-three-nt-edges-edgeless-internal"}))
        # mutual recursion with a shared factor
        out.append(mk({"N0": d}, {"S": ([], N), "X": (["N0"], N), "Y": (["N0"], N), "t": (["N0", "N0"], T), "b": (["N0"], T)}, "S",
                      [("S", ["N0"], [("X", [0]), ("b", [0])], []),
                       ("X", ["N0", "N0"], [("t", [0, 1]), ("Y", [1])], [0]),
                       ("Y", ["N0", "N0"], [("t", [1, 0]), ("X", [1])], [0]), ("Y", ["N0"], [("b", [0])], [0])],
                      {"t": m2, "b": v1}, {"family": "mutual-shared-factor"}))
    # nullary start with nullary factors only: S -> p q p
    out.append(mk({"N0": 2}, {"S": ([], N), "p": ([], T), "q": ([], T)}, "S",
                  [("S", [], [("p", []), ("q", []), ("p", [])], [])], {"p": 0.3, "q": 0.5}, {"family": "nullary-only"}))
    # X -> X X | a  and  S -> S S b | a
    out.append(mk({"N0": 2}, {"S": ([], N), "X": ([], N), "a": ([], T)}, "S",
                  [("S", [], [("X", [])], []), ("X", [], [("X", []), ("X", [])], []), ("X", [], [("a", [])], [])],
                  {"a": 0.2}, {"family": "nonlinear-a0.2"}))
    out.append(mk({"N0": 2}, {"S": ([], N), "a": ([], T), "b": ([], T)}, "S",
                  [("S", [], [("S", []), ("S", []), ("b", [])], []), ("S", [], [("a", [])], [])],
                  {"a": 0.2, "b": 0.6}, {"family": "nonlinear-start"}))
    # matrix-valued recursion with sparse (triangular) support and an internal node attached to no edge:
    # X(i,j) -> a(i,j) | X(i,k) t(k,j) [+ isolated node]   and   X(i,j) -> a(i,j) | X(i,k) X(k,j) [+ isolated node]
    tri_a = [[0.1, 0.0, 0.0], [0.0, 0.1, 0.0], [0.0, 0.0, 0.1]]
    tri_t = [[0.1, 0.2, 0.0], [0.0, 0.1, 0.2], [0.0, 0.0, 0.1]]
    tri_a2 = [[0.0, 0.1, 0.0], [0.0, 0.0, 0.1], [0.0, 0.0, 0.0]]
    out.append(mk({"N0": 3}, {"X": (["N0", "N0"], N), "a": (["N0", "N0"], T), "t": (["N0", "N0"], T)}, "X",
                  [("X", ["N0", "N0"], [("a", [0, 1])], [0, 1]),
                   ("X", ["N0", "N0", "N0", "N0"], [("X", [0, 1]), ("t", [1, 2])], [0, 2])],
                  {"a": tri_a, "t": tri_t}, {"family": "triangular-matrix-recursion-edgeless-internal-linear"}))
    out.append(mk({"N0": 3}, {"X": (["N0", "N0"], N), "a": (["N0", "N0"], T)}, "X",
                  [("X", ["N0", "N0"], [("a", [0, 1])], [0, 1]),
                   ("X", ["N0", "N0", "N0", "N0"], [("X", [0, 1]), ("X", [1, 2])], [0, 2])],
                  {"a": tri_a2}, {"family": "triangular-matrix-recursion-edgeless-internal-nonlinear"}))
    # a zero-valued nonterminal whose entry appears only after the other values have stopped changing
    out.append(mk({"N0": 2}, {"S": ([], N), "X": ([], N), "a": ([], T), "b": ([], T)}, "S",
                  [("S", [], [("X", []), ("a", [])], []), ("X", [], [("b", [])], []), ("X", [], [("S", []), ("X", [])], [])],
                  {"a": 0.5, "b": 0.0}, {"family": "late-zero-entry"}))
    out.append(mk({"N0": 2, "N1": 1}, {"S": ([], N), "X": (["N1"], N), "a": (["N1"], T), "b": (["N1"], T), "d": (["N1", "N1"], T)}, "S",
                  [("S", ["N1"], [("X", [0]), ("a", [0])], []),
                   ("X", ["N1"], [("b", [0]), ("d", [0, 0])], [0]), ("X", ["N1"], [("S", []), ("X", [0])], [0])],
                  {"a": [0.35], "b": [0.4], "d": [[0.0]]}, {"family": "late-zero-entry"}))
    return out


def _rule_orders(g: dict, lhs: str) -> List[dict]:
    """the grammar once per order of the rules of `lhs` (the other rules keep their places)."""
    pos = [i for i, r in enumerate(g["rules"]) if r["lhs"] == lhs]
    out = []
    for k, perm in enumerate(itertools.permutations(pos)):
        h = json.loads(json.dumps(g))
        for p, q in zip(pos, perm):
            h["rules"][p] = json.loads(json.dumps(g["rules"][q]))
        h["meta"] = {"family": g["meta"]["family"] + f"-order{k}"}
        out.append(h)
    return out


def handwritten_extra() -> List[dict]:
    """Shapes that only C03 uses (C11 keeps to handwritten()):
    (1) a rule that evaluates to NOTHING -- it uses an unproductive nonterminal of the same SCC, so its value is zero and
        sum_product_edges returns None in the first iterations -- listed before / between / after productive rules of the
        same left-hand side, in every rule order (J_log zips rules with their softmax weights);
    (2a) recursion through a rule with a DUPLICATED external node, X(v, v) with ext = [v, v]: the nonterminal's
        sum-product is a diagonal (non-dense) PatternedTensor, so the cotangent handed to multi_solve in backward()
        has NaN as its default;
    (2b) the same through an equality factor given as a PATTERNED weight (recipe key "patterned": {terminal: "diag"
        | "eye"}: the FiniteFactor's weights are PatternedTensor(vector, [k], [k, k]) resp. PatternedTensor.eye);
    (3) a recursive START symbol with one / two attachment nodes."""
    T, N = True, False
    mk = G._mk
    out: List[dict] = []
    # (1) X -> U c | X a | b ; U -> X U          (U is unproductive: least fixed point 0)
    g = mk({"N0": 2}, {"S": ([], N), "X": ([], N), "U": ([], N), "a": ([], T), "b": ([], T), "c": ([], T)}, "S",
           [("S", [], [("X", [])], []),
            ("X", [], [("U", []), ("c", [])], []), ("X", [], [("X", []), ("a", [])], []), ("X", [], [("b", [])], []),
            ("U", [], [("X", []), ("U", [])], [])],
           {"a": 0.3, "b": 0.4, "c": 0.5}, {"family": "unproductive-rule-nullary"})
    out += _rule_orders(g, "X")
    g = mk({"N0": 2}, {"S": ([], N), "X": (["N0"], N), "U": (["N0"], N), "a": (["N0", "N0"], T), "b": (["N0"], T), "c": (["N0"], T)}, "S",
           [("S", ["N0"], [("X", [0]), ("c", [0])], []),
            ("X", ["N0"], [("U", [0]), ("c", [0])], [0]), ("X", ["N0", "N0"], [("X", [1]), ("a", [0, 1])], [0]),
            ("X", ["N0"], [("b", [0])], [0]),
            ("U", ["N0", "N0"], [("X", [0]), ("U", [1])], [0])],
           {"a": [[0.3, 0.1], [0.2, 0.25]], "b": [0.4, 0.15], "c": [0.5, 0.35]}, {"family": "unproductive-rule-arity1"})
    out += _rule_orders(g, "X")
    #     S -> X c | a | a d ; X -> b X S          (X has no base case)
    g = mk({"N0": 2}, {"S": ([], N), "X": ([], N), "a": ([], T), "b": ([], T), "c": ([], T), "d": ([], T)}, "S",
           [("S", [], [("X", []), ("c", [])], []), ("S", [], [("a", [])], []), ("S", [], [("a", []), ("d", [])], []),
            ("X", [], [("b", []), ("X", []), ("S", [])], [])],
           {"a": 0.3, "b": 0.4, "c": 0.5, "d": 0.6}, {"family": "unproductive-first-rule-of-start-nullary"})
    out += _rule_orders(g, "S")
    g = mk({"N0": 2}, {"S": (["N0"], N), "X": (["N0"], N), "a": (["N0"], T), "b": (["N0", "N0"], T), "c": (["N0"], T), "d": (["N0"], T)}, "S",
           [("S", ["N0"], [("X", [0]), ("c", [0])], [0]), ("S", ["N0"], [("a", [0])], [0]), ("S", ["N0"], [("a", [0]), ("d", [0])], [0]),
            ("X", ["N0", "N0"], [("b", [0, 1]), ("X", [1]), ("S", [0])], [0])],
           {"a": [0.3, 0.2], "b": [[0.4, 0.1], [0.3, 0.2]], "c": [0.5, 0.45], "d": [0.6, 0.1]},
           {"family": "unproductive-first-rule-of-start-arity1"})
    out += _rule_orders(g, "S")
    for d in (2, 3):
        v1 = [0.3, 0.5, 0.2][:d]
        v2 = [0.2, 0.4, 0.35][:d]
        m1 = [row[:d] for row in [[0.5, 0.1, 0.3], [0.2, 0.6, 0.15], [0.25, 0.05, 0.4]][:d]]
        eye = [[1.0 if i == j else 0.0 for j in range(d)] for i in range(d)]
        dg = [[[0.45, 0.3, 0.55][i] if i == j else 0.0 for j in range(d)] for i in range(d)]
        # the START symbol itself is recursive and has attachment nodes (Z is a vector / a matrix, every output
        # cotangent reaches the cyclic component unchanged):  S(n) -> t(n,m) S(m) | b(n)   and
        # S(n,k) -> t(n,m) S(m,k) c(k) | t(n,k)
        out.append(mk({"N0": d}, {"S": (["N0"], N), "t": (["N0", "N0"], T), "b": (["N0"], T)}, "S",
                      [("S", ["N0", "N0"], [("t", [0, 1]), ("S", [1])], [0]), ("S", ["N0"], [("b", [0])], [0])],
                      {"t": m1, "b": v1}, {"family": "recursive-start-arity1"}))
        out.append(mk({"N0": d}, {"S": (["N0", "N0"], N), "t": (["N0", "N0"], T), "c": (["N0"], T)}, "S",
                      [("S", ["N0", "N0", "N0"], [("t", [0, 1]), ("S", [1, 2]), ("c", [2])], [0, 2]),
                       ("S", ["N0", "N0"], [("t", [0, 1])], [0, 1])],
                      {"t": m1, "c": v2}, {"family": "recursive-start-arity2"}))
        out.append(mk({"N0": d}, {"S": ([], N), "X": (["N0", "N0"], N), "b": (["N0"], T), "c": (["N0"], T), "t": (["N0", "N0"], T)}, "S",
                      [("S", ["N0", "N0"], [("X", [0, 1]), ("t", [0, 1])], []),
                       ("X", ["N0"], [("b", [0])], [0, 0]), ("X", ["N0"], [("X", [0, 0]), ("c", [0])], [0, 0])],
                      {"b": v1, "c": v2, "t": m1}, {"family": "duplicated-external-recursive-linear"}))
        # non-linear, start arity 2:  X(v,v) -> X(v,v) c(v) X(v,v) | b(v) ;  S(u,w) -> X(u,w)
        out.append(mk({"N0": d}, {"S": (["N0", "N0"], N), "X": (["N0", "N0"], N), "b": (["N0"], T), "c": (["N0"], T)}, "S",
                      [("S", ["N0", "N0"], [("X", [0, 1])], [0, 1]),
                       ("X", ["N0"], [("X", [0, 0]), ("c", [0]), ("X", [0, 0])], [0, 0]), ("X", ["N0"], [("b", [0])], [0, 0])],
                      {"b": v1, "c": v2}, {"family": "duplicated-external-recursive-nonlinear"}))
        # (2b) X(u,v) -> e(u,v) | e(u,w) X(w,v) c(w)   with e an equality / diagonal factor stored as a pattern
        for kind, ew in (("diag", dg), ("eye", eye)):
            r = mk({"N0": d}, {"S": ([], N), "X": (["N0", "N0"], N), "e": (["N0", "N0"], T), "c": (["N0"], T), "t": (["N0", "N0"], T)}, "S",
                   [("S", ["N0", "N0"], [("X", [0, 1]), ("t", [0, 1])], []),
                    ("X", ["N0", "N0"], [("e", [0, 1])], [0, 1]),
                    ("X", ["N0", "N0", "N0"], [("e", [0, 2]), ("X", [2, 1]), ("c", [2])], [0, 1])],
                   {"e": ew, "c": v2, "t": m1}, {"family": f"patterned-{kind}-factor-recursive-linear"})
            r["patterned"] = {"e": kind}
            out.append(r)
            r = mk({"N0": d}, {"S": (["N0", "N0"], N), "X": (["N0", "N0"], N), "e": (["N0", "N0"], T), "c": (["N0"], T), "b": (["N0"], T)}, "S",
                   [("S", ["N0", "N0"], [("X", [0, 1])], [0, 1]),
                    ("X", ["N0", "N0"], [("e", [0, 1]), ("b", [0])], [0, 1]),
                    ("X", ["N0", "N0", "N0"], [("X", [0, 2]), ("c", [2]), ("X", [2, 1])], [0, 1])],
                   {"e": ew, "c": v2, "b": v1}, {"family": f"patterned-{kind}-factor-recursive-nonlinear"})
            r["patterned"] = {"e": kind}
            out.append(r)
    return out


def oracle_view(recipe) -> dict:
    """The recipe the reference semantics is evaluated on: a duplicated external node (ext = [v, v]) is written as two
    nodes joined by an explicit equality factor "__eq_<label>" (identity weights), which the reference of gen_fgg
    understands; everything else is unchanged.  The library is always run on the original recipe."""
    if not any(len(set(r["ext"])) < len(r["ext"]) for r in recipe["rules"]):
        return recipe
    g = json.loads(json.dumps({k: v for k, v in recipe.items() if k != "meta"}))
    g["meta"] = dict(recipe.get("meta") or {})
    for r in g["rules"]:
        seen = set()
        for pos, j in enumerate(list(r["ext"])):
            if j in seen:
                lab = r["nodes"][j]
                new = len(r["nodes"])
                r["nodes"].append(lab)
                r["ext"][pos] = new
                name = f"__eq_{lab}"
                n = g["node_labels"][lab]
                g["edge_labels"][name] = {"type": [lab, lab], "terminal": True}
                g["weights"][name] = [[1.0 if a == b else 0.0 for b in range(n)] for a in range(n)]
                r["edges"].append({"label": name, "att": [j, new]})
            else:
                seen.add(j)
    return g


def build_lib(recipe, sname: str):
    """the FGG the library is run on: gen_fgg's builder on the ORIGINAL recipe (duplicated externals included), then the
    terminals named in recipe["patterned"] get a non-dense PatternedTensor as weights."""
    import torch
    import fggs
    from fggs.indices import PatternedTensor, PhysicalAxis
    fgg = G.build_fgg(recipe, sname, "float64")
    for t, kind in (recipe.get("patterned") or {}).items():
        ws = G.convert_weights(recipe, sname)[t]
        n = len(ws)
        sr = G.make_semiring(sname, "float64")
        zero = sr.from_int(0).item()
        if kind == "eye":
            pt = PatternedTensor.eye(n, sr)
            if pt.physical.dim() and pt.physical.stride()[0] == 0:      # give every diagonal entry its own storage
                pt = PatternedTensor(pt.physical.clone(), pt.paxes, pt.vaxes, pt.default)
        else:
            k = PhysicalAxis(n)
            pt = PatternedTensor(torch.tensor([ws[i][i] for i in range(n)], dtype=torch.float64), (k,), (k, k), zero)
        fgg.factors[t].weights = pt
    return fgg


def grammars(tier: str, rng) -> List[dict]:
    n_nonrec, n_rec = (150, 90) if tier == "quick" else (2600, 900)
    out = list(handwritten()) + handwritten_extra()
    seen = {G.canonical(g) for g in out}
    def add(g):
        c = G.canonical(g)
        if c not in seen:
            seen.add(c)
            out.append(g)
            return True
        return False
    k = 0
    for g in G.enum_nonrecursive(tier, rng):
        if not g["weights"]:
            continue
        if add(reweight(g, rng)):
            k += 1
        if k >= n_nonrec:
            break
    k = 0
    for g in G.enum_recursive(tier, rng):
        if not g["weights"] or g.get("weights_log"):
            continue
        if add(reweight(g, rng, p_zero=0.08)):
            k += 1
        if k >= n_rec:
            break
    # a second, independent pass over the same enumerations that keeps only grammars whose START symbol has at least
    # two entries (attachment nodes): only there is "which linear functional" more than a scale factor, so only there
    # do the structured cotangents (contrasts, zero-sum, exact zeros in some places) exist at all.  Own random stream:
    # the grammars above are exactly what they were before this pass was added.
    import random
    rng_v = random.Random(f"c03-vector-start:{tier}")
    n_vnon, n_vrec = (30, 20) if tier == "quick" else (500, 250)
    for enum, quota, pz in ((G.enum_nonrecursive, n_vnon, P_ZERO), (G.enum_recursive, n_vrec, 0.08)):
        k = 0
        for g in enum(tier, rng_v):
            if not g["weights"] or g.get("weights_log") or len(G.start_assignments(g)) < 2:
                continue
            h = reweight(g, rng_v, p_zero=pz)
            h["meta"]["family"] += ":vector-start"
            if add(h):
                k += 1
            if k >= quota:
                break
    return out


# ------------------------------------------------------------------------------------------
# oracle: forward-mode dual numbers through the reference evaluation
# ------------------------------------------------------------------------------------------

class _D:
    __slots__ = ("v", "g")
    def __init__(self, v, g=None):
        self.v = v
        self.g = g if g is not None else {}


class _DualReal:
    """The real semiring on dual numbers (plain product rule: no 0 x inf shortcut, weights are finite)."""
    name = "DualReal"
    zero = _D(0.0)
    one = _D(1.0)
    @staticmethod
    def add(a, b):
        if not a.g and a.v == 0.0:
            return b
        if not b.g and b.v == 0.0:
            return a
        g = dict(a.g)
        for k, x in b.g.items():
            g[k] = g.get(k, 0.0) + x
        return _D(a.v + b.v, g)
    @staticmethod
    def mul(a, b):
        g = {}
        if b.v != 0.0:
            for k, x in a.g.items():
                g[k] = x * b.v
        if a.v != 0.0:
            for k, x in b.g.items():
                g[k] = g.get(k, 0.0) + x * a.v
        return _D(a.v * b.v, g)


class Oracle:
    """params: list of (terminal, index tuple); Z[a] value and J[a][k] = dZ[a]/dparam_k for the start symbol."""
    def __init__(self):
        self.params: List[Tuple[str, Tuple[int, ...]]] = []
        self.w: List[float] = []
        self.Z: Dict[Tuple[int, ...], float] = {}
        self.J: Dict[Tuple[int, ...], Dict[int, float]] = {}
        self.status = "finite"
        self.iterations = 0


def oracle(recipe, max_iter: int = 6000) -> Oracle:
    sr = _DualReal
    rules = G._compile(recipe)
    tws = G.convert_weights(recipe, "Real")
    o = Oracle()
    tw: Dict[str, Dict[Tuple[int, ...], _D]] = {}
    for t in G.terminals(recipe):
        tw[t] = {}
        for idx in itertools.product(*[range(s) for s in G.shape_of(recipe, t)]):
            k = len(o.params)
            o.params.append((t, idx))
            w = float(G.nested_get(tws[t], idx))
            o.w.append(w)
            tw[t][idx] = _D(w, {k: 1.0})
    val: Dict[str, Dict[Tuple[int, ...], _D]] = {}
    for comp in G.sccs(recipe):
        shapes = {x: G.shape_of(recipe, x) for x in comp}
        if not G.scc_is_cyclic(recipe, comp):
            [x] = comp
            val[x] = G._eval_nt(sr, rules[x], shapes[x], tw, val)
            continue
        for x in comp:
            val[x] = {a: sr.zero for a in itertools.product(*[range(s) for s in shapes[x]])}
        ok = False
        for it in range(max_iter):
            new = {x: G._eval_nt(sr, rules[x], shapes[x], tw, val) for x in comp}
            o.iterations += 1
            stationary = True
            blown = False
            for x in comp:
                for a, nv in new[x].items():
                    ov = val[x][a]
                    if abs(nv.v - ov.v) > 1e-14 * max(1.0, abs(nv.v)):
                        stationary = False
                    if not (abs(nv.v) < 1e6):
                        blown = True
                    for k, gx in nv.g.items():
                        if abs(gx - ov.g.get(k, 0.0)) > 1e-14 * max(1.0, abs(gx)):
                            stationary = False
                        if not (abs(gx) < 1e7):
                            blown = True
            for x in comp:
                val[x] = new[x]
            if blown:
                break
            if stationary:
                ok = True
                break
        if not ok:
            o.status = "ill-conditioned"
            return o
    s = recipe["start"]
    for a, dv in val[s].items():
        o.Z[a] = dv.v
        o.J[a] = dict(dv.g)
        if not (abs(dv.v) < 1e6) or any(not (abs(x) < 1e6) for x in dv.g.values()):
            o.status = "ill-conditioned"
    return o


def fd_crosscheck(recipe, o: Oracle, h: float = 1e-6) -> Tuple[int, float, Optional[str]]:
    """central differences of reference_sum_products (tol 1e-13) against the dual-number Jacobian, for every
    positive weight entry.  -> (entries compared, worst error in units of the allowance, description of worst)"""
    s = recipe["start"]
    n, worst, desc = 0, 0.0, None
    for k, (t, idx) in enumerate(o.params):
        if o.w[k] <= 2 * h:
            continue
        vals = []
        for sign in (+1, -1):
            g = json.loads(json.dumps({kk: v for kk, v in recipe.items() if kk != "meta"}))
            ws = g["weights"][t]
            if not idx:
                g["weights"][t] = o.w[k] + sign * h
            else:
                cell = ws
                for i in idx[:-1]:
                    cell = cell[i]
                cell[idx[-1]] = o.w[k] + sign * h
            r = G.reference_sum_products(g, "Real", max_iter=200000, tol=1e-13)
            if r.status != "finite":
                return n, INF, f"reference diverges at {t}{list(idx)}{'+' if sign > 0 else '-'}h"
            vals.append(r[s])
        for a in o.Z:
            fd = (G.nested_get(vals[0], a) - G.nested_get(vals[1], a)) / (2 * h)
            ex = o.J[a].get(k, 0.0)
            n += 1
            err = abs(fd - ex) / (1e-6 + 1e-4 * abs(ex))
            if err > worst:
                worst, desc = err, f"d Z{list(a)}/d {t}{list(idx)}: central difference {fd!r} dual {ex!r}"
    return n, worst, desc


def expected_grad(recipe, o: Oracle, sname: str, cot: Dict[Tuple[int, ...], float]) -> Dict[str, Any]:
    """terminal -> nested list of expected gradient entries (None = unconstrained: Log, log-weight -inf)."""
    flat = [0.0] * len(o.params)
    for a, c in cot.items():
        if c == 0.0:
            continue
        if sname == "Log" and not (o.Z[a] > 0):
            raise AssertionError("cotangent on an entry with Z = 0")
        for k, d in o.J[a].items():
            if sname == "Real":
                flat[k] += c * d
            else:
                flat[k] += c * o.w[k] * d / o.Z[a]
    out: Dict[str, Any] = {}
    lookup = {p: k for k, p in enumerate(o.params)}
    for t in G.terminals(recipe):
        def f(idx, t=t):
            k = lookup[(t, idx)]
            if (recipe.get("patterned") or {}).get(t) and len(set(idx)) > 1:
                return None         # not physically backed: PatternedTensor.grad reports NaN ("not computed") there
            if sname == "Log" and o.w[k] == 0.0:
                return None
            return flat[k]
        out[t] = G.nested_from(G.shape_of(recipe, t), f)
    return out


# ------------------------------------------------------------------------------------------
# the library side
# ------------------------------------------------------------------------------------------

def _exc_site(e: BaseException) -> str:
    tb = traceback.extract_tb(e.__traceback__)
    for fr in reversed(tb):
        if "/fggs/" in fr.filename:
            return f"{os.path.basename(fr.filename)}:{fr.name}"
    return "?"


def cotangents(recipe, o: Oracle, sname: str, rng) -> List[Tuple[str, Dict[Tuple[int, ...], float]]]:
    """seeded / ones / one-hot, supported on the entries where the loss is defined (Log: Z > 0)."""
    idxs = [a for a in sorted(o.Z) if sname == "Real" or o.Z[a] > 0]
    if not idxs:
        return []
    seeded = {a: round(rng.uniform(-1.0, 1.0), 3) or 0.5 for a in idxs}
    ones = {a: 1.0 for a in idxs}
    hot = {idxs[rng.randrange(len(idxs))]: 1.0}
    out = [("seeded", seeded), ("ones", ones)]
    if len(idxs) > 1:
        out.append(("one-hot", hot))
    return out


TINY = 2.0 ** -30          # below the default atol (1e-8) of torch.allclose / isclose
STRUCTURED_QUICK = ("contrast", "zero-sum-dense", "neg-ones", "even-zero", "tiny-ones", "all-zero", "ones-twice")
STRUCTURED_THOROUGH = STRUCTURED_QUICK + ("neg-one-hot", "odd-zero", "tiny-seeded", "zero-sum-twice")
STRUCTURED_EVERY_METHOD = ("contrast", "zero-sum-dense", "neg-ones")     # thorough tier; the others: one method per grammar


def structured_cotangents(o: Oracle, sname: str, rng, names) -> List[Tuple[str, Dict[Tuple[int, ...], float], float, int]]:
    """Linear functionals of the start tensor with a SHAPE that the seeded / ones / one-hot cotangents never have.
    The statement quantifies over every linear functional, and backward() is linear in the cotangent, so nothing about
    the cotangent other than its values may matter: not its sum, its sign pattern, its magnitude, where its exact zeros
    sit, nor how often it is propagated.  -> [(name, cotangent, scale, backward calls)]; all entries are dyadic rationals,
    so "sums to zero" is exact in float64 in any summation order.

      contrast        +1 at one entry, -1 at another, exactly 0 elsewhere (Real: Z[a]-Z[b]; Log: the log-odds)
      zero-sum-dense  every entry non-zero (multiples of 1/8 in [-1, 1]), the entries sum to exactly 0
      neg-ones        all entries -1 (no positive entry, negative sum)
      neg-one-hot     a single -1 (maximum 0, negative sum)
      even-zero       seeded non-zero dyadic values, the 1st, 3rd, ... entry exactly 0 (odd-zero: the 2nd, 4th, ...)
      tiny-ones       all entries 2^-30 < 1e-8: the allowance is scaled with the cotangent (ATOL * 2^-30), i.e. the
      tiny-seeded     comparison is as strict, relative to the size of the functional, as for the unit cotangents
      all-zero        the zero functional: every gradient is 0 (or absent), never NaN
      ones-twice      the all-ones functional back-propagated twice through the same graph (retain_graph): .grad holds
      zero-sum-twice  the sum of the two passes (backward() must not consume or alter what forward() retained)"""
    idxs = [a for a in sorted(o.Z) if sname == "Real" or o.Z[a] > 0]
    n = len(idxs)
    if not n:
        return []
    dy = lambda: rng.choice([-1, 1]) * rng.randrange(1, 9) / 8.0
    fam: Dict[str, Tuple[Dict[Tuple[int, ...], float], float, int]] = {}
    fam["neg-ones"] = ({a: -1.0 for a in idxs}, 1.0, 1)
    fam["tiny-ones"] = ({a: TINY for a in idxs}, TINY, 1)
    fam["tiny-seeded"] = ({a: dy() * TINY for a in idxs}, TINY, 1)
    fam["all-zero"] = ({a: 0.0 for a in idxs}, 1.0, 1)
    fam["ones-twice"] = ({a: 1.0 for a in idxs}, 1.0, 2)
    fam["neg-one-hot"] = ({a: (-1.0 if a == idxs[rng.randrange(n)] else 0.0) for a in idxs}, 1.0, 1) if n > 1 else None
    if n > 1:
        i, j = rng.sample(range(n), 2)
        fam["contrast"] = ({a: (1.0 if k == i else -1.0 if k == j else 0.0) for k, a in enumerate(idxs)}, 1.0, 1)
        for _ in range(50):
            vals = [dy() for _ in range(n - 1)]
            vals.append(-sum(vals))
            if vals[-1] != 0.0 and abs(vals[-1]) <= 1.0:
                break
        else:                   # +1 -1 +1 -1 ... ; an odd count starts with 1/2 1/2 -1
            vals = [0.5, 0.5, -1.0][:3 * (n % 2)] + [(1.0 if k % 2 == 0 else -1.0) for k in range(n - 3 * (n % 2))]
        zs = dict(zip(idxs, vals))
        assert len(vals) == n
        assert sum(zs.values()) == 0.0 and all(v != 0.0 for v in zs.values())
        fam["zero-sum-dense"] = (zs, 1.0, 1)
        fam["zero-sum-twice"] = (dict(zs), 1.0, 2)
        fam["even-zero"] = ({a: (0.0 if k % 2 == 0 else dy()) for k, a in enumerate(idxs)}, 1.0, 1)
        fam["odd-zero"] = ({a: (0.0 if k % 2 == 1 else dy()) for k, a in enumerate(idxs)}, 1.0, 1)
    return [(nm,) + fam[nm] for nm in names if fam.get(nm) is not None]


def library_grad(recipe, sname: str, method: str, jp: bool, cot: Dict[Tuple[int, ...], float],
                 calls: int = 1):
    """-> (status, grads | exception, warnings).  status in ok / exception-forward / exception-backward.
    grads: terminal -> nested list or None (no gradient recorded)."""
    import torch
    import fggs
    with warnings.catch_warnings(record=True) as wl:
        warnings.simplefilter("always")
        fgg = build_lib(recipe, sname)
        for f in fgg.factors.values():
            f.weights.requires_grad_()
        try:
            kw = {"j_precompute": jp} if jp is not None else {}
            z = fggs.sum_product(fgg, method=method, semiring=G.make_semiring(sname, "float64"),
                                 tol=SOLVER_TOL, kmax=SOLVER_KMAX, **kw)
            dense = z.to_dense()
        except Exception as e:  # noqa
            return "exception-forward", e, [str(w.message) for w in wl]
        try:
            shape = tuple(dense.shape)
            c = torch.zeros(shape, dtype=torch.float64)
            mask = torch.zeros(shape, dtype=torch.bool)
            for a, x in cot.items():
                c[a] = x
                mask[a] = True
            # only the entries the cotangent mentions enter the loss (Log: -inf entries stay out of it)
            loss = (c[mask] * dense[mask]).sum()
            if loss.requires_grad:
                for _ in range(calls - 1):
                    loss.backward(retain_graph=True)
                loss.backward()
        except Exception as e:  # noqa
            return "exception-backward", e, [str(w.message) for w in wl]
        grads = {}
        for name, f in fgg.factors.items():
            gr = f.weights.grad
            grads[name] = None if gr is None else gr.to_dense().tolist()
        return "ok", (grads, dense.tolist()), [str(w.message) for w in wl]


def _shape_tags(recipe) -> str:
    """coarse description of the grammar for the `what` line."""
    tags = []
    if any(len(r["edges"]) >= 3 for r in recipe["rules"]):
        tags.append("ge3edges")
    if any(any(i in r["ext"] for i in e["att"]) for r in recipe["rules"] for e in r["edges"]):
        tags.append("edge-on-ext")
    att = lambda r: set(i for e in r["edges"] for i in e["att"])
    if any(any(i not in att(r) for i in range(len(r["nodes"]))) for r in recipe["rules"]):
        tags.append("edgeless-node")
    if G.is_recursive(recipe):
        tags.append("recursive")
    return "+".join(tags) or "plain"


def _real_tables(recipe):
    recipe = oracle_view(recipe)
    ref = G.reference_sum_products(recipe, "Real", max_iter=3000)
    tws = G.convert_weights(recipe, "Real")
    tw = {t: G._table(tws[t], G.shape_of(recipe, t)) for t in tws}
    val = {x: G._table(ref[x], G.shape_of(recipe, x)) for x in ref}
    return tw, val


def zero_valued_recursive_nonterminal(recipe) -> bool:
    """some nonterminal of a cyclic SCC has the value exactly 0 at every assignment (e.g. its only base case has
    weight 0): fixed-point iteration never stores an entry for it (0 == absent passes the stopping test), so the
    value returned is a constant zero tensor that is not connected to the weights."""
    recipe = oracle_view(recipe)
    ref = G.reference_sum_products(recipe, "Real", max_iter=3000)
    for comp in G.sccs(recipe):
        if not G.scc_is_cyclic(recipe, comp):
            continue
        for x in comp:
            if all(v == 0 for v in G.flatten(ref[x])):
                return True
    return False


def zero_valued_rule_entry(recipe) -> bool:
    """some rule with edges has value exactly 0 at one external assignment but not at all of them, or next to
    another rule of the same nonterminal (J_log normalises the rule's terms there)."""
    tw, val = _real_tables(recipe)
    rules = G._compile(recipe)
    for x, rs in rules.items():
        vals = []
        for rule in rs:
            if not rule[3]:
                continue
            vs = [G._rule_value(G._Real, rule, a, tw, val) for a in itertools.product(*[range(s) for s in G.shape_of(recipe, x)])]
            vals.append(vs)
        for vs in vals:
            if any(v == 0 for v in vs) and (any(v != 0 for v in vs) or len(rs) > 1):
                return True
    return False


def jprecompute_classes(recipe) -> List[str]:
    """the rule shapes (>= 2 edges) J_precompute_products is known to mishandle (measured on the recipe)."""
    out = []
    for r in recipe["rules"]:
        if len(r["edges"]) < 2:
            continue
        att = set(i for e in r["edges"] for i in e["att"])
        if any(i not in att and i not in r["ext"] for i in range(len(r["nodes"]))):
            out.append("edgeless-internal-node-in-rule-with-ge2-edges")
        for k in (0, len(r["edges"]) - 1):
            others = set(i for j, e in enumerate(r["edges"]) if j != k for i in e["att"])
            if any(i not in others for i in r["edges"][k]["att"]):
                out.append("end-edge-has-node-on-no-other-edge")
        for e in r["edges"]:
            both = list(r["ext"]) + list(e["att"])
            if len(set(both)) < len(both):
                out.append("repeated-node-in-ext+edge.nodes")
    return sorted(set(out))


def valueless_rule_next_to_productive(recipe) -> bool:
    """some nonterminal has a rule that uses a nonterminal whose value is zero everywhere (so the rule has no value:
    sum_product_edges returns None for it) next to other rules."""
    view = oracle_view(recipe)
    ref = G.reference_sum_products(view, "Real", max_iter=3000)
    dead = {x for x in ref if all(v == 0 for v in G.flatten(ref[x]))}
    for x in G.nonterminals(view):
        rs = [r for r in view["rules"] if r["lhs"] == x]
        if len(rs) > 1 and any(any(e["label"] in dead for e in r["edges"]) for r in rs):
            return True
    return False


def nondense_recursive_nonterminal(recipe) -> bool:
    """a rule of a cyclic SCC has a duplicated external node or a patterned (diagonal) factor: the nonterminal's
    sum-product is a non-dense PatternedTensor and its cotangent in backward() has NaN as default."""
    cyc = {x for comp in G.sccs(recipe) if G.scc_is_cyclic(recipe, comp) for x in comp}
    pat = set(recipe.get("patterned") or {})
    return any(r["lhs"] in cyc and (len(set(r["ext"])) < len(r["ext"]) or any(e["label"] in pat for e in r["edges"]))
               for r in recipe["rules"])


def input_class(recipe, sname: str, jp: bool, kind: str) -> str:
    if kind == "missing-gradient" and zero_valued_recursive_nonterminal(recipe):
        return "zero-valued-recursive-nonterminal"
    if jp:
        cl = jprecompute_classes(recipe)
        # one class per failure: exceptions come from the shape bookkeeping of the first/last edge, wrong
        # numbers from the multiplier of edgeless internal nodes
        prio = (("end-edge-has-node-on-no-other-edge", "repeated-node-in-ext+edge.nodes",
                 "edgeless-internal-node-in-rule-with-ge2-edges") if kind.startswith("exception") else
                ("edgeless-internal-node-in-rule-with-ge2-edges", "repeated-node-in-ext+edge.nodes",
                 "end-edge-has-node-on-no-other-edge"))
        for c in prio:
            if c in cl:
                return c
    if nondense_recursive_nonterminal(recipe):
        return "non-dense-recursive-nonterminal"
    if sname == "Log" and valueless_rule_next_to_productive(recipe):
        return "valueless-rule-next-to-productive-rules"
    if sname == "Log" and zero_valued_rule_entry(recipe):
        return "zero-valued-rule-entry"
    return "other:" + _shape_tags(recipe)


def make_key(recipe, sname: str, method: str, jp: bool, phase: str, kind: str) -> str:
    """semiring[-jprecompute]:[method:]kind:input-class -- the method is part of the key only when the forward
    pass matters (exceptions in the forward pass, a gradient that is missing altogether)."""
    pre = sname.lower() + ("-jprecompute" if jp else "")
    simple = "exception" if kind.startswith("exception") else ("inf-or-nan" if kind in ("inf", "nan") else kind)
    mid = f"{method}:" if (phase == "forward" or kind == "missing-gradient") else ""
    return f"{pre}:{mid}{phase}-{simple}:{input_class(recipe, sname, jp, kind)}"


def check_config(recipe, o: Oracle, sname: str, method: str, jp: bool, cname: str,
                 cot: Dict[Tuple[int, ...], float], scale: float = 1.0, calls: int = 1) -> Tuple[List[dict], str]:
    """scale: size of the cotangent (<= 1): the absolute allowance is ATOL * scale, so a cotangent of size 2^-30 is held
    to the same relative standard as a unit one; calls: how often the loss is back-propagated (.grad accumulates)."""
    assert 0.0 < scale <= 1.0 and calls >= 1
    case = {"recipe": recipe, "semiring": sname, "method": method, "j_precompute": jp, "cotangent_name": cname,
            "cotangent": [[list(a), c] for a, c in sorted(cot.items())]}
    if scale != 1.0 or calls != 1:
        case.update({"cotangent_scale": scale, "backward_calls": calls})
    status, payload, wl = library_grad(recipe, sname, method, jp, cot, calls)
    if status != "ok":
        e = payload
        if status == "exception-forward" and method == "linear" and isinstance(e, ValueError) and not G.is_linearly_recursive(recipe):
            return [], "linear-not-applicable"
        clause = "sum_product.no_exception" if status == "exception-forward" else "backward.no_exception"
        return [{"clause": clause, "kind": f"{status}-{type(e).__name__}",
                 "key": make_key(recipe, sname, method, jp, status.split("-")[1], status),
                 "detail": f"observed {type(e).__name__}: {str(e)[:300]} at {_exc_site(e)}; expected gradients "
                           f"{json.dumps(expected_grad(recipe, o, sname, cot))[:400]}",
                 "case": case}], status
    if any("maximum iteration" in w for w in wl):
        return [], "warned-unconverged"
    grads, zdense = payload
    # forward sanity (C01/C02 own the value clause; a wrong Z makes the gradient comparison meaningless)
    for a, zv in o.Z.items():
        ob = G.nested_get(zdense, a)
        ex = zv if sname == "Real" else (math.log(zv) if zv > 0 else -INF)
        if not (ob == ex or abs(ob - ex) <= 1e-9 + 1e-7 * abs(ex)):
            return [], "forward-differs"
    exp = expected_grad(recipe, o, sname, cot)
    if calls != 1:
        exp = {t: G.map_nested(lambda x: None if x is None else calls * x, e) for t, e in exp.items()}
    out = []
    for t in G.terminals(recipe):
        shp = G.shape_of(recipe, t)
        worst = None
        for idx in itertools.product(*[range(s) for s in shp]):
            ex = G.nested_get(exp[t], idx)
            if ex is None:
                continue
            if grads[t] is None:
                ob = 0.0
            else:
                ob = G.nested_get(grads[t], idx)
            if ob != ob:
                kind = "nan"
            elif ob in (INF, -INF):
                kind = "inf"
            elif abs(ob - ex) <= ATOL * scale + RTOL * abs(ex):
                continue
            else:
                kind = "wrong-derivative" if grads[t] is not None else "missing-gradient"
            worst = (idx, ob, ex, kind)
            break
        if worst:
            idx, ob, ex, kind = worst
            clause = "backward.grad_is_dZ_dw" if sname == "Real" else "backward.grad_is_dlogZ_dlogw"
            out.append({"clause": clause, "kind": kind, "key": make_key(recipe, sname, method, jp, "backward", kind),
                        "detail": f"factor {t} entry {list(idx)} cotangent {cname}: observed {G.jnum(ob)} expected {ex!r} "
                                  f"(observed grad {json.dumps(G.map_nested(G.jnum, grads[t])) if grads[t] is not None else None} "
                                  f"expected {json.dumps(exp[t])}; Z observed {json.dumps(G.map_nested(G.jnum, zdense))})",
                        "case": dict(case, factor=t)})
            break
    return out, "compared"


def configs(recipe):
    linear_ok = G.is_linearly_recursive(recipe)
    for sname in ("Real", "Log"):
        for method in G.METHODS:
            if method == "linear" and not linear_ok:
                continue
            for jp in ((False, True) if sname == "Real" else (False,)):
                yield sname, method, jp


def check_grammar(recipe, seed_key: str, crosscheck: bool = True, thorough: bool = False):
    """-> (fails, n_cases, stats, in_scope, nontrivial, harness_errors)"""
    import random
    stats: Dict[str, int] = {}
    def bump(k):
        stats[k] = stats.get(k, 0) + 1
    view = oracle_view(recipe)
    ref = G.reference_sum_products(view, "Real", max_iter=3000)
    if ref.status != "finite" or ref.has_inf():
        bump("out-of-scope:reference-not-finite")
        return [], 0, stats, False, False, []
    o = oracle(view)
    if o.status != "finite":
        bump("out-of-scope:" + o.status)
        return [], 0, stats, False, False, []
    herr = []
    if crosscheck and G.is_recursive(recipe):
        n, worst, desc = fd_crosscheck(view, o)
        bump("oracle-crosschecked-grammars")
        stats["oracle-crosschecked-entries"] = stats.get("oracle-crosschecked-entries", 0) + n
        if worst > 1.0:
            herr.append({"recipe": recipe, "worst": worst, "desc": desc})
    nontrivial = any(abs(x) > 0 for a in o.J for x in o.J[a].values())
    rng = random.Random(seed_key)
    fails: List[dict] = []
    n = 0
    for sname in ("Real", "Log"):
        cots = cotangents(recipe, o, sname, rng)
        if not cots:
            bump(f"{sname}:no-entry-with-defined-loss")
            continue
        for s2, method, jp in configs(recipe):
            if s2 != sname:
                continue
            for cname, cot in cots:
                n += 1
                fl, st = check_config(recipe, o, sname, method, jp, cname, cot)
                bump(st)
                fails.extend(fl)
    # structured cotangents (own random stream: the cases above are what they were before these existed).  backward()
    # is the same code for every method, so each (semiring, j_precompute) gets them with ONE method, picked per grammar;
    # the thorough tier runs the families of STRUCTURED_EVERY_METHOD with every method.
    rng2 = random.Random(seed_key + ":structured-cotangents")
    for sname in ("Real", "Log"):
        scots = structured_cotangents(o, sname, rng2, STRUCTURED_THOROUGH if thorough else STRUCTURED_QUICK)
        if not scots:
            continue
        by_jp: Dict[Any, List[str]] = {}
        for s2, method, jp in configs(recipe):
            if s2 == sname:
                by_jp.setdefault(jp, []).append(method)
        for jp, methods in by_jp.items():
            pick = methods[rng2.randrange(len(methods))]
            for method in methods:
                for cname, cot, scale, calls in scots:
                    if method != pick and not (thorough and cname in STRUCTURED_EVERY_METHOD):
                        continue
                    n += 1
                    fl, st = check_config(recipe, o, sname, method, jp, cname, cot, scale, calls)
                    bump(st)
                    bump("cotangent-family:" + cname)
                    fails.extend(fl)
    return fails, n, stats, True, nontrivial, herr


def _worker(chunk):
    import torch
    torch.set_num_threads(1)
    thorough = False
    if isinstance(chunk, tuple):
        chunk, thorough = chunk
    res = []
    for recipe in chunk:
        res.append(check_grammar(recipe, "c03:" + G.canonical(recipe), thorough=thorough))
    return res


def _what(f: dict) -> str:
    c = f["case"]
    fam = (c["recipe"].get("meta") or {}).get("family", "")
    return (f"{c['semiring']}/float64/{c['method']}/j_precompute={c['j_precompute']} cotangent {c['cotangent_name']}: "
            f"{f['kind']} [{f['key']}] on grammar {fam} ({_shape_tags(c['recipe'])})")


def _preimport():
    if os.environ.get("OMP_NUM_THREADS") == "1":
        import torch
        import fggs  # noqa
        torch.set_num_threads(1)


def run_bounded(ctx: Ctx) -> Report:
    rep = Report(property_id=PID, level="exploration")
    rep.functions_under_contract = ["fggs.sum_product.SumProduct.backward", "fggs.sum_product.J", "fggs.sum_product.J_log",
                                    "fggs.sum_product.J_precompute_products", "fggs.sum_product.sum_product"]
    recipes = grammars(ctx.tier, ctx.rng("c03-grammars"))
    jobs = max(1, min(ctx.jobs, len(recipes)))
    size = max(1, min(12, len(recipes) // (jobs * 6) or 1))
    chunks = [(recipes[i:i + size], ctx.thorough) for i in range(0, len(recipes), size)]
    results = []
    if jobs > 1:
        _preimport()
        with mp.get_context("fork").Pool(jobs) as pool:
            for res in pool.imap(_worker, chunks):
                results.extend(res)
    else:
        for ch in chunks:
            results.extend(_worker(ch))
    fails: List[dict] = []
    stats: Dict[str, int] = {}
    evals = in_scope = nontrivial = 0
    harness: List[dict] = []
    fams: Dict[str, int] = {}
    for recipe, (fl, n, st, sc, nt, herr) in zip(recipes, results):
        fails.extend(fl)
        evals += n
        in_scope += sc
        nontrivial += (sc and nt)
        harness.extend(herr)
        for k, v in st.items():
            stats[k] = stats.get(k, 0) + v
        if sc:
            fam = (recipe.get("meta") or {}).get("family", "?").split(":")[0]
            fam = "handwritten" if not fam.startswith("reweighted") else ("reweighted-recursive" if G.is_recursive(recipe) else "reweighted-nonrecursive")
            fams[fam] = fams.get(fam, 0) + 1
    per_key: Dict[str, int] = {}
    for f in fails:
        per_key[f["key"]] = per_key.get(f["key"], 0) + 1
        if per_key[f["key"]] <= 3:
            rep.failures.append(Failure(
                obligation=f["clause"], what=_what(f), key=f["key"], detail=f["detail"],
                replay={"module": MODULE, "func": "replay_case", "case": f["case"]}))
    rep.bounded.append(Bounded(
        function="fggs.sum_product + autograd backward (SumProduct.backward, J, J_log, J_precompute_products)",
        bound=BOUND, cases=evals, distinct_nontrivial=nontrivial,
        rule=("grammars: hand-written shapes named by the statement + the skeletons of G.enum_nonrecursive / enum_recursive "
              "with weights re-drawn in [0.05,0.6] and exact zeros, restricted to those whose dual-number reference "
              "converges (finite, well-conditioned); a case is one (grammar, semiring, method, j_precompute, cotangent) "
              "forward+backward compared entry-wise with the dual-number derivative; distinct = distinct canonical recipe in "
              "scope; non-trivial = some dZ/dw is non-zero; the structured cotangents (extra.outcomes cotangent-family:*) "
              "are drawn from their own random stream and run with one method per (grammar, semiring, j_precompute) in the "
              "quick tier"),
        samples=recipes[:3], exhaustive=False,
        extra={"grammars": len(recipes), "grammars_in_scope": in_scope, "families": fams,
               "outcomes": dict(sorted(stats.items())),
               "oracle_disagreements_with_central_differences": len(harness),
               "oracle_disagreement_samples": [{"desc": h["desc"], "worst": h["worst"]} for h in harness[:3]],
               "tolerance": {"rtol": RTOL, "atol": ATOL, "solver_tol": SOLVER_TOL, "kmax": SOLVER_KMAX},
               "violations_per_key": dict(sorted(per_key.items())), "violations_total": len(fails)}))
    rep.extra["c03_bounded_violations_per_key"] = dict(sorted(per_key.items()))
    return rep


def replay_case(case: dict) -> bool:
    recipe = case["recipe"]
    o = oracle(oracle_view(recipe))
    if o.status != "finite":
        print("C03 replay: grammar outside the scope (oracle", o.status, ")")
        return False
    cot = {tuple(a): c for a, c in case["cotangent"]}
    fl, st = check_config(recipe, o, case["semiring"], case["method"], case["j_precompute"], case.get("cotangent_name", "?"), cot,
                          case.get("cotangent_scale", 1.0), case.get("backward_calls", 1))
    print(f"C03 replay {case['semiring']}/{case['method']}/j_precompute={case['j_precompute']}/cotangent {case.get('cotangent_name', '?')}: "
          f"{'VIOLATION reproduces' if fl else 'no violation'} ({st})")
    for f in fl[:3]:
        print("  ", f["clause"], f["key"])
        print("  ", f["detail"])
    if not fl:
        print("   expected", json.dumps(expected_grad(recipe, o, case["semiring"], cot)))
    return bool(fl)


if __name__ == "__main__":
    tier = sys.argv[1] if len(sys.argv) > 1 else "quick"
    import time
    t0 = time.time()
    r = run_bounded(Ctx(PID, tier, 0))
    print(json.dumps(r.bounded[0].extra, indent=1))
    print(len(r.failures), "failure records;", r.bounded[0].cases, "cases;", r.bounded[0].distinct_nontrivial,
          "non-trivial;", round(time.time() - t0, 1), "s")
    for f in r.failures:
        print(f.obligation, "|", f.key, "|", f.what, "|", f.detail[:300])
