"""C05 bounded contract checker -- factorization preserves the grammar's meaning and never widens a rule.

Runs the real fggs.factorize.{factorize_rule, factorize_hrg, factorize_fgg} on enumerated
small rule shapes and evaluates the contract of the property text with own oracles (own
abstract-hypergraph extraction, own inliner, own isomorphism test; the numeric clause is
relational: real sum_products before == after).  BOUNDED, never counted as proved.

Case recipe (JSON):
  {"lhs": "X", "nodes": ["A","B","A"],                  node labels of nodes 0..n-1
   "edges": [["tAB","t",[0,1]], ["X","n",[2]]],         (label name, t|n, attachment)
   "ext": [2],                                           ordered external nodes
   "context": "plain"|"advctx"|"twice",                  grammar around the rule (hrg/fgg entries)
   "dom": {"A": 2, "B": 3}, "wseed": 17,                 domain sizes / weight seed (fgg entry)
   "entry": "rule"|"hrg"|"fgg", "method": "min_fill"|"quickbb"|"acb"}
Grammar built around the rule (hrg/fgg): start S0 -> [X on fresh nodes]; X -> the rule;
X -> base (only if the rule is recursive); Q -> base for every other nonterminal Q of the rule;
context "advctx" adds a nullary nonterminal "<lhs>_1" (used in S0) with rule -> terminal "<lhs>_2";
context "twice" adds the rule a second time (two splitting rules with the same lhs).
"""
from __future__ import annotations
import hashlib, itertools, json, math, random, time, warnings
from collections import Counter
from typing import Any, Dict, List, Optional, Tuple

from vf.core import Ctx, Report, Bounded, Failure

MODULE = "props.c05_bounded"
METHODS = ("min_fill", "quickbb", "acb")
ENTRIES = ("rule", "hrg", "fgg")
MAX_FAIL_PER_KEY = 3


def canon(case) -> str:
    return json.dumps(case, sort_keys=True, separators=(",", ":"))


# ============================================================================= building real objects

def _labels_of(case):
    """name -> (is_terminal, type tuple of node-label names) for every edge label of the rule + lhs."""
    tab: Dict[str, Tuple[bool, Tuple[str, ...]]] = {}
    tab[case["lhs"]] = (False, tuple(case["nodes"][v] for v in case["ext"]))
    for name, kind, att in case["edges"]:
        ty = tuple(case["nodes"][v] for v in att)
        ent = (kind == "t", ty)
        if name in tab and tab[name] != ent:
            raise ValueError(f"inconsistent recipe: label {name} used as {tab[name]} and {ent}")
        tab[name] = ent
    return tab


def build_rule(case):
    import fggs
    tab = _labels_of(case)
    NL = {}
    def nl(x):
        if x not in NL: NL[x] = fggs.NodeLabel(x)
        return NL[x]
    EL = {name: fggs.EdgeLabel(name, tuple(nl(x) for x in ty), is_terminal=t, is_nonterminal=not t)
          for name, (t, ty) in tab.items()}
    g = fggs.Graph()
    nodes = [fggs.Node(nl(lab), id=f"v{i}") for i, lab in enumerate(case["nodes"])]
    for nd in nodes:
        g.add_node(nd)
    for k, (name, kind, att) in enumerate(case["edges"]):
        g.add_edge(fggs.Edge(EL[name], [nodes[v] for v in att], id=f"e{k}"))
    g.ext = [nodes[v] for v in case["ext"]]
    return fggs.HRGRule(EL[case["lhs"]], g), EL, NL


def is_recursive(case):
    return any(name == case["lhs"] for name, kind, att in case["edges"])


def build_grammar(case, fgg: bool):
    """-> (grammar, dict name->EdgeLabel of every label in it)"""
    import fggs, torch
    rule, EL, NL = build_rule(case)
    def nl(x):
        if x not in NL: NL[x] = fggs.NodeLabel(x)
        return NL[x]
    lhs = rule.lhs
    S0 = fggs.EdgeLabel("S0", (), is_nonterminal=True)
    G = fggs.FGG(S0) if fgg else fggs.HRG(S0)
    allEL = dict(EL)
    allEL["S0"] = S0
    terminals_needed: Dict[str, Any] = {n: l for n, l in EL.items() if l.is_terminal}

    def base_rule(label, tag):
        gr = fggs.Graph()
        ns = [fggs.Node(l, id=f"{tag}b{i}") for i, l in enumerate(label.node_labels)]
        for nd in ns:
            gr.add_node(nd)
        uname = "u" + "".join(l.name for l in label.node_labels)
        ul = fggs.EdgeLabel(uname, label.node_labels, is_terminal=True)
        gr.add_edge(fggs.Edge(ul, ns, id=f"{tag}ue"))
        gr.ext = ns
        allEL[uname] = ul
        terminals_needed[uname] = ul
        return fggs.HRGRule(label, gr)

    # start rule
    gs = fggs.Graph()
    sn = [fggs.Node(l, id=f"s{i}") for i, l in enumerate(lhs.node_labels)]
    for nd in sn:
        gs.add_node(nd)
    gs.add_edge(fggs.Edge(lhs, sn, id="sx"))
    adv = None
    if case.get("context") == "advctx":
        adv = fggs.EdgeLabel(case["lhs"] + "_1", (), is_nonterminal=True)
        advt = fggs.EdgeLabel(case["lhs"] + "_2", (), is_terminal=True)
        gs.add_edge(fggs.Edge(adv, [], id="sadv"))
        allEL[adv.name] = adv
        allEL[advt.name] = advt
        terminals_needed[advt.name] = advt
    G.add_rule(fggs.HRGRule(S0, gs))
    G.add_rule(rule)
    if case.get("context") == "twice":
        G.add_rule(build_rule(case)[0])      # a second, separately built copy of the same rule (same lhs)
    if is_recursive(case):
        G.add_rule(base_rule(lhs, "x"))
    k = 0
    for name, l in EL.items():
        if l.is_nonterminal and name != case["lhs"]:
            G.add_rule(base_rule(l, f"q{k}"))
            k += 1
    if adv is not None:
        ga = fggs.Graph()
        ga.add_edge(fggs.Edge(advt, [], id="advt"))
        G.add_rule(fggs.HRGRule(adv, ga))
    if fgg:
        for x in sorted(set(case["nodes"]) | {l.name for el in allEL.values() for l in el.node_labels}):
            G.add_domain(nl(x), fggs.FiniteDomain(list(range(case["dom"].get(x, 2)))))
        scale = 0.1 if is_recursive(case) else 1.0
        for name in sorted(terminals_needed):
            l = terminals_needed[name]
            r = random.Random(f"{case['wseed']}:{name}")
            shape = [case["dom"].get(x.name, 2) for x in l.node_labels]
            n = 1
            for s in shape: n *= s
            w = torch.tensor([scale * r.uniform(0.1, 1.0) for _ in range(n)], dtype=torch.float64).reshape(shape)
            G.add_factor(l, fggs.FiniteFactor([G.domains[x.name] for x in l.node_labels], w))
    return G, allEL


# ============================================================================= own abstract view, inliner, isomorphism

def lkey(el):
    return (el.name, bool(el.is_terminal), tuple(x.name for x in el.node_labels))


def absgraph(g):
    nodes = {nd.id: nd.label.name for nd in g.nodes()}
    edges = [(lkey(e.label), tuple(nd.id for nd in e.nodes)) for e in g.edges()]
    ext = tuple(nd.id for nd in g.ext)
    return nodes, edges, ext


def snapshot_graph(g):
    return ([(nd.id, nd.label.name) for nd in g.nodes()],
            [(e.id, lkey(e.label), tuple(nd.id for nd in e.nodes)) for e in g.edges()],
            tuple(nd.id for nd in g.ext))


def snapshot_rule(r):
    return (lkey(r.lhs), snapshot_graph(r.rhs))


def snapshot_grammar(G):
    s = {"start": lkey(G.start),
         "rules": [snapshot_rule(r) for r in G.all_rules()],
         "edge_labels": [(n, lkey(l)) for n, l in G._edge_labels.items()],
         "node_labels": list(G._node_labels)}
    if hasattr(G, "factors"):
        s["factors"] = [(n, [repr(d) for d in f.domains], f.weights.to_dense().clone().tolist()) for n, f in G.factors.items()]
        s["domains"] = [(n, repr(d)) for n, d in G.domains.items()]
    return s


class InlineError(Exception):
    pass


def inline(ag, fresh_rules: Dict[Any, Any], used: set, depth=0):
    """Replace every edge labelled by a fresh nonterminal by the rhs of its unique rule (own inliner)."""
    nodes, edges, ext = ag
    nodes = dict(nodes)
    out_edges = []
    counter = [0]
    work = [(lab, att, 0) for lab, att in edges]
    while work:
        lab, att, d = work.pop()
        if lab not in fresh_rules:
            out_edges.append((lab, att))
            continue
        if d > 64:
            raise InlineError("fresh nonterminals are recursive")
        used.add(lab)
        rn, re_, rx = fresh_rules[lab]
        if len(rx) != len(att):
            raise InlineError(f"edge {lab[0]} has {len(att)} attachment nodes but its rule has {len(rx)} externals")
        m: Dict[Any, Any] = {}
        for a, x in zip(att, rx):
            if x in m and m[x] != a:
                raise InlineError(f"rule of {lab[0]} repeats an external node that is attached to two different nodes")
            m[x] = a
            if rn[x] != nodes[a]:
                raise InlineError(f"node label mismatch when inlining {lab[0]}")
        for v, l in rn.items():
            if v not in m:
                counter[0] += 1
                nv = ("in", lab[0], counter[0], v)
                m[v] = nv
                nodes[nv] = l
        for l2, att2 in re_:
            work.append((l2, tuple(m[v] for v in att2), d + 1))
    return nodes, out_edges, ext


def isomorphic(g1, g2) -> Tuple[bool, str]:
    n1, e1, x1 = g1
    n2, e2, x2 = g2
    if len(n1) != len(n2):
        return False, f"{len(n2)} nodes instead of {len(n1)}"
    if Counter(n1.values()) != Counter(n2.values()):
        return False, "node label multisets differ"
    if Counter(l for l, _ in e1) != Counter(l for l, _ in e2):
        return False, (f"edge label multisets differ: expected {sorted(Counter(l[0] for l, _ in e1).items())} "
                       f"observed {sorted(Counter(l[0] for l, _ in e2).items())}")
    if len(x1) != len(x2):
        return False, "different number of externals"

    def sig(nodes, edges, ext):
        s = {v: [] for v in nodes}
        for l, att in edges:
            for i, v in enumerate(att):
                s[v].append((l, i, len(att)))
        for i, v in enumerate(ext):
            s[v].append(("ext", i))
        return {v: (nodes[v], tuple(sorted(map(repr, s[v])))) for v in nodes}

    s1, s2 = sig(n1, e1, x1), sig(n2, e2, x2)
    if Counter(s1.values()) != Counter(s2.values()):
        return False, "node incidence signatures differ (an edge or external is attached differently)"
    m: Dict[Any, Any] = {}
    for a, b in zip(x1, x2):
        if (a in m and m[a] != b) or s1[a] != s2[b]:
            return False, "externals do not correspond"
        m[a] = b
    if len(set(m.values())) != len(m):
        return False, "externals do not correspond (merged)"
    rest1 = [v for v in n1 if v not in m]
    target = Counter(e2)

    def rec(i, used):
        if i == len(rest1):
            return Counter((l, tuple(m[v] for v in att)) for l, att in e1) == target
        v = rest1[i]
        for w in n2:
            if w in used or s2[w] != s1[v]:
                continue
            m[v] = w
            used.add(w)
            if rec(i + 1, used):
                return True
            used.discard(w)
            del m[v]
        return False

    if rec(0, set(m.values())):
        return True, ""
    return False, "no label- and attachment-preserving node bijection exists"


def primal_class(case):
    """structural class of the rule's primal graph (nodes; edges+ext made cliques), own code."""
    n = len(case["nodes"])
    adj = [set() for _ in range(n)]
    for grp in [att for _, _, att in case["edges"]] + [case["ext"]]:
        for a in grp:
            for b in grp:
                if a != b:
                    adj[a].add(b)
    if n >= 2 and any(len(a) == 0 for a in adj):
        return "primal-singleton-component+others"
    return "other"


# ============================================================================= contract evaluation

class Spy:
    """Transparent wrapper around fggs.factorize.tree_decomposition recording `method`."""
    def __enter__(self):
        from fggs import factorize as F
        self.F = F
        self.orig = F.tree_decomposition
        self.calls: List[str] = []
        def wrapper(graph, method="min_fill"):
            self.calls.append(method)
            return self.orig(graph, method=method)
        F.tree_decomposition = wrapper
        return self
    def __exit__(self, *a):
        self.F.tree_decomposition = self.orig


def _exc_clause(e):
    # the library's own name-clash detector (LabelingMixin.add_edge_label) firing inside factorization means that a
    # fresh nonterminal was given the name of an existing label: that is the fresh-names clause, not a separate one
    if isinstance(e, ValueError) and "There is already an edge label called" in str(e):
        return "fresh_names"
    return "returns"


def compare_rules(orig_rules, new_rules, orig_label_keys, orig_names, out):
    """orig_rules/new_rules: [(lhs key, absgraph)].  Appends (clause, detail); returns #fresh nonterminals."""
    fresh_lhs: Dict[Any, List[Any]] = {}
    by_lhs_new: Dict[Any, List[Any]] = {}
    for lhs, ag in new_rules:
        if lhs in orig_label_keys:
            by_lhs_new.setdefault(lhs, []).append(ag)
        else:
            fresh_lhs.setdefault(lhs, []).append(ag)
    # labels on new right-hand sides
    fresh_used = set()
    for lhs, ag in new_rules:
        for l, att in ag[1]:
            if l not in orig_label_keys:
                fresh_used.add(l)
    fresh = set(fresh_lhs) | fresh_used
    # (c) fresh names
    names = Counter(k[0] for k in fresh)
    dup = [n for n, c in names.items() if c > 1]
    if dup:
        out.append(("fresh_names", f"fresh labels share the name(s) {dup}"))
    coll = sorted(n for n in names if n in orig_names)
    if coll:
        out.append(("fresh_names", f"fresh nonterminal name(s) {coll} collide with existing edge label(s) of the input"))
    for k in fresh:
        if k[1]:
            out.append(("fresh_names", f"fresh label {k[0]} is a terminal"))
    # unique rules
    fresh_rules = {}
    for k in fresh:
        rs = fresh_lhs.get(k, [])
        if len(rs) != 1:
            out.append(("fresh_unique_rule", f"fresh nonterminal {k[0]} has {len(rs)} rules; expected exactly 1"))
        if rs:
            fresh_rules[k] = rs[0]
    # group originals by lhs
    by_lhs_orig: Dict[Any, List[Any]] = {}
    for lhs, ag in orig_rules:
        by_lhs_orig.setdefault(lhs, []).append(ag)
    for lhs in by_lhs_new:
        if lhs not in by_lhs_orig:
            out.append(("rules_preserved", f"new rule(s) for {lhs[0]}, which had no rule"))
    for lhs, origs in by_lhs_orig.items():
        news = list(by_lhs_new.get(lhs, []))
        if len(news) != len(origs):
            out.append(("rules_preserved", f"{lhs[0]} has {len(news)} rules after factorization; expected {len(origs)}"))
        expanded = []
        for ag in news:
            used: set = set()
            try:
                expanded.append((inline(ag, fresh_rules, used), used, ag))
            except InlineError as e:
                out.append(("inline_isomorphic", f"cannot inline rule of {lhs[0]}: {e}"))
        if len(origs) == 1 and len(expanded) == 1:
            # (b) independent of the isomorphism verdict: every rule this original was turned into
            og, (eg, used, ag) = origs[0], expanded[0]
            big = [len(x[0]) for x in [ag] + [fresh_rules[k] for k in used if k in fresh_rules] if len(x[0]) > len(og[0])]
            if big:
                out.append(("not_wider", f"a new rule has {max(big)} nodes; the rule it came from has {len(og[0])}"))
        for og in origs:
            why = "no rule left to match"
            for i, (eg, used, ag) in enumerate(expanded):
                ok, why = isomorphic(og, eg)
                if ok:
                    # (b) width: no rule of this group has more nodes than the original
                    group = [ag] + [fresh_rules[k] for k in used]
                    big = [len(x[0]) for x in group if len(x[0]) > len(og[0])]
                    if big and not (len(origs) == 1 and len(news) == 1):
                        out.append(("not_wider", f"a new rule has {max(big)} nodes; the rule it came from has {len(og[0])}"))
                    del expanded[i]
                    break
            else:
                out.append(("inline_isomorphic", f"after inlining the fresh nonterminals no rule of {lhs[0]} is isomorphic to the "
                                                 f"original rhs ({len(og[0])} nodes, {len(og[1])} edges, {len(og[2])} ext): {why}"))
    return len(fresh)


def check_case(case, cache: Optional[dict] = None) -> Tuple[List[Tuple[str, str]], Dict[str, Any]]:
    """-> ([(clause, detail)], info)"""
    import fggs, torch
    from fggs import factorize as F
    entry, method = case["entry"], case["method"]
    out: List[Tuple[str, str]] = []
    info: Dict[str, Any] = {"split": False}
    with warnings.catch_warnings():
        warnings.simplefilter("ignore")
        if entry == "rule":
            rule, EL, NL = build_rule(case)
            before = snapshot_rule(rule)
            try:
                with Spy() as spy:
                    new = F.factorize_rule(rule, method=method)
            except Exception as e:
                return [(_exc_clause(e), f"factorize_rule raised {type(e).__name__}: {e}")], info
            if snapshot_rule(rule) != before:
                out.append(("frame", "factorize_rule mutated its rule argument"))
            if spy.calls != [method]:
                out.append(("method_honoured", f"tree_decomposition called with {spy.calls}; expected ['{method}']"))
            orig_keys = {lkey(l) for l in EL.values()}
            orig_names = {l.name for l in EL.values()}
            try:
                new_abs = [(lkey(r.lhs), absgraph(r.rhs)) for r in new]
            except Exception as e:
                return out + [("shape", f"result is not a list of rules: {type(e).__name__}: {e}")], info
            nf = compare_rules([(lkey(rule.lhs), absgraph(rule.rhs))], new_abs, orig_keys, orig_names, out)
            info["split"] = len(new) > 1
            if len(new) > 1 and method == "min_fill":
                # the documented `labels` argument: a caller-supplied set (also an EMPTY one) is the set that is consulted
                # and extended, so that two calls sharing it never produce the same fresh name
                for start in ("empty", "prefilled"):
                    r1, EL1, _ = build_rule(case)
                    r2, EL2, _ = build_rule(case)
                    shared = set() if start == "empty" else {fggs.EdgeLabel(case["lhs"] + "_1", (), is_nonterminal=True)}
                    taken = {l.name for l in shared}
                    try:
                        n1 = F.factorize_rule(r1, method=method, labels=shared)
                        after1 = set(shared)
                        n2 = F.factorize_rule(r2, method=method, labels=shared)
                    except Exception as e:
                        out.append((_exc_clause(e), f"factorize_rule(labels=<{start} set>) raised {type(e).__name__}: {e}"))
                        break
                    f1 = {r.lhs for r in n1 if r.lhs != r1.lhs}
                    f2 = {r.lhs for r in n2 if r.lhs != r2.lhs}
                    if not (f1 | {r1.lhs} | set(r1.rhs.edge_labels())) <= after1:
                        out.append(("fresh_names", f"labels=<{start} set>: the caller's set was not extended by the call "
                                                   f"(has {sorted(l.name for l in after1)}, fresh {sorted(l.name for l in f1)})"))
                    clash = ({l.name for l in f1} & {l.name for l in f2}) | (({l.name for l in f1 | f2}) & taken)
                    if clash:
                        out.append(("fresh_names", f"labels=<{start} set> shared by two calls: fresh name(s) {sorted(clash)} produced twice / already taken"))
            return out, info

        G, allEL = build_grammar(case, fgg=(entry == "fgg"))
        before = snapshot_grammar(G)
        fn = F.factorize_fgg if entry == "fgg" else F.factorize_hrg
        try:
            with Spy() as spy:
                Gn = fn(G, method=method)
        except Exception as e:
            return [(_exc_clause(e), f"factorize_{entry} raised {type(e).__name__}: {e}")], info
        if snapshot_grammar(G) != before:
            out.append(("frame", f"factorize_{entry} mutated its argument"))
        wrong = sorted(set(m for m in spy.calls if m != method))
        if wrong or not spy.calls:
            out.append(("method_honoured", f"factorize_{entry}(method='{method}') reached tree_decomposition with "
                                           f"method(s) {sorted(set(spy.calls))}"))
        want = fggs.FGG if entry == "fgg" else fggs.HRG
        if not isinstance(Gn, want):
            return out + [("shape", f"result is {type(Gn).__name__}; expected {want.__name__}")], info
        # (a) start / terminals / factors / domains
        if lkey(Gn.start) != lkey(G.start):
            out.append(("start_same", f"start {Gn.start.name}; expected {G.start.name}"))
        t_old = {lkey(l) for l in G.terminals()}
        t_new = {lkey(l) for l in Gn.terminals()}
        if t_old != t_new:
            out.append(("terminals_same", f"terminals {sorted(k[0] for k in t_new)}; expected {sorted(k[0] for k in t_old)}"))
        if entry == "fgg":
            if not (Gn.factors is G.factors or Gn.factors == G.factors):
                out.append(("factors_same", "factors differ"))
            if not (Gn.domains is G.domains or Gn.domains == G.domains):
                out.append(("domains_same", "domains differ"))
        orig_keys = {lkey(l) for l in G.edge_labels()} | {lkey(l) for l in allEL.values()}
        orig_names = {k[0] for k in orig_keys}
        orig_abs = [(lkey(r.lhs), absgraph(r.rhs)) for r in G.all_rules()]
        new_abs = [(lkey(r.lhs), absgraph(r.rhs)) for r in Gn.all_rules()]
        nf = compare_rules(orig_abs, new_abs, orig_keys, orig_names, out)
        info["split"] = nf > 0
        # edge-label table of the result is consistent: one label per name
        seen: Dict[str, Any] = {}
        for lhs, ag in new_abs:
            for k in [lhs] + [l for l, _ in ag[1]]:
                if seen.setdefault(k[0], k) != k:
                    out.append(("fresh_names", f"two different labels named {k[0]} in the factorized grammar"))
        # (e) sum-product (relational: real sum_products before == after)
        if entry == "fgg":
            sr = fggs.RealSemiring(dtype=torch.float64)
            opts = dict(method="fixed-point", tol=1e-12, kmax=300, semiring=sr)

            def evaluate(gr):
                with warnings.catch_warnings(record=True) as ws:
                    warnings.simplefilter("always")
                    z = fggs.sum_products(gr, **opts)
                conv = not any("maximum iteration exceeded" in str(w.message) for w in ws)
                return {lkey(l): v.to_dense() for l, v in z.items() if l.is_nonterminal}, conv

            ck = canon({k: v for k, v in case.items() if k not in ("entry", "method")})
            if cache is not None and ck in cache:
                z0 = cache[ck]
            else:
                try:
                    z0, conv = evaluate(G)
                    if not conv:
                        z0 = "original does not converge (kmax=300)"
                    elif any((not torch.isfinite(v).all()) for v in z0.values()):
                        z0 = "original not finite"
                except Exception as e:
                    z0 = f"original raises {type(e).__name__}"
                if cache is not None:
                    cache.clear()
                    cache[ck] = z0
            if isinstance(z0, str):
                info["sp_skipped"] = z0
                return out, info
            try:
                z1, conv = evaluate(Gn)
            except Exception as e:
                out.append(("sum_product_equal", f"sum_products of the factorized FGG raised {type(e).__name__}: {e}; "
                                                 f"the original evaluates fine"))
                return out, info
            if not conv:
                info["sp_skipped"] = "factorized does not converge (kmax=300)"
                return out, info
            rtol = 1e-6 if is_recursive(case) else 1e-9
            for k, v in z0.items():
                if k not in z1:
                    out.append(("sum_product_equal", f"nonterminal {k[0]} has no value in the factorized FGG"))
                    continue
                w = z1[k]
                if v.shape != w.shape or not torch.allclose(v, w, rtol=rtol, atol=1e-12):
                    out.append(("sum_product_equal", f"sum-product of {k[0]}: observed {w.tolist()} expected {v.tolist()} (rtol {rtol})"))
                    break
            info["sp_compared"] = True
    return out, info


# ============================================================================= enumeration of shapes

def attachments(n, maxar=3):
    out = []
    for a in range(maxar + 1):
        out += list(itertools.product(range(n), repeat=a))
    return out


def ext_choices(n, maxe=3):
    out = []
    for k in range(min(n, maxe) + 1):
        out += list(itertools.permutations(range(n), k))
    return out


def canon_shape(n, edges, ext):
    best = None
    for p in itertools.permutations(range(n)):
        c = (tuple(sorted(tuple(p[v] for v in e) for e in edges)), tuple(p[v] for v in ext))
        if best is None or c < best:
            best = c
    return best


def exhaustive_shapes(n, max_edges):
    A = attachments(n)
    X = ext_choices(n)
    seen = set()
    for k in range(max_edges + 1):
        for es in itertools.combinations_with_replacement(A, k):
            for x in X:
                seen.add(canon_shape(n, es, x))
    return sorted(seen)


def sampled_shapes(n, max_edges, count, r, min_edges=0):
    A = attachments(n)
    X = ext_choices(n)
    byar = {a: [t for t in A if len(t) == a] for a in range(4)}
    seen = set()
    tries = 0
    while len(seen) < count and tries < 50 * count:
        tries += 1
        k = r.randint(min_edges, max_edges)
        es = [r.choice(byar[r.choice([0, 1, 1, 2, 2, 2, 3, 3])]) for _ in range(k)]
        x = r.choice(X) if r.random() < 0.7 else tuple(r.sample(range(n), min(n, r.randint(0, 2))))
        seen.add(canon_shape(n, es, x))
    return sorted(seen)


def decorate(n, shape, variant, seed) -> Dict[str, Any]:
    """shape = (edges, ext) canonical; variant in plain | advrule | advctx.  Deterministic."""
    edges, ext = shape
    r = random.Random(f"{seed}:C05:{n}:{edges}:{ext}:{variant}")
    nodes = [r.choice("AB") for _ in range(n)]
    ext_ty = "".join(nodes[v] for v in ext)
    es = []
    adv_t = adv_n = None
    for att in edges:
        ty = "".join(nodes[v] for v in att)
        kinds = ["t", "t", "n"]
        if ty == ext_ty:
            kinds += ["lhs", "lhs"]
        kind = r.choice(kinds)
        if kind == "lhs":
            es.append(["X", "n", list(att)])
        elif kind == "t":
            if variant == "advrule" and adv_t is None:
                adv_t = ty
            es.append(["X_1" if (variant == "advrule" and ty == adv_t) else "t" + ty, "t", list(att)])
        else:
            if variant == "advrule" and adv_n is None:
                adv_n = ty
            es.append(["X_2" if (variant == "advrule" and ty == adv_n) else "Q" + ty, "n", list(att)])
    return {"lhs": "X", "nodes": nodes, "edges": es, "ext": list(ext),
            "context": variant if variant in ("advctx", "twice") else "plain",
            "dom": {"A": r.randint(1, 3), "B": r.randint(1, 3)}, "wseed": r.randint(0, 10 ** 6)}


VARIANTS = ("plain", "advrule", "advctx", "twice")


def _init_worker():
    try:
        import torch
        torch.set_num_threads(1)
    except Exception:
        pass


def _work(chunk):
    """chunk: list of (n, shape, [variants], seed)"""
    stats = {e: [0, set()] for e in ENTRIES}
    sp = Counter()
    fails = []
    cache: Dict[str, Any] = {}      # sum-products of the (deterministically rebuilt) original grammar of the current shape
    for n, shape, variants, seed in chunk:
        for variant in variants:
            base = decorate(n, shape, variant, seed)
            pcls = primal_class(base)
            for entry in ENTRIES:
                if entry == "rule" and variant in ("advctx", "twice"):
                    continue       # the context only exists for grammar-level entries
                for method in METHODS:
                    case = dict(base, entry=entry, method=method)
                    try:
                        viol, info = check_case(case, cache)
                    except Exception as e:      # harness problem: surface it, never hide it
                        viol, info = [("harness", f"{type(e).__name__}: {e}")], {}
                    stats[entry][0] += 1
                    if info.get("split"):
                        stats[entry][1].add(hashlib.sha1(canon(case).encode()).digest()[:10])
                    if "sp_skipped" in info:
                        sp["skipped:" + info["sp_skipped"]] += 1
                    if info.get("sp_compared"):
                        sp["compared"] += 1
                        if is_recursive(case):
                            sp["compared_recursive"] += 1
                    for clause, detail in viol:
                        fails.append({"case": case, "clause": clause, "detail": detail, "pclass": pcls, "variant": variant})
    return stats, sp, fails


HANDMADE = [
    # (n, (edges, ext)) -- named shapes the enumeration bound might cut off
    (5, (((0, 1), (1, 2), (2, 3), (3, 4)), (0, 4))),                 # chain with externals at both ends
    (5, (((0, 1), (1, 2), (2, 3), (3, 4), (4, 0)), ())),             # 5-cycle
    (4, (((0, 1, 2), (1, 2, 3), (), (3, 3)), (0, 3))),               # hyperedges + nullary + loop
    (6, (((0, 1), (2, 3), (4,)), (5,))),                             # three components, isolated external
    (4, ((), ())),                                                   # four isolated nodes, no edges
    (3, (((0, 0, 1), (1, 1, 1)), (2, 0))),                           # repeated attachment
    (6, (((0, 1, 2), (2, 3), (3, 4, 5), (5, 0)), (1, 4))),
]


def run_bounded(ctx: Ctx) -> Report:
    import multiprocessing as mp
    t0 = time.time()
    rep = Report(property_id="C05", level="other")
    import fggs, torch
    torch.set_num_threads(1)
    rep.functions_under_contract = ["fggs.factorize.factorize_rule", "fggs.factorize.factorize_hrg",
                                    "fggs.factorize.factorize_fgg", "fggs.utils.unique_label_name"]
    items = []      # (n, shape, variants, seed)
    desc = []

    def add(n, shapes, variants_of):
        for i, sh in enumerate(shapes):
            items.append((n, sh, variants_of(i), ctx.seed))

    cyc = lambda i: (VARIANTS[i % len(VARIANTS)],)
    allv = lambda i: VARIANTS
    if not ctx.thorough:
        for n, me in [(0, 3), (1, 3), (2, 3), (3, 2)]:
            sh = exhaustive_shapes(n, me)
            add(n, sh, cyc)
            desc.append(f"all {len(sh)} canonical shapes with {n} nodes, <= {me} edges")
        for n, me, cnt, mn in [(3, 3, 1200, 3), (4, 3, 2400, 1)]:
            sh = sampled_shapes(n, me, cnt, ctx.rng(f"shapes{n}"), mn)
            add(n, sh, cyc)
            desc.append(f"{len(sh)} seeded canonical shapes with {n} nodes, {mn}..{me} edges")
    else:
        for n, me in [(0, 4), (1, 4), (2, 3), (3, 2)]:
            sh = exhaustive_shapes(n, me)
            add(n, sh, allv)
            desc.append(f"all {len(sh)} canonical shapes with {n} nodes, <= {me} edges (4 variants each)")
        for n, me, cnt, mn in [(2, 4, 3000, 4), (3, 4, 15000, 3), (4, 4, 30000, 1), (5, 4, 30000, 2)]:
            sh = sampled_shapes(n, me, cnt, ctx.rng(f"shapes{n}"), mn)
            add(n, sh, cyc)
            desc.append(f"{len(sh)} seeded canonical shapes with {n} nodes, {mn}..{me} edges")
    for n, sh in HANDMADE:
        items.append((n, (tuple(sorted(sh[0])), sh[1]), VARIANTS, ctx.seed))
    desc.append(f"{len(HANDMADE)} hand-made shapes (5-6 nodes)")

    # interleave so that every chunk has a similar mix
    csz = 40
    nchunks = max(1, (len(items) + csz - 1) // csz)
    chunks = [items[i::nchunks] for i in range(nchunks)]
    if ctx.jobs > 1:
        with mp.get_context("fork").Pool(ctx.jobs, initializer=_init_worker) as pool:
            results = pool.map(_work, chunks, chunksize=1)
    else:
        results = [_work(c) for c in chunks]

    sp = Counter()
    for _, s, _ in results:
        sp.update(s)
    bound = ("rule shapes: arity 0..3 edges with repeated attachment, 0..3 ordered distinct externals, node labels {A,B}, "
             "edges terminal / nonterminal / labelled by the lhs; " + "; ".join(desc) +
             "; decoration variants plain / advrule (terminal named X_1, nonterminal named X_2 inside the rule) / advctx "
             "(nonterminal X_1 and terminal X_2 elsewhere in the grammar) / twice (the rule occurs twice); x {min_fill, quickbb, acb}")
    rule_txt = ("one case = (decorated shape, method, entry point); shapes are canonical under node renaming, decoration "
                "(node labels, edge kinds, domain sizes 1-3, weights) is seeded per shape; distinct = distinct canonical JSON "
                "recipe; non-trivial = the factorization really split the rule (>= 1 fresh nonterminal produced); node ids are "
                "strings, so set iteration inside the library follows PYTHONHASHSEED (fixed to 0 by ./check)")
    names = {"rule": "fggs.factorize.factorize_rule(labels=None) [fresh names, not wider, inline-isomorphic, method, frame]",
             "hrg": "fggs.factorize.factorize_hrg [start, terminals, fresh names, not wider, inline-isomorphic, method, frame]",
             "fgg": "fggs.factorize.factorize_fgg [same + factors, domains, sum-product equal]"}
    sample = decorate(3, (((0, 1), (1, 2)), (0,)), "plain", ctx.seed)
    recs = {}
    for e in ENTRIES:
        cases = sum(r[0][e][0] for r in results)
        dn = set()
        for r in results:
            dn |= r[0][e][1]
        recs[e] = Bounded(function=names[e], bound=bound, cases=cases, distinct_nontrivial=len(dn), rule=rule_txt,
                          samples=[dict(sample, entry=e, method=m) for m in METHODS], exhaustive=False)
        recs[e].extra["exhaustive_for"] = "the shape families introduced by 'all ... canonical shapes' (structure only; decoration is seeded)"
    recs["fgg"].extra["sum_product"] = dict(sp)

    perkey: Dict[str, int] = {}
    allf = [f for r in results for f in r[2]]
    allf.sort(key=lambda f: (len(f["case"]["nodes"]), len(f["case"]["edges"]), canon(f["case"]), f["clause"]))
    seen_f = set()
    for f in allf:
        case = f["case"]
        ident = canon(case) + "|" + f["clause"] + "|" + f["detail"][:40]
        if ident in seen_f:
            continue
        seen_f.add(ident)
        entry = case["entry"]
        fn = {"rule": "factorize_rule", "hrg": "factorize_hrg", "fgg": "factorize_fgg"}[entry]
        key = f"{fn}|{case['method']}|{f['clause']}|{f['pclass']}"
        if f["clause"] == "fresh_names":
            key += "|" + f["variant"]
        perkey[key] = perkey.get(key, 0) + 1
        if perkey[key] > MAX_FAIL_PER_KEY:
            continue
        what = (f"{fn}(method={case['method']}) on rule X -> nodes={''.join(case['nodes'])} edges="
                f"{[[e[0], e[2]] for e in case['edges']]} ext={case['ext']} context={case['context']} [{f['pclass']}]: {f['clause']}")
        rep.failures.append(Failure(obligation=f"{fn}.{f['clause']}", what=what,
                                    replay={"module": MODULE, "func": "replay_case", "case": dict(case, clause=f["clause"])},
                                    detail=f["detail"][:600], key=key))
    for e in ENTRIES:
        fn = {"rule": "factorize_rule", "hrg": "factorize_hrg", "fgg": "factorize_fgg"}[e]
        recs[e].extra["failures_per_key"] = {k: v for k, v in sorted(perkey.items()) if k.startswith(fn + "|")}
        rep.bounded.append(recs[e])
    rep.extra["c05_bounded_wall_s"] = round(time.time() - t0, 2)
    rep.assumptions.append("C05: the method-honoured clause observes fggs.factorize.tree_decomposition through a transparent "
                           "recording wrapper installed at run time")
    return rep


def replay_case(case: dict) -> bool:
    case = dict(case)
    clause = case.pop("clause", None)
    print("recipe:", canon(case))
    fails, info = check_case(case)
    for c, d in fails:
        print(f"  VIOLATED {c}: {d}")
    if not fails:
        print("  contract holds", info)
    if clause is None:
        return bool(fails)
    return any(c == clause for c, _ in fails)
