"""C08 -- the four semirings obey the semiring laws on their whole carrier."""
from vf import core
from vf.semvc import laws
from props._common import add_bounded


def run_obligations(ctx):
    rep = laws.run(ctx)
    rep.property_id = "C08"
    return rep


def run(ctx):
    rep = run_obligations(ctx)
    rep.level = "other"
    rep.explanation = ("Law clauses: proof obligations (semvc) on the scalar meaning of the real method bodies of "
                       "fggs/semirings.py, over the reals extended with +-inf/NaN, discharged by z3 nonlinear "
                       "arithmetic. Representation clause (Tensor vs PatternedTensor) and exact-IEEE laws: bounded "
                       "stand-in, never counted as proved.")
    add_bounded(rep, ctx, "C08")
    return rep
