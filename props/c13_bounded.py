"""C13 (bounded): equal and allclose decide (approximate) equality of the denoted tensors.

Cases are JSON dicts with tensor recipes of vf.bounded.gen_pt:
  {"op": "equal",    "t": r, "u": r}
  {"op": "allclose", "t": r, "u": r, "rtol": x, "atol": y, "equal_nan": b}
  {"op": "repr",     "t": r}                      t vs itself / clone / densification / freshened / re-shaped copy
  {"op": "default",  "t": r, "rtol": x, "atol": y}   equal_default / allclose_default
  {"op": "multi",    "semiring": name, "shapes": {key: shape}, "a": {key: r}, "b": {key: r}, "tol": x}
The oracle is torch.equal / torch.allclose on gen_pt.dense_oracle (independent of fggs.indices);
for MultiTensor an absent block is the full(semiring zero) block.  Only well-typed pairs
(gen_pt.compatible) are compared.
"""
from __future__ import annotations
import itertools, json, math, random, time, warnings, hashlib
from typing import Any, Dict, List, Optional, Tuple

import torch

from vf.core import Ctx, Report, Bounded, Failure
from vf.bounded import gen_pt as G
from vf.bounded.gen_pt import (build_pt, dense_oracle, canonical, shape_of, fill_data, enc, dec,
                               patterns_for_shape, all_shapes, same, DTYPES, backed_mask, compatible)

MODULE = "props.c13_bounded"
inf, nan = math.inf, math.nan
TOLS = [(0.0, 0.0), (1e-5, 1e-8), (0.0, 0.5), (0.1, 0.0)]


_MISMATCH = [0]


class typed_scope:
    """Silences warnings but notes the library's own "index type mismatch" diagnosis: operands on which the
    library itself reports a type mismatch are ill-typed, i.e. outside the property ("well-typed")."""
    def __enter__(self):
        self.cm = warnings.catch_warnings(record=True)
        self.w = self.cm.__enter__()
        warnings.simplefilter("always")
        return self

    def __exit__(self, *a):
        if any("index type mismatch" in str(x.message) for x in self.w):
            _MISMATCH[0] += 1
        return self.cm.__exit__(*a)


def depict_axis(a) -> str:
    if a[0] == "P": return f"X{a[1]}"
    if a[0] == "*": return "1" if not a[1] else "(" + "*".join(depict_axis(f) for f in a[1]) + ")"
    return f"({a[1]}+{depict_axis(a[2])}+{a[3]})"


def depict(r) -> str:
    s = f"pool{r['pool']}->[{', '.join(depict_axis(a) for a in r['vaxes'])}]|d={r.get('default')}|{r.get('dtype','float64')}"
    if r.get("storage", "contig") != "contig": s += "|" + r["storage"]
    return s


# ------------------------------------------------------------------------------------ recipe surgery
def positions(r) -> List[Tuple[Tuple[int, ...], int]]:
    """[(virtual index tuple, index into data)] for every physical element of the recipe"""
    pool = list(r["pool"]); expanded = r.get("storage", "contig") == "expanded"
    out = []
    for p in itertools.product(*[range(k) for k in pool]):
        v = tuple(G.ax_eval(a, pool, p) for a in r["vaxes"])
        q = p[1:] if expanded else p
        ql = 0
        for i, k in zip(q, pool[1:] if expanded else pool): ql = ql * k + i
        out.append((v, ql))
    return out


def repattern(Z: torch.Tensor, pat, default, dtype="float64") -> Dict[str, Any]:
    """the recipe with pattern `pat` (contiguous storage) whose physical data are read off Z"""
    r = {"pool": list(pat["pool"]), "vaxes": json.loads(json.dumps(pat["vaxes"])), "storage": "contig",
         "dtype": dtype, "default": enc(default)}
    data = [None] * G.data_len(r)
    for v, ql in positions(r):
        x = Z[v].item()
        data[ql] = enc(x)
    r["data"] = data
    return r


def make_equal_pair(p, q, dt, du, rng, dtype="float64", special=False):
    """t over pattern p (its own storage), u over pattern q, constructed so that they denote the same
       tensor whenever that is possible (no position unbacked by both, or dt == du)."""
    t = fill_data(p, rng, special=special, dtype=dtype, default=dt)
    mq = backed_mask({"pool": q["pool"], "vaxes": q["vaxes"]})
    data = list(t["data"])
    for v, ql in positions(t):
        if not bool(mq[v]): data[ql] = enc(du) if dtype != "bool" else bool(du)
        elif rng.random() < 0.25: data[ql] = enc(dt) if dtype != "bool" else bool(dt)     # a visible default value inside the support
    t["data"] = data
    Z = dense_oracle(t)
    u = repattern(Z, q, du, dtype)
    return t, u


def perturb(r, where_mask: Optional[torch.Tensor], delta_fn, rng) -> Optional[Dict[str, Any]]:
    """change exactly one physical datum of r whose virtual position satisfies where_mask (and which
       backs exactly one virtual position), by delta_fn(old)"""
    pos = positions(r)
    count: Dict[int, int] = {}
    for v, ql in pos: count[ql] = count.get(ql, 0) + 1
    cands = [(v, ql) for v, ql in pos if count[ql] == 1 and (where_mask is None or bool(where_mask[v]))]
    cands = [(v, ql) for v, ql in cands if isinstance(dec(r["data"][ql]), bool) or math.isfinite(dec(r["data"][ql]))]
    if not cands: return None
    v, ql = cands[rng.randrange(len(cands))]
    r2 = dict(r); data = list(r["data"])
    old = dec(data[ql])
    data[ql] = (not old) if isinstance(old, bool) else enc(delta_fn(old))
    r2["data"] = data
    return r2


# ------------------------------------------------------------------------------------ checking one case
def _allclose(a, b, rtol, atol, equal_nan=False) -> bool:
    if tuple(a.size()) != tuple(b.size()): return False
    return bool(torch.allclose(a, b, rtol=rtol, atol=atol, equal_nan=equal_nan))


def _snap(t):
    return (t.physical.clone(), t.default)


def _frame(t, s) -> Optional[str]:
    if not same(t.physical.clone(), s[0]): return "physical storage changed"
    if not (t.default == s[1] or (isinstance(s[1], float) and math.isnan(s[1]) and math.isnan(t.default))):
        return "default changed"
    return None


def _semiring(name):
    from fggs import semirings as S
    if name == "Bool": return S.BoolSemiring()
    return {"Real": S.RealSemiring, "Log": S.LogSemiring, "Viterbi": S.ViterbiSemiring}[name](dtype=torch.float64)


_FN = {"repr": "equal", "default": "equal_default", "multi": "MultiTensor.allclose"}


def check_case(case: dict) -> List[Tuple[str, str]]:
    """-> [(obligation, detail)] violations"""
    _MISMATCH[0] = 0
    res = _check_case(case)
    return [] if _MISMATCH[0] else res           # ill-typed operands (the library says so itself): out of scope


def _check_case(case: dict) -> List[Tuple[str, str]]:
    from fggs import indices as I
    out: List[Tuple[str, str]] = []
    op = case["op"]
    with typed_scope():
        try:
            if op in ("equal", "allclose"):
                t, u = build_pt(case["t"]), build_pt(case["u"])
                Dt, Du = dense_oracle(case["t"]), dense_oracle(case["u"])
                st, su = _snap(t), _snap(u)
                if op == "equal":
                    want = tuple(Dt.size()) == tuple(Du.size()) and bool(torch.equal(Dt, Du))
                    got = t.equal(u); got2 = u.equal(t)
                    if got is not want and got != want or not isinstance(got, bool):
                        out.append(("equal.value", f"t.equal(u) observed {got!r} expected {want} (dense t {Dt.tolist()} dense u {Du.tolist()})"))
                    if got2 != got:
                        out.append(("equal.symmetric", f"t.equal(u)={got} but u.equal(t)={got2} (torch.equal={want})"))
                else:
                    rt, at, en = case["rtol"], case["atol"], case.get("equal_nan", False)
                    want = _allclose(Dt, Du, rt, at, en); want2 = _allclose(Du, Dt, rt, at, en)
                    got = t.allclose(u, rtol=rt, atol=at, equal_nan=en); got2 = u.allclose(t, rtol=rt, atol=at, equal_nan=en)
                    if got != want:
                        out.append(("allclose.value", f"t.allclose(u, rtol={rt}, atol={at}, equal_nan={en}) observed {got} expected {want} (dense t {Dt.tolist()} dense u {Du.tolist()})"))
                    if got2 != want2:
                        out.append(("allclose.value", f"u.allclose(t, rtol={rt}, atol={at}, equal_nan={en}) observed {got2} expected {want2} (dense t {Dt.tolist()} dense u {Du.tolist()})"))
                for nm, x, s in (("t", t, st), ("u", u, su)):
                    m = _frame(x, s)
                    if m: out.append((f"{op}.frame", f"operand {nm}: {m}"))
            elif op == "repr":
                r = case["t"]
                t = build_pt(r); D = dense_oracle(r); st = _snap(t)
                refl = bool(torch.equal(D, D))      # False iff a NaN is visible
                variants = [("same-object", lambda: t), ("clone", lambda: t.clone()), ("freshen", lambda: t.freshen()),
                            ("densified", lambda: I.PatternedTensor(t.to_dense())),
                            ("densified-same-default", lambda: I.PatternedTensor(t.to_dense(), default=t.default)),
                            ("default_to-other", lambda: t.default_to(1.0 if t.default != 1.0 else 0.0) if D.dtype != torch.bool else t.default_to(not t.default)),
                            ("fresh-build", lambda: build_pt(r)),
                            ("oracle-dense", lambda: I.PatternedTensor(D.clone())),
                            ("double-transpose", lambda: t.T.T)]
                for name, mk in variants:
                    v = mk()
                    a, b = t.equal(v), v.equal(t)
                    if a != refl or b != refl:
                        out.append((f"equal.{'reflexive' if name == 'same-object' else 'representation'}",
                                    f"t vs {name}: t.equal(v)={a} v.equal(t)={b} expected {refl}; dense {D.tolist()}"))
                    if D.is_floating_point():
                        for en in (False, True):
                            w = _allclose(D, D, 1e-5, 1e-8, en)
                            a, b = t.allclose(v, equal_nan=en), v.allclose(t, equal_nan=en)
                            if a != w or b != w:
                                out.append(("allclose.representation", f"t vs {name}: allclose(equal_nan={en}) observed {a},{b} expected {w}; dense {D.tolist()}"))
                # views that share t's PhysicalAxis objects in another arrangement (equal/allclose must freshen)
                if t.ndim >= 2:
                    for perm in itertools.permutations(range(t.ndim)):
                        if list(perm) == list(range(t.ndim)): continue
                        for name, v, Dv, a0, D0 in ((f"permute{perm}", t.permute(perm), D.permute(*perm), t, D),
                                                    (f"flatten-of-permute{perm}", t.permute(perm).flatten(), D.permute(*perm).flatten(), t.flatten(), D.flatten())):
                            w = tuple(D0.size()) == tuple(Dv.size()) and bool(torch.equal(D0, Dv))
                            a, b = a0.equal(v), v.equal(a0)
                            if a != w or b != w:
                                out.append(("equal.shared_axes", f"t vs {name}: equal observed {a},{b} expected {w}; dense {D.tolist()}"))
                            if D.is_floating_point() and tuple(D0.size()) == tuple(Dv.size()):
                                w = _allclose(D0, Dv, 1e-5, 1e-8, False)
                                a, b = a0.allclose(v), v.allclose(a0)
                                if a != w or b != w:
                                    out.append(("allclose.shared_axes", f"t vs {name}: allclose observed {a},{b} expected {w}; dense {D.tolist()}"))
                # shape mismatch => False
                others = [("unsqueeze0", lambda: t.unsqueeze(0)), ("flatten", lambda: t.flatten() if t.ndim != 1 else t.unsqueeze(-1)),
                          ("scalar", lambda: I.PatternedTensor(torch.zeros((), dtype=D.dtype)) if t.ndim else I.PatternedTensor(torch.zeros((1,), dtype=D.dtype)))]
                for name, mk in others:
                    v = mk()
                    if tuple(v.size()) == tuple(t.size()): continue
                    a, b = t.equal(v), v.equal(t)
                    if a or b: out.append(("equal.shape_mismatch", f"t {tuple(t.size())} vs {name} {tuple(v.size())}: {a},{b} expected False"))
                    if D.is_floating_point():
                        a, b = t.allclose(v), v.allclose(t)
                        if a or b: out.append(("allclose.shape_mismatch", f"t {tuple(t.size())} vs {name} {tuple(v.size())}: {a},{b} expected False"))
                m = _frame(t, st)
                if m: out.append(("equal.frame", m))
            elif op == "default":
                r = case["t"]
                t = build_pt(r); st = _snap(t)
                phys = G.build_physical(r)
                dflt = dec(r["default"])
                full = torch.full_like(phys, dflt) if phys.dtype != torch.bool else torch.full_like(phys, bool(dflt))
                want = bool((phys == full).all())
                got = t.equal_default()
                if got != want:
                    out.append(("equal_default.value", f"observed {got} expected {want}; physical {phys.tolist()} default {dflt}"))
                if phys.is_floating_point():
                    rt, at = case["rtol"], case["atol"]
                    want = bool(torch.allclose(phys, torch.tensor(dflt, dtype=phys.dtype), rtol=rt, atol=at, equal_nan=True))
                    got = t.allclose_default(rtol=rt, atol=at)
                    if got != want:
                        out.append(("allclose_default.value", f"rtol={rt} atol={at}: observed {got} expected {want}; physical {phys.tolist()} default {dflt}"))
                m = _frame(t, st)
                if m: out.append(("equal_default.frame", m))
            elif op == "multi":
                from fggs.multi import MultiTensor
                sr = _semiring(case["semiring"])
                zero = sr.from_int(0).item()
                shapes = {k: torch.Size(v) for k, v in case["shapes"].items()}
                A, B = MultiTensor(shapes, sr), MultiTensor(shapes, sr)
                for k, r in case["a"].items(): A[k] = build_pt(r)
                for k, r in case["b"].items(): B[k] = build_pt(r)
                tol = case["tol"]
                want = True
                for k in sorted(set(case["a"]) | set(case["b"])):
                    dt = DTYPES[(case["a"].get(k) or case["b"].get(k)).get("dtype", "float64")]
                    za = dense_oracle(case["a"][k]) if k in case["a"] else torch.full(tuple(shapes[k]), zero, dtype=dt)
                    zb = dense_oracle(case["b"][k]) if k in case["b"] else torch.full(tuple(shapes[k]), zero, dtype=dt)
                    ok = bool(torch.equal(za, zb)) if tol == 0 else bool(torch.allclose(za, zb, atol=tol, rtol=0.))
                    want = want and ok
                got = A.allclose(B, tol); got2 = B.allclose(A, tol)
                if got != want:
                    out.append(("MultiTensor.allclose.value", f"A.allclose(B, {tol}) observed {got} expected {want}"))
                if got2 != want:
                    out.append(("MultiTensor.allclose.value", f"B.allclose(A, {tol}) observed {got2} expected {want}"))
            else:
                out.append(("harness", f"unknown op {op}"))
        except I.RepInvariantError as e:
            out.append((f"{_FN.get(op, op)}.wf", f"RepInvariantError: {e}"))
        except Exception as e:
            out.append((f"{_FN.get(op, op)}.raises", f"{type(e).__name__}: {str(e)[:300]}"))
    return out


def replay_case(case: dict) -> bool:
    c = {k: v for k, v in case.items() if not k.startswith("_")}
    v = check_case(c)
    print("case:", json.dumps(c)[:1500])
    if not v:
        print("no violation observed"); return False
    for ob, det in v: print(f"VIOLATED {ob}: {det}")
    return True


# ------------------------------------------------------------------------------------ keys
def _recipes(case):
    if case["op"] == "multi": return list(case["a"].values()) + list(case["b"].values())
    return [case[k] for k in ("t", "u") if k in case]


def _key(obl, case, detail) -> str:
    exc = ""
    if obl.endswith(".raises") or obl.endswith(".wf"):
        exc = detail.split(":")[0]
    tags = [exc] if exc else []
    rs = _recipes(case)
    if any(0 in r["pool"] for r in rs): tags.append("zero-size-axis")
    if not exc and any(dec(r.get("default", 0)) != dec(r.get("default", 0)) for r in rs): tags.append("nan-default")
    if case["op"] == "multi": tags.append(case["semiring"])
    return obl + "|" + "|".join(tags)


# ------------------------------------------------------------------------------------ generation
def _rng(seed: int, salt: str) -> random.Random:
    h = hashlib.sha256(f"{seed}:C13:{salt}".encode()).hexdigest()
    return random.Random(int(h[:16], 16))


DPAIRS = [(0.0, 0.0), (0.0, 1.0), (-inf, -inf), (1.0, 0.0), (2.5, 2.5), (-inf, 0.0), (inf, inf), (2.5, -2.5)]


def gen_unit(unit: dict):
    kind, tier, seed = unit["kind"], unit["tier"], unit["seed"]
    th = tier == "thorough"
    if kind == "pairs":
        shape = tuple(unit["shape"])
        rng = _rng(seed, f"pairs:{shape}:{unit.get('part', 0)}")
        pats = patterns_for_shape(shape, tier)
        for i, j in itertools.product(range(len(pats)), repeat=2):
            p, q = pats[i], pats[j]
            if (i + j) % unit.get("parts", 1) != unit.get("part", 0): continue
            if th and (i * 3 + j) % max(1, (len(pats) ** 2) // 3000): continue     # thorough: <= ~3000 ordered pairs per shape
            if not compatible(p, q): continue
            mp_, mq_ = backed_mask(p), backed_mask(q)
            both, tonly, uonly = mp_ & mq_, mp_ & ~mq_, mq_ & ~mp_
            dps = DPAIRS if th else [DPAIRS[(i + j) % 8], DPAIRS[(i + 3 * j + 1) % 8], DPAIRS[(2 * i + j + 2) % 8 // 2 * 2]]
            for di, (dt, du) in enumerate(dps):
                dtype = "float32" if (i + j + di) % 5 == 4 else "float64"
                t, u = make_equal_pair(p, q, dt, du, rng, dtype)
                yield {"op": "equal", "t": t, "u": u, "_sc": "constructed-equal"}
                if di == 0 or th:
                    # near misses: exactly one element differs
                    bump = lambda x: x + 1.0
                    for nm, (side, mask) in (("overlap", ("u", both)), ("u-only", ("u", uonly)), ("t-only", ("t", tonly))):
                        if side == "u":
                            u2 = perturb(u, mask, bump, rng)
                            if u2 is not None: yield {"op": "equal", "t": t, "u": u2, "_sc": "near-miss-" + nm}
                        else:
                            t2 = perturb(t, mask, bump, rng)
                            if t2 is not None: yield {"op": "equal", "t": t2, "u": u, "_sc": "near-miss-" + nm}
                    if not bool(mq_.all()):       # a default-backed position of u differs
                        u2 = dict(u); u2["default"] = enc(dec(u["default"]) + 1.0 if math.isfinite(dec(u["default"])) else 0.0)
                        yield {"op": "equal", "t": t, "u": u2, "_sc": "near-miss-default"}
                    # tolerances: perturb one element just inside / just outside
                    for ti, (rt, at) in enumerate(TOLS):
                        yield {"op": "allclose", "t": t, "u": u, "rtol": rt, "atol": at, "_sc": "constructed-equal"}
                        # a large rtol also gets perturbations inside the band where |t-u| <= rtol*|u| and
                        # |t-u| > rtol*|t| disagree (torch.allclose scales by the SECOND operand)
                        for factor in ((0.5, 2.0, 1.05, -0.95) if rt >= 0.01 else (0.5, 2.0)):
                            def d(x, rt=rt, at=at, factor=factor):
                                tol = at + rt * abs(x)
                                if tol == 0: return x + (0.0 if factor < 1 else max(abs(x), 1.0) * 2.0 ** -40)
                                return x + factor * tol
                            nm, (side, mask) = [("overlap", ("u", both)), ("u-only", ("u", uonly)), ("t-only", ("t", tonly))][(i + j + ti + (factor > 1)) % 3]
                            for side2, mask2, nm2 in ((side, mask, nm), ("u", None, "any")):
                                r2 = perturb(u if side2 == "u" else t, mask2, d, rng)
                                if r2 is None: continue
                                c = {"op": "allclose", "rtol": rt, "atol": at, "_sc": f"{'inside' if abs(factor) < 1 else 'outside'}-{nm2}"}
                                c["t"], c["u"] = (t, r2) if side2 == "u" else (r2, u)
                                yield c
                                break
                    if not bool(mq_.all()) and math.isfinite(dec(u["default"])):
                        for (rt, at) in TOLS[1:]:
                            for factor in (0.5, 2.0):
                                u2 = dict(u); x = dec(u["default"]); u2["default"] = x + factor * (at + rt * abs(x))
                                yield {"op": "allclose", "t": t, "u": u2, "rtol": rt, "atol": at, "_sc": f"{'inside' if factor < 1 else 'outside'}-default"}
            # unrelated random data, incl. special values (NaN / inf): mostly unequal
            dt, du = DPAIRS[(i + 2 * j) % 8]
            t = fill_data(p, rng, special=True, default=dt); u = fill_data(q, rng, special=True, default=du)
            yield {"op": "equal", "t": t, "u": u, "_sc": "random"}
            yield {"op": "allclose", "t": t, "u": u, "rtol": 1e-5, "atol": 1e-8, "equal_nan": bool((i + j) % 2), "_sc": "random"}
            # NaN defaults / NaN data represented identically
            if (i + j) % 4 == 0:
                t, u = make_equal_pair(p, q, nan, nan, rng, "float64", special=True)
                yield {"op": "equal", "t": t, "u": u, "_sc": "nan"}
                for en in (False, True):
                    yield {"op": "allclose", "t": t, "u": u, "rtol": 1e-5, "atol": 1e-8, "equal_nan": en, "_sc": "nan"}
            # bool tensors (Bool semiring)
            if (i + j) % 3 == 0:
                dt, du = [(False, False), (False, True), (True, True)][(i + j) // 3 % 3]
                t, u = make_equal_pair(p, q, dt, du, rng, "bool")
                yield {"op": "equal", "t": t, "u": u, "_sc": "bool-constructed-equal"}
                u2 = perturb(u, None, None, rng)
                if u2 is not None: yield {"op": "equal", "t": t, "u": u2, "_sc": "bool-near-miss"}
    elif kind == "mismatch":      # different shapes => False
        sa, sb = tuple(unit["shape"]), tuple(unit["shape2"])
        rng = _rng(seed, f"mismatch:{sa}:{sb}")
        pa, pb = patterns_for_shape(sa, tier), patterns_for_shape(sb, tier)
        for i, j in itertools.product(range(len(pa)), range(len(pb))):
            if (i + j) % 3 and not th: continue
            t = fill_data(pa[i], rng, special=False, default=0.0); u = fill_data(pb[j], rng, special=False, default=0.0)
            z = {"data": [0.0] * len(t["data"])}; t0 = dict(t); t0.update(z)
            z = {"data": [0.0] * len(u["data"])}; u0 = dict(u); u0.update(z)
            yield {"op": "equal", "t": t0, "u": u0, "_sc": "shape-mismatch-all-zero"}
            yield {"op": "allclose", "t": t0, "u": u0, "rtol": 1e-5, "atol": 1e-8, "_sc": "shape-mismatch-all-zero"}
            yield {"op": "equal", "t": t, "u": u, "_sc": "shape-mismatch"}
    elif kind == "repr":
        shape = tuple(unit["shape"])
        rng = _rng(seed, f"repr:{shape}")
        pats = patterns_for_shape(shape, tier)
        dfl = [0.0, 1.0, -inf, inf, 2.5, nan]
        for pi, p in enumerate(pats):
            for di, d in enumerate(dfl):
                if not th and di not in (pi % 6, (pi + 3) % 6): continue
                for special in (False, True):
                    r = fill_data(p, rng, special=special, dtype=("float32" if (pi + di) % 4 == 3 else "float64"), default=d)
                    yield {"op": "repr", "t": r}
                    for (rt, at) in TOLS:
                        yield {"op": "default", "t": r, "rtol": rt, "atol": at}
                # physical all equal to the default, and all but one (within / beyond tolerance)
                if d == d:
                    r0 = fill_data(p, rng, special=False, default=d)
                    r0["data"] = [enc(d)] * len(r0["data"])
                    for (rt, at) in TOLS:
                        yield {"op": "default", "t": r0, "rtol": rt, "atol": at}
                        if math.isfinite(d) and r0["data"]:
                            for factor in (0.5, 2.0):
                                r1 = dict(r0); data = list(r0["data"])
                                tol = at + rt * abs(d)
                                data[rng.randrange(len(data))] = d + (factor * tol if tol else (0.0 if factor < 1 else 2.0 ** -40))
                                r1["data"] = data
                                yield {"op": "default", "t": r1, "rtol": rt, "atol": at}
            for d in (False, True):
                r = fill_data(p, rng, dtype="bool", default=d)
                yield {"op": "repr", "t": r}
                yield {"op": "default", "t": r, "rtol": 0.0, "atol": 0.0}
                r0 = dict(r); r0["data"] = [d] * len(r["data"])
                yield {"op": "default", "t": r0, "rtol": 0.0, "atol": 0.0}
            r = fill_data(p, rng, dtype="int64", default=(pi % 3) - 1)
            yield {"op": "repr", "t": r}
            yield {"op": "default", "t": r, "rtol": 0.0, "atol": 0.0}
    elif kind == "multi":
        srn = unit["semiring"]
        rng = _rng(seed, f"multi:{srn}")
        zero = {"Real": 0.0, "Log": -inf, "Viterbi": -inf, "Bool": False}[srn]
        dtype = "bool" if srn == "Bool" else "float64"
        shapes = {"X": [2], "Y": [2, 2], "Z": [], "W": [3]}
        tols = [0, 0.5, 1e-5]
        def blocks(key, variant):
            """the block states of one key: None = absent"""
            shape = tuple(shapes[key])
            pats = patterns_for_shape(shape, tier)
            pats = [p for p in pats if 0 not in p["pool"]]
            # pairs of compatible patterns, rotating with `variant`
            prs = [(p, q) for p in pats for q in pats if compatible(p, q)]
            p, q = prs[(variant * 7 + 3) % len(prs)]
            def const(pat, val):
                r = fill_data(pat, rng, special=False, dtype=dtype, default=zero)
                r["data"] = [enc(val) if dtype != "bool" else bool(val)] * len(r["data"]); return r
            if dtype == "bool":
                nz = fill_data(p, rng, dtype="bool", default=False)
                if not any(nz["data"]) and nz["data"]: nz["data"] = [True] + nz["data"][1:]
                Z = dense_oracle(nz)
                return [None, const(p, False), const(q, False), nz, repattern_or(Z, q, False, "bool", nz)]
            nzr = fill_data(p, rng, special=False, dtype=dtype, default=zero)
            Z = dense_oracle(nzr)
            close = dict(nzr); close["data"] = [enc(dec(x) + 0.25) for x in nzr["data"]]
            far = dict(nzr); far["data"] = [enc(dec(x) + 0.75) if k == 0 else x for k, x in enumerate(nzr["data"])]
            small = const(p, 0.25 if srn == "Real" else -inf); smallb = const(q, 0.25 if srn == "Real" else -1e300)
            return [None, const(p, zero), const(q, zero), nzr, repattern_or(Z, q, zero, dtype, nzr), close, far, small, smallb]
        keysets = [("X", "Y"), ("Z", "W"), ("Y", "Z")]
        for ksi, ks in enumerate(keysets):
            for variant in range(3 if not th else 8):
                bl = {k: blocks(k, variant + ksi) for k in ks}
                n = len(bl[ks[0]])
                for a0, b0 in itertools.product(range(n), repeat=2):
                    for a1, b1 in ([(0, 0), (1, 0), (0, 2), (3, 4), (3, 3), (0, 3)] if not th else itertools.product(range(n), repeat=2)):
                        a = {}; b = {}
                        if bl[ks[0]][a0] is not None: a[ks[0]] = bl[ks[0]][a0]
                        if bl[ks[0]][b0] is not None: b[ks[0]] = bl[ks[0]][b0]
                        if bl[ks[1]][a1] is not None: a[ks[1]] = bl[ks[1]][a1]
                        if bl[ks[1]][b1] is not None: b[ks[1]] = bl[ks[1]][b1]
                        for tol in tols:
                            yield {"op": "multi", "semiring": srn, "shapes": {k: shapes[k] for k in ks}, "a": a, "b": b, "tol": tol}


def repattern_or(Z, q, default, dtype, fallback):
    """Z re-patterned over q if q can hold it (unbacked positions hold the default), else fallback"""
    m = backed_mask(q)
    d = torch.tensor(default, dtype=Z.dtype)
    if bool((Z[~m] == d).all()):
        return repattern(Z, q, default, dtype)
    return fallback


def _nontrivial(case) -> bool:
    """some operand is not the plain dense pattern"""
    def nd(r):
        if r.get("storage", "contig") != "contig": return True
        return any(a[0] != "P" and a != G.UNIT for a in r["vaxes"]) or \
            len([i for a in r["vaxes"] for i in G.ax_fv(a)]) != len(r["pool"])
    return any(nd(r) for r in _recipes(case))


def _expected_outcome(case) -> Optional[bool]:
    try:
        if case["op"] == "equal":
            a, b = dense_oracle(case["t"]), dense_oracle(case["u"])
            return tuple(a.size()) == tuple(b.size()) and bool(torch.equal(a, b))
        if case["op"] == "allclose":
            return _allclose(dense_oracle(case["t"]), dense_oracle(case["u"]), case["rtol"], case["atol"], case.get("equal_nan", False))
    except Exception:
        return None
    return None


def _run_unit(unit: dict) -> dict:
    torch.set_num_threads(1)
    from fggs import indices as I
    c0 = dict(I._verif_stats)
    tp0 = time.process_time()
    cases = 0; distinct = set(); nontriv = 0
    fails = []; per_key: Dict[str, int] = {}; samples = []
    scen: Dict[str, List[int]] = {}
    for case in gen_unit(unit):
        sc = case.pop("_sc", None)
        cases += 1
        h = hashlib.md5(canonical(case).encode()).digest()[:8]
        if h not in distinct:
            distinct.add(h)
            if _nontrivial(case): nontriv += 1
        if cases in (3, 40) and len(samples) < 2: samples.append(case)
        if sc is not None:
            e = _expected_outcome(case)
            s = scen.setdefault(f"{case['op']}:{sc}", [0, 0])
            if e is not None: s[0 if e else 1] += 1
        try:
            v = check_case(case)
        except Exception as e:
            v = [(f"{case['op']}.harness", f"{type(e).__name__}: {e}")]
        for obl, det in v:
            k = _key(obl, case, det)
            per_key[k] = per_key.get(k, 0) + 1
            if per_key[k] <= 3: fails.append({"obligation": obl, "key": k, "case": case, "detail": det})
    c1 = I._verif_stats
    return {"kind": unit["kind"], "cases": cases, "distinct": len(distinct), "nontrivial": nontriv, "fails": fails,
            "per_key": per_key, "samples": samples, "scen": scen, "cpu": time.process_time() - tp0,
            "checked": c1["checked"] - c0["checked"], "skipped": c1["skipped"] - c0["skipped"]}


def make_units(ctx: Ctx) -> List[dict]:
    th = ctx.thorough
    U = []
    shapes = all_shapes(6, 2) + [(1, 2, 2), (2, 1, 2), (2, 2, 1), (1, 2, 3), (2, 1, 3), (1, 1, 2)] if not th else all_shapes(6, 3)
    shapes = list(shapes) + [(0,), (0, 2)]
    for s in shapes:
        parts = (4 if not th else 8) if len(patterns_for_shape(s, ctx.tier)) > 24 else 1
        for part in range(parts):
            U.append({"kind": "pairs", "shape": list(s), "part": part, "parts": parts})
        U.append({"kind": "repr", "shape": list(s)})
    mm = [((2,), (1, 2)), ((2, 2), (4,)), ((2, 3), (3, 2)), ((6,), (2, 3)), ((), (1,)), ((2,), (3,)), ((1, 2), (2, 1)), ((2, 2), (2, 3)), ((0,), ()), ((0,), (0, 2))]
    for a, b in mm:
        U.append({"kind": "mismatch", "shape": list(a), "shape2": list(b)})
    for srn in ("Real", "Log", "Viterbi", "Bool"):
        U.append({"kind": "multi", "semiring": srn})
    for u in U:
        u["tier"] = ctx.tier; u["seed"] = ctx.seed
    return U


TITLES = {"pairs": ("PatternedTensor.equal / allclose on pairs of patterns",
                    "all well-typed ordered pairs of patterns of T over every shape with numel<=6, ndim<=2 (+6 three-dimensional, +2 zero-size shapes) x 3 of 8 default pairs (equal / different / -inf / inf) x scenarios {constructed-equal re-patterning, near-miss in overlap / t-only / u-only / default-backed position, random incl. NaN/inf, NaN-equal, bool} x (rtol,atol) in {(0,0),(1e-5,1e-8),(0,0.5),(0.1,0)} with one element at 0.5x / 2x the tolerance (and at 1.05x / -0.95x for rtol=0.1: the asymmetric band of isclose)"),
          "mismatch": ("equal / allclose on tensors of different shapes", "10 shape pairs (same numel or not) x every 3rd pattern pair, all-zero and random data"),
          "repr": ("equal / allclose vs representation (same object, clone, freshen, densified, default_to, T.T), shape mismatch, equal_default / allclose_default",
                   "every pattern of T of the shapes above x 2 of 6 defaults (incl. NaN) x data NaN-free / with specials, float64/float32/bool/int64; physical == default exactly, and one element at 0.5x / 2x the tolerance"),
          "multi": ("MultiTensor.allclose", "4 semirings x 3 key sets x 3 block-pattern variants x every combination of block states {absent, zero block in 2 patterns, non-zero block in 2 patterns, +0.25, +0.75 on one element, constant 0.25} of the first key x 6 combinations of the second x tol in {0, 0.5, 1e-5}")}


def run_bounded(ctx: Ctx) -> Report:
    import multiprocessing as mp
    t0 = time.time()
    torch.set_num_threads(1)
    rep = Report(property_id="C13", level="other")
    units = make_units(ctx)
    order = sorted(range(len(units)), key=lambda i: -{"pairs": 3, "multi": 2, "repr": 1, "mismatch": 0}[units[i]["kind"]])
    with mp.get_context("fork").Pool(max(1, ctx.jobs)) as pool:
        rs_un = pool.map(_run_unit, [units[i] for i in order], chunksize=1)
    results = [None] * len(units)
    for i, r in zip(order, rs_un): results[i] = r
    per_key_total: Dict[str, int] = {}; kept: Dict[str, int] = {}
    for kind, (title, bound) in TITLES.items():
        rs = [r for r in results if r["kind"] == kind]
        if not rs: continue
        scen: Dict[str, List[int]] = {}
        for r in rs:
            for k, v in r["scen"].items():
                s = scen.setdefault(k, [0, 0]); s[0] += v[0]; s[1] += v[1]
        rep.bounded.append(Bounded(function=title, bound=bound, cases=sum(r["cases"] for r in rs),
                                   distinct_nontrivial=sum(r["nontrivial"] for r in rs),
                                   rule="distinct = distinct canonical JSON case; non-trivial = some operand is not the plain dense pattern "
                                        "(default-backed element, product/sum/shared axis or non-contiguous storage)",
                                   samples=[s for r in rs for s in r["samples"]][:3], exhaustive=False,
                                   extra={"distinct": sum(r["distinct"] for r in rs), "cpu_s": round(sum(r["cpu"] for r in rs), 1),
                                          "expected_outcomes_true_false_by_scenario": scen}))
        for r in rs:
            for k, v in r["per_key"].items(): per_key_total[k] = per_key_total.get(k, 0) + v
            for f in r["fails"]:
                if kept.get(f["key"], 0) >= 3: continue
                kept[f["key"]] = kept.get(f["key"], 0) + 1
                c = f["case"]
                desc = " ; ".join(depict(x) for x in _recipes(c))[:240]
                extra = {k: c[k] for k in ("rtol", "atol", "equal_nan", "tol", "semiring") if k in c}
                rep.failures.append(Failure(obligation=f["obligation"], what=f"{c['op']} {json.dumps(extra)} on {desc}",
                                            replay={"module": MODULE, "func": "replay_case", "case": c},
                                            detail=f["detail"][:600], key=f["key"]))
    checked = sum(r["checked"] for r in results); skipped = sum(r["skipped"] for r in results)
    if rep.bounded: rep.bounded[0].extra["rep_invariant_checks"] = {"checked": checked, "skipped": skipped}
    rep.extra["c13_failure_counts_by_key"] = dict(sorted(per_key_total.items()))
    rep.extra["c13_bounded_wall_s"] = round(time.time() - t0, 1)
    rep.functions_under_contract += ["fggs.indices.PatternedTensor.equal", "fggs.indices.PatternedTensor.allclose",
                                     "fggs.indices.PatternedTensor.equal_default", "fggs.indices.PatternedTensor.allclose_default",
                                     "fggs.multi.MultiTensor.allclose"]
    return rep


if __name__ == "__main__":
    import sys
    tier = sys.argv[1] if len(sys.argv) > 1 else "quick"
    t0 = time.time()
    r = run_bounded(Ctx("C13", tier, 0))
    print("wall", round(time.time() - t0, 1), "failures", len(r.failures))
    for b in r.bounded:
        print(b.function[:70], b.cases, b.distinct_nontrivial, b.extra.get("cpu_s"))
        for k, v in b.extra["expected_outcomes_true_false_by_scenario"].items(): print("     ", k, v)
    for k, v in r.extra["c13_failure_counts_by_key"].items(): print(v, k)
    if len(sys.argv) > 2:
        json.dump([{"obligation": f.obligation, "key": f.key, "what": f.what, "detail": f.detail, "case": f.replay["case"]}
                   for f in r.failures], open(sys.argv[2], "w"), indent=0)
