"""C06 (bounded): patterned tensors behave exactly like the dense tensors they denote.

Every case is a JSON dict  {"op": name, "ops": [tensor recipes of vf.bounded.gen_pt],
"args": [...]}  (programs: {"prog": [[op, args], ...], "ops": [recipe]}).  The real operation of
fggs.indices.PatternedTensor is run on build_pt(recipe); the oracle is the corresponding torch
operation applied to dense_oracle(recipe) (gen_pt's own interpreter of the axis language, which
does not use fggs.indices).  Clauses per op:
    <op>.raises  the call must succeed (or must raise RuntimeError exactly when torch raises)
    <op>.wf      representation invariant of the result (FGGS_VERIF hook / _verif_check_rep)
    <op>.shape / <op>.dtype / <op>.value   denotation of the result
    <op>.frame   operands (denotation, default, physical storage) untouched by non-in-place ops
    <op>.post    op-specific postcondition (dim_to_dense: the axis is dense and independent)
"""
from __future__ import annotations
import itertools, json, math, os, random, time, warnings, hashlib
from typing import Any, Dict, List, Optional, Tuple

import torch

from vf.core import Ctx, Report, Bounded, Failure
from vf.bounded import gen_pt as G
from vf.bounded.gen_pt import (build_pt, dense_oracle, canonical, shape_of, fill_data, enc, dec,
                               patterns_for_shape, all_shapes, same, DTYPES)

MODULE = "props.c06_bounded"
inf, nan = math.inf, math.nan
DEFAULTS7 = [0.0, 1.0, -inf, inf, 2.5, -2.5, nan]
SCALARS = [0, 1, -1, 2.5, inf]
NAN_TO_NUM_ARGS = [[0, None, None], [0, "inf", None], ["-inf", "inf", "-inf"], [0.0, 5.0, -5.0]]
RTOL = {torch.float32: 1e-6, torch.float64: 1e-12}


# ------------------------------------------------------------------------------------ comparison
_MISMATCH = [0]


class typed_scope:
    """Silences warnings but notes the library's own "index type mismatch" diagnosis: operands on which the
    library itself reports a type mismatch are ill-typed, i.e. outside the property ("well-typed")."""
    def __enter__(self):
        self.cm = warnings.catch_warnings(record=True)
        self.w = self.cm.__enter__()
        warnings.simplefilter("always")
        return self

    def __exit__(self, *a):
        if any("index type mismatch" in str(x.message) for x in self.w):
            _MISMATCH[0] += 1
        return self.cm.__exit__(*a)


def cmp_dense(got, want, arith: bool, atol_too: bool = False, dtype: bool = True) -> Optional[Tuple[str, str]]:
    """None if `got` denotes `want`; else (clause, detail)."""
    if not isinstance(got, torch.Tensor):
        return ("value", f"result is {type(got).__name__}, expected a Tensor")
    if tuple(got.size()) != tuple(want.size()):
        return ("shape", f"observed shape {tuple(got.size())} expected {tuple(want.size())}")
    if dtype and got.dtype != want.dtype:
        return ("dtype", f"observed dtype {got.dtype} expected {want.dtype}")
    if got.dtype != want.dtype:
        got = got.to(torch.float64); want = want.to(torch.float64)
    if got.is_floating_point():
        gn, wn = torch.isnan(got), torch.isnan(want)
        if not torch.equal(gn, wn):
            return ("value", f"NaN positions differ: observed {got.tolist()} expected {want.tolist()}")
        gi, wi = torch.isinf(got), torch.isinf(want)
        if not torch.equal(gi, wi) or not torch.equal(got[gi], want[wi]):
            return ("value", f"infinities differ: observed {got.tolist()} expected {want.tolist()}")
        fin = ~(gn | gi)
        g, w = got[fin], want[fin]
        if arith:
            r = RTOL.get(got.dtype, 1e-12)
            ok = torch.isclose(g, w, rtol=r, atol=(r if atol_too else 0.0))
            if not bool(ok.all()):
                return ("value", f"observed {got.tolist()} expected {want.tolist()} (rtol {r})")
        elif not torch.equal(g, w):
            return ("value", f"observed {got.tolist()} expected {want.tolist()} (exact)")
        return None
    if not torch.equal(got, want):
        return ("value", f"observed {got.tolist()} expected {want.tolist()}")
    return None


def list_same(a, b) -> bool:
    if isinstance(a, list) and isinstance(b, list):
        return len(a) == len(b) and all(list_same(x, y) for x, y in zip(a, b))
    if isinstance(a, list) or isinstance(b, list): return False
    if isinstance(a, float) and isinstance(b, float) and math.isnan(a) and math.isnan(b): return True
    return type(a) == type(b) and a == b


def dclass(x) -> str:
    x = dec(x)
    if isinstance(x, bool): return str(x)
    if isinstance(x, float) and math.isnan(x): return "nan"
    if x == inf: return "+inf"
    if x == -inf: return "-inf"
    if x == 0: return "0"
    if x == 1: return "1"
    if x == -1: return "-1"
    return "pos" if x > 0 else "neg"


def depict_axis(a) -> str:
    if a[0] == "P": return f"X{a[1]}"
    if a[0] == "*": return "1" if not a[1] else "(" + "*".join(depict_axis(f) for f in a[1]) + ")"
    return f"({a[1]}+{depict_axis(a[2])}+{a[3]})"


def depict(r) -> str:
    s = f"pool{r['pool']}->[{', '.join(depict_axis(a) for a in r['vaxes'])}]|d={r.get('default')}|{r.get('dtype','float64')}"
    if r.get("storage", "contig") != "contig": s += "|" + r["storage"]
    return s


# ------------------------------------------------------------------------------------ op table
def _sc(x):  # JSON scalar -> python
    return dec(x)


class Op:
    def __init__(self, name, pt, dn, n=1, arith=False, atol=False, inplace=False, kind="pt",
                 raises_like_torch=False, post=None, dtype=True):
        self.name, self.pt, self.dn, self.n = name, pt, dn, n
        self.arith, self.atol, self.inplace, self.kind = arith, atol, inplace, kind
        self.raises_like_torch, self.post, self.dtype = raises_like_torch, post, dtype
        self.wants_recipes = False      # dn(D, args, recipes): the oracle also needs the operands' recipes


OPS: Dict[str, Op] = {}


def op(name, pt, dn, **kw):
    OPS[name] = Op(name, pt, dn, **kw)


# --- elementwise maps that touch only default and physical
op("abs", lambda T, a: T[0].abs(), lambda D, a: D[0].abs())
op("exp", lambda T, a: T[0].exp(), lambda D, a: D[0].exp(), arith=True)
op("expm1", lambda T, a: T[0].expm1(), lambda D, a: D[0].expm1(), arith=True)
op("log", lambda T, a: T[0].log(), lambda D, a: D[0].log(), arith=True)
op("logical_not", lambda T, a: T[0].logical_not(), lambda D, a: D[0].logical_not())
op("clamp_min", lambda T, a: T[0].clamp_min(_sc(a[0])), lambda D, a: D[0].clamp_min(_sc(a[0])))
op("clamp_max", lambda T, a: T[0].clamp_max(_sc(a[0])), lambda D, a: D[0].clamp_max(_sc(a[0])))
for _n in ("lt", "le", "gt", "ge", "eq"):
    op(_n + "_scalar", (lambda n: lambda T, a: getattr(T[0], n)(_sc(a[0])))(_n),
       (lambda n: lambda D, a: getattr(D[0], n)(_sc(a[0])))(_n))
for _n in ("add", "mul", "sub", "div"):
    op(_n + "_scalar", (lambda n: lambda T, a: getattr(T[0], n)(_sc(a[0])))(_n),
       (lambda n: lambda D, a: getattr(D[0], n)(_sc(a[0])))(_n), arith=True)
op("__add__scalar", lambda T, a: T[0] + _sc(a[0]), lambda D, a: D[0] + _sc(a[0]), arith=True)
op("__sub__scalar", lambda T, a: T[0] - _sc(a[0]), lambda D, a: D[0] - _sc(a[0]), arith=True)
op("__mul__scalar", lambda T, a: T[0] * _sc(a[0]), lambda D, a: D[0] * _sc(a[0]), arith=True)
op("__truediv__scalar", lambda T, a: T[0] / _sc(a[0]), lambda D, a: D[0] / _sc(a[0]), arith=True)
op("to", lambda T, a: T[0].to(DTYPES[a[0]]), lambda D, a: D[0].to(DTYPES[a[0]]))

# --- in-place forms (applied to t.clone(); t must stay unchanged)
op("neg_", lambda T, a: T[0].neg_(), lambda D, a: D[0].neg_(), inplace=True)
op("log_", lambda T, a: T[0].log_(), lambda D, a: D[0].log_(), inplace=True, arith=True)
op("log1p_", lambda T, a: T[0].log1p_(), lambda D, a: D[0].log1p_(), inplace=True, arith=True)
op("relu_", lambda T, a: T[0].relu_(), lambda D, a: D[0].relu_(), inplace=True)
op("abs_", lambda T, a: T[0].abs_(), lambda D, a: D[0].abs_(), inplace=True)


def _n2n_kw(a):
    kw = {"nan": _sc(a[0])}
    if a[1] is not None: kw["posinf"] = _sc(a[1])
    if a[2] is not None: kw["neginf"] = _sc(a[2])
    return kw


op("nan_to_num_", lambda T, a: T[0].nan_to_num_(**_n2n_kw(a)), lambda D, a: D[0].nan_to_num_(**_n2n_kw(a)),
   inplace=True)


def _imul_s(T, a):
    x = T[0]; x *= _sc(a[0]); return x


def _idiv_s(T, a):
    x = T[0]; x /= _sc(a[0]); return x


def _imul_sd(D, a):
    x = D[0]; x *= _sc(a[0]); return x


def _idiv_sd(D, a):
    x = D[0]; x /= _sc(a[0]); return x


op("__imul__scalar", _imul_s, _imul_sd, inplace=True, arith=True)
op("__itruediv__scalar", _idiv_s, _idiv_sd, inplace=True, arith=True)


def _imul_t(T, a):
    x = T[0]; x *= T[1]; return x


def _idiv_t(T, a):
    x = T[0]; x /= T[1]; return x


op("__imul__tensor", _imul_t, lambda D, a: D[0].mul_(D[1]), n=2, inplace=True, arith=True)
op("__itruediv__tensor", _idiv_t, lambda D, a: D[0].div_(D[1]), n=2, inplace=True, arith=True)


def _copy_(T, a):
    T[0].copy_(T[1]); return T[0]


op("copy_", _copy_, lambda D, a: D[1].clone(), n=2, inplace=True)

# --- binary ops between two patterned tensors
op("add", lambda T, a: T[0].add(T[1]), lambda D, a: D[0].add(D[1]), n=2, arith=True)
op("__add__", lambda T, a: T[0] + T[1], lambda D, a: D[0] + D[1], n=2, arith=True)
op("mul", lambda T, a: T[0].mul(T[1]), lambda D, a: D[0].mul(D[1]), n=2, arith=True)
op("__mul__", lambda T, a: T[0] * T[1], lambda D, a: D[0] * D[1], n=2, arith=True)
op("sub", lambda T, a: T[0].sub(T[1]), lambda D, a: D[0].sub(D[1]), n=2, arith=True)
op("__sub__", lambda T, a: T[0] - T[1], lambda D, a: D[0] - D[1], n=2, arith=True)
op("div", lambda T, a: T[0].div(T[1]), lambda D, a: D[0].div(D[1]), n=2, arith=True)
op("__truediv__", lambda T, a: T[0] / T[1], lambda D, a: D[0] / D[1], n=2, arith=True)
op("logaddexp", lambda T, a: T[0].logaddexp(T[1]), lambda D, a: torch.logaddexp(D[0], D[1]), n=2, arith=True, atol=True)
op("maximum", lambda T, a: T[0].maximum(T[1]), lambda D, a: torch.maximum(D[0], D[1]), n=2)
op("logical_and", lambda T, a: T[0].logical_and(T[1]), lambda D, a: D[0].logical_and(D[1]), n=2)
op("logical_or", lambda T, a: T[0].logical_or(T[1]), lambda D, a: D[0].logical_or(D[1]), n=2)
for _n in ("lt", "le", "gt", "ge", "eq"):
    op(_n, (lambda n: lambda T, a: getattr(T[0], n)(T[1]))(_n),
       (lambda n: lambda D, a: getattr(D[0], n)(D[1]))(_n), n=2)
# operands: t, c (bool), u
op("where", lambda T, a: T[0].where(T[1], T[2]), lambda D, a: torch.where(D[1], D[0], D[2]), n=3)
# the same object as both operands (aliasing of paxes)
op("add_self", lambda T, a: T[0].add(T[0]), lambda D, a: D[0].add(D[0]), arith=True)
op("mul_self", lambda T, a: T[0].mul(T[0]), lambda D, a: D[0].mul(D[0]), arith=True)
op("sub_self", lambda T, a: T[0].sub(T[0]), lambda D, a: D[0].sub(D[0]), arith=True)
op("maximum_self", lambda T, a: T[0].maximum(T[0]), lambda D, a: torch.maximum(D[0], D[0]))
op("eq_self", lambda T, a: T[0].eq(T[0]), lambda D, a: D[0].eq(D[0]))

# --- structural ops
op("permute", lambda T, a: T[0].permute(a[0]), lambda D, a: D[0].permute(a[0]))
op("transpose", lambda T, a: T[0].transpose(a[0], a[1]), lambda D, a: D[0].transpose(a[0], a[1]))
op("t", lambda T, a: T[0].t(), lambda D, a: D[0].t())
op("T", lambda T, a: T[0].T, lambda D, a: D[0].permute(tuple(reversed(range(D[0].ndim)))))
op("flatten", lambda T, a: T[0].flatten(), lambda D, a: D[0].flatten())
op("unsqueeze", lambda T, a: T[0].unsqueeze(a[0]), lambda D, a: D[0].unsqueeze(a[0]))
op("expand", lambda T, a: T[0].expand(*a[0]), lambda D, a: D[0].expand(a[0]), raises_like_torch=True)
op("expand_as", lambda T, a: T[0].expand_as(T[1]), lambda D, a: D[0].expand_as(D[1]), n=2)
op("repeat_as_expand", lambda T, a: T[0].repeat(*a[0]), lambda D, a: D[0].expand(*a[0]).clone())
op("stack", lambda T, a: __import__("fggs.indices").indices.stack(T, a[0]), lambda D, a: torch.stack(D, a[0]), n=-1)
op("__getitem__", lambda T, a: T[0][a[0] if isinstance(a[0], int) else tuple(a[0])],
   lambda D, a: D[0][a[0] if isinstance(a[0], int) else tuple(a[0])])
op("__iter__", lambda T, a: list(iter(T[0])), lambda D, a: list(iter(D[0])), kind="ptlist")
op("tolist", lambda T, a: T[0].tolist(), lambda D, a: D[0].tolist(), kind="pylist")
op("__len__", lambda T, a: [len(T[0]), T[0].dim(), T[0].ndim, T[0].numel(), tuple(T[0].size()), tuple(T[0].shape)],
   lambda D, a: [len(D[0]), D[0].dim(), D[0].ndim, D[0].numel(), tuple(D[0].size()), tuple(D[0].shape)], kind="py")
def _dimok(d, dim):
    if not (-d.ndim <= dim < d.ndim): raise IndexError("dim out of range (0-dim tensors have no dims)")
    return d


op("any", lambda T, a: T[0].any(a[0], a[1]), lambda D, a: _dimok(D[0], a[0]).any(a[0], a[1]))
op("log_softmax", lambda T, a: T[0].log_softmax(a[0]), lambda D, a: _dimok(D[0], a[0]).log_softmax(a[0]), arith=True, atol=True)
op("norm", lambda T, a: T[0].norm(a[0], a[1], a[2]), lambda D, a: _dimok(D[0], a[1]).norm(a[0], a[1], a[2]), arith=True, atol=True)


def _dimok(d, dim):
    if not (-d.ndim <= dim < d.ndim): raise IndexError("dim out of range (0-dim tensors have no dims)")
    return d


def _post_dim_to_dense(T, a, res):
    from fggs.indices import PhysicalAxis, unitAxis
    e = res.vaxes[a[0]]
    if e == unitAxis: return None
    if not isinstance(e, PhysicalAxis): return f"axis {a[0]} of the result is {e}, not dense"
    others = [k for i, f in enumerate(res.vaxes) if i != (a[0] % len(res.vaxes)) for k in f.fv({})]
    if any(k is e for k in others): return f"axis {a[0]} of the result is shared with another axis"
    return None


op("dim_to_dense", lambda T, a: T[0].dim_to_dense(a[0]), lambda D, a: _dimok(D[0], a[0]).clone(), post=_post_dim_to_dense)
op("default_to", lambda T, a: T[0].default_to(_sc(a[0])), lambda D, a: D[0].clone(),
   post=lambda T, a, res: None if (res.default == _sc(a[0]) or (math.isnan(res.default) and math.isnan(_sc(a[0]))))
   else f"result default {res.default} != {_sc(a[0])}")
op("clone", lambda T, a: T[0].clone(), lambda D, a: D[0].clone(),
   post=lambda T, a, res: None if (res.physical.numel() == 0 or res.physical.data_ptr() != T[0].physical.data_ptr())
   else "clone shares storage")
op("freshen", lambda T, a: T[0].freshen(), lambda D, a: D[0].clone(),
   post=lambda T, a, res: None if res.isdisjoint(T[0]) else "freshen shares a PhysicalAxis")
op("detach", lambda T, a: T[0].detach(), lambda D, a: D[0].detach())
op("to_dense", lambda T, a: T[0].to_dense(), lambda D, a: D[0].clone(), kind="tensor")


def _project_pt(T, a):
    from fggs.indices import PhysicalAxis
    q = a[0]
    if len(a) > 1 and a[1] == "alias":      # the tensor's own paxes/vaxes (exercises the freshen path)
        return T[0].project(T[0].paxes, T[0].vaxes)
    if len(a) > 1 and isinstance(a[1], dict):
        # the target pattern is written with (some of) the tensor's OWN PhysicalAxis objects, in any arrangement:
        # a[1]["share"][m] = index into T[0].paxes naming target pool entry m (None: a fresh axis)
        paxes = _shared_paxes(q["pool"], [[0, x] if x is not None else None for x in a[1]["share"]], T[:1])
        vaxes = tuple(G.build_axis(x, paxes) for x in q["vaxes"])
        return T[0].project(paxes, vaxes)
    paxes = tuple(PhysicalAxis(n) for n in q["pool"])
    vaxes = tuple(G.build_axis(x, paxes) for x in q["vaxes"])
    return T[0].project(paxes, vaxes)


def _project_dn(D, a):
    """spec of project: result[p] = D(t)[vaxes(p)] for every physical index tuple p of `paxes`"""
    q = a[0]
    pool = list(q["pool"])
    out = torch.empty(pool, dtype=D[0].dtype)
    for p in itertools.product(*[range(k) for k in pool]):
        v = tuple(G.ax_eval(x, pool, p) for x in q["vaxes"])
        out[p] = D[0][v]
    return out


op("project", _project_pt, _project_dn, kind="tensor")


# --- operands that SHARE PhysicalAxis objects (renaming apart).  PhysicalAxis objects are names that are local to one
# tensor; every view (T, t, transpose, permute, flatten, unsqueeze, expand, ...) and every elementwise map (abs, exp, ...)
# returns a tensor written with its argument's own axis objects, so operands / projection targets that mention the same
# objects in a different arrangement arise natively (t.add(t.T), t.project(t.T.paxes, t.T.vaxes), where(t, c, t.T.abs())).
# The denotation of a tensor does not depend on how its axes are named: the oracle is the ordinary dense one.
def _shared_paxes(pool, share, prev):
    """PhysicalAxis tuple for `pool`: entry m is prev[o].paxes[i] if share[m] == [o, i], else a fresh axis"""
    from fggs.indices import PhysicalAxis
    paxes = []
    for m, n in enumerate(pool):
        sh = share[m] if share is not None and m < len(share) else None
        if sh is None:
            paxes.append(PhysicalAxis(n))
        else:
            o, i = sh
            if i >= len(prev[o].paxes) or prev[o].paxes[i]._numel != n:
                raise ValueError(f"share map {share} joins axes of different sizes")
            paxes.append(prev[o].paxes[i])
    if len({id(k) for k in paxes}) != len(paxes):
        raise ValueError(f"share map {share} is not injective")
    return tuple(paxes)


def build_pt_shared(recipe, share, prev):
    """build_pt, but pool entry m is named by the PhysicalAxis object prev[o].paxes[i] when share[m] == [o, i]"""
    from fggs.indices import PatternedTensor
    G.validate(recipe)
    paxes = _shared_paxes(recipe["pool"], share, prev)
    vaxes = tuple(G.build_axis(x, paxes) for x in recipe["vaxes"])
    return PatternedTensor(G.build_physical(recipe), paxes, vaxes, dec(recipe.get("default", 0)))


def build_operands(recipes, share):
    """share = None, or one share map per operand after the first (each referring to earlier operands)"""
    if not share:
        return [build_pt(r) for r in recipes]
    T = [build_pt(recipes[0])]
    for k, r in enumerate(recipes[1:]):
        sh = share[k] if k < len(share) else None
        T.append(build_pt_shared(r, sh, T) if sh else build_pt(r))
    return T


def _same_names_copy(t):
    """an independent copy of t's storage that keeps t's PhysicalAxis objects (clone() renames them)"""
    from fggs.indices import PatternedTensor
    return PatternedTensor(t.physical.clone(), t.paxes, t.vaxes, t.default)


# views of a tensor that reuse its axis objects; v = [name, args]
def _view_pt(x, v):
    n, a = v[0], v[1]
    if n == "T": return x.T
    if n == "t": return x.t()
    if n == "transpose": return x.transpose(a[0], a[1])
    if n == "permute": return x.permute(a[0])
    if n == "T.abs": return x.T.abs()          # same names, other storage
    raise ValueError(f"unknown view {v}")


def _view_perm(nd, v):
    n, a = v[0], v[1]
    if n in ("T", "T.abs"): return list(reversed(range(nd)))
    if n == "t":
        if nd > 2: raise IndexError("t() of a tensor with more than 2 dimensions")
        return list(reversed(range(nd)))
    if n == "transpose":
        p = list(range(nd)); p[a[0]], p[a[1]] = p[a[1]], p[a[0]]; return p
    if n == "permute": return list(a[0])
    raise ValueError(f"unknown view {v}")


def _view_dn(d, v):
    w = d.permute(_view_perm(d.ndim, v))
    return w.abs() if v[0] == "T.abs" else w


def _view_recipe(r, v):
    """the recipe of the view, in gen_pt's own axis language (a permutation of the vaxes)"""
    q = dict(r); q["vaxes"] = [r["vaxes"][i] for i in _view_perm(len(r["vaxes"]), v)]
    return q


def _same_shape(d, w):
    if tuple(d.size()) != tuple(w.size()): raise IndexError("the view has another shape")
    return w


def _project_view_pt(T, a):
    """t.project onto the pattern of a view of t itself (taken through nonphysical(), as sum_product does), then
       reincarnated: must agree with t wherever the view's pattern backs an element, default elsewhere"""
    np_ = _view_pt(T[0], a[0]).nonphysical()
    return np_.reincarnate(T[0].project(np_.paxes, np_.vaxes)).to_dense()


def _project_view_dn(D, a, recipes):
    q = _view_recipe(recipes[0], a[0])
    if shape_of(q) != shape_of(recipes[0]): raise IndexError("the view has another shape")
    mask = G.backed_mask(q)
    dflt = torch.tensor(dec(recipes[0].get("default", 0)), dtype=D[0].dtype)
    return torch.where(mask, D[0], dflt)


op("project_view", _project_view_pt, _project_view_dn, kind="tensor")
OPS["project_view"].wants_recipes = True
for _n, _ar, _at in (("add", True, False), ("mul", True, False), ("sub", True, False), ("div", True, False),
                     ("logaddexp", True, True), ("maximum", False, False), ("lt", False, False), ("eq", False, False)):
    # t.op(view(t)): the second operand mentions the first one's axis objects in another arrangement
    op(_n + "_view", (lambda n: lambda T, a: getattr(T[0], n)(_view_pt(T[0], a[0])))(_n),
       (lambda n: lambda D, a: getattr(torch, n)(D[0], _same_shape(D[0], _view_dn(D[0], a[0]))))(_n),
       arith=_ar, atol=_at)
op("stack_view", lambda T, a: __import__("fggs.indices").indices.stack([T[0], _view_pt(T[0], a[0])] + ([T[0]] if a[2] else []), a[1]),
   lambda D, a: torch.stack([D[0], _same_shape(D[0], _view_dn(D[0], a[0]))] + ([D[0]] if a[2] else []), a[1]))
ALIAS_VIEW_OPS = {"project_view", "stack_view"} | {n + "_view" for n in ("add", "mul", "sub", "div", "logaddexp", "maximum", "lt", "eq")}
op("reshape", lambda T, a: T[0].reshape(*a[0]) if a[1] == "star" else T[0].reshape(a[0]),
   lambda D, a: D[0].reshape(a[0]), kind="reshape")
op("view", lambda T, a: T[0].view(*a[0]) if a[1] == "star" else T[0].view(a[0]),
   lambda D, a: D[0].reshape(a[0]), kind="reshape")


# ------------------------------------------------------------------------------------ running one case
def _snapshot(t):
    return (t.physical.clone(), t.default, tuple(t.physical.size()), None)


def _frame_violation(t, snap, d) -> Optional[str]:
    p, dflt, size, dense0 = snap
    if tuple(t.physical.size()) != size or not same(t.physical.clone(), p):
        return f"operand physical storage changed: {p.tolist()} -> {t.physical.tolist()}"
    if not (t.default == dflt or (isinstance(dflt, float) and math.isnan(dflt) and math.isnan(t.default))):
        return f"operand default changed: {dflt} -> {t.default}"
    if not same(t.to_dense(), d):
        return f"operand denotation changed: {d.tolist()} -> {t.to_dense().tolist()}"
    return None


def _reshape_must(src: Tuple[int, ...], tgt: Tuple[int, ...]) -> Optional[str]:
    """name of the must-succeed class if reshaping src->tgt only merges adjacent dims and/or
       inserts/removes size-1 dims (None otherwise)"""
    src, tgt = tuple(src), tuple(tgt)
    s = [n for n in src if n != 1]; t = [n for n in tgt if n != 1]
    if s == t:
        return "identity" if src == tgt else "size1"
    if 0 in s:
        return None
    # is t a coarsening of s (each target dim = product of a consecutive group of source dims)?
    i = 0
    for n in t:
        acc = 1
        while i < len(s) and acc < n:
            acc *= s[i]; i += 1
        if acc != n: return None
    if i != len(s): return None
    return "merge_adjacent" if (list(src) == s and list(tgt) == t) else "merge_adjacent+size1"


def run_op(name: str, recipes: List[dict], args: list, share=None) -> List[Tuple[str, str]]:
    """Run one op on freshly built operands; return list of (clause, detail) violations.
       share: operands after the first are written with PhysicalAxis objects of earlier operands (build_operands)."""
    from fggs import indices as I
    o = OPS[name]
    out: List[Tuple[str, str]] = []
    with typed_scope():
        T = build_operands(recipes, share)
        D = [dense_oracle(r) for r in recipes]
        snaps = [_snapshot(t) for t in T]
        # expected
        exp_exc = None
        try:
            Dc = [d.clone() for d in D]
            want = o.dn(Dc, args, recipes) if o.wants_recipes else o.dn(Dc, args)
        except Exception as e:  # torch rejects the input
            exp_exc = e
            want = None
        if exp_exc is not None and not (o.raises_like_torch or o.kind == "reshape"):
            return [("harness", f"oracle raised {type(exp_exc).__name__}: {exp_exc}")]
        # observed
        Tw = T
        if o.inplace:
            # (with shared axes the working copy must keep the operand's axis objects; clone() would rename them apart)
            Tw = [_same_names_copy(T[0]) if share else T[0].clone()] + T[1:]
        try:
            res = o.pt(Tw, args)
        except I.RepInvariantError as e:
            return [("wf", f"RepInvariantError: {e}")]
        except Exception as e:
            if o.raises_like_torch and exp_exc is not None and isinstance(e, RuntimeError):
                res = None
            elif o.kind == "reshape" and isinstance(e, RuntimeError):
                must = _reshape_must(tuple(D[0].size()), tuple(want.size())) if want is not None else None
                if name == "reshape" and must:
                    return [(must, f"reshape raised RuntimeError: {str(e)[:200]}")]
                res = None
            else:
                exp = "no exception" if exp_exc is None else f"RuntimeError (torch: {exp_exc})"
                return [("raises", f"observed {type(e).__name__}: {str(e)[:200]}; expected {exp}"
                         + ("" if want is None or not isinstance(want, torch.Tensor) else f", value {want.tolist()}"))]
        else:
            if exp_exc is not None:
                return [("raises", f"observed no exception; torch raises {type(exp_exc).__name__}: {str(exp_exc)[:160]}")]
        if res is not None:
            if o.kind in ("pt", "reshape"):
                if not isinstance(res, I.PatternedTensor):
                    out.append(("value", f"result is {type(res).__name__}"))
                else:
                    try:
                        # constructions are validated by the hook; in-place results are re-validated here
                        if o.inplace or not I._FGGS_VERIF: I._verif_check_rep(res)
                    except I.RepInvariantError as e:
                        out.append(("wf", f"RepInvariantError: {e}"))
                    else:
                        try:
                            got = res.to_dense()
                        except Exception as e:
                            out.append(("value", f"to_dense() of the result raised {type(e).__name__}: {str(e)[:200]}; "
                                                 f"result default {res.default}; expected {want.tolist()}"))
                        else:
                            c = cmp_dense(got, want, o.arith, o.atol, o.dtype)
                            if c: out.append(c)
                            if o.post and not c:
                                m = o.post(Tw, args, res)
                                if m: out.append(("post", m))
            elif o.kind == "tensor":
                c = cmp_dense(res, want, o.arith, o.atol)
                if c: out.append(c)
            elif o.kind == "ptlist":
                if len(res) != len(want):
                    out.append(("shape", f"observed {len(res)} items expected {len(want)}"))
                else:
                    for i, (x, w) in enumerate(zip(res, want)):
                        try:
                            I._verif_check_rep(x)
                        except I.RepInvariantError as e:
                            out.append(("wf", f"item {i}: {e}")); break
                        c = cmp_dense(x.to_dense(), w, False)
                        if c:
                            out.append((c[0], f"item {i}: {c[1]}")); break
            elif o.kind == "pylist":
                if not list_same(res, want):
                    out.append(("value", f"observed {res} expected {want}"))
            elif o.kind == "py":
                if res != want:
                    out.append(("value", f"observed {res} expected {want}"))
        # frame: operands untouched (for in-place ops: the original of the clone, and the other operands)
        for i, (t, s, d) in enumerate(zip(T, snaps, D)):
            m = _frame_violation(t, s, d)
            if m: out.append(("frame", f"operand {i}: {m}"))
        if o.inplace and res is not None and name != "copy_" and not name.endswith("tensor"):
            if res is not Tw[0]:
                out.append(("post", "in-place op did not return self"))
        if name == "copy_" and res is not None and not out:
            # src must not alias the overwritten tensor
            try:
                Tw[0].neg_()
                m = _frame_violation(T[1], snaps[1], D[1])
                if m: out.append(("frame", f"after copy_, mutating self changes src: {m}"))
            except RuntimeError:
                pass
    return out


# ------------------------------------------------------------------------------------ programs
def _step(x, d, name, args):
    """apply one program step to (patterned x, dense d)"""
    o = OPS[name]
    if o.inplace:
        x = x.clone(); d = d.clone()
    want = o.dn([d], args)
    got = o.pt([x], args)
    return got, want


def run_prog(recipe: dict, prog: list) -> List[Tuple[str, str]]:
    from fggs import indices as I
    with typed_scope():
        x = build_pt(recipe); d = dense_oracle(recipe)
        for i, (name, args) in enumerate(prog):
            try:
                want = None
                o = OPS[name]
                dd = d.clone() if o.inplace else d
                want = o.dn([dd], args)
            except Exception as e:
                return []  # step not applicable to this shape: program skipped
            try:
                xx = x.clone() if o.inplace else x
                got = o.pt([xx], args)
            except I.RepInvariantError as e:
                return [(f"{name}.wf", f"step {i}: RepInvariantError: {e}")]
            except RuntimeError as e:
                if o.kind == "reshape": return []
                return [(f"{name}.raises", f"step {i}: RuntimeError: {str(e)[:200]}")]
            except Exception as e:
                return [(f"{name}.raises", f"step {i}: {type(e).__name__}: {str(e)[:200]}")]
            try:
                I._verif_check_rep(got)
            except I.RepInvariantError as e:
                return [(f"{name}.wf", f"step {i}: {e}")]
            try:
                gd = got.to_dense()
            except Exception as e:
                return [(f"{name}.value", f"step {i}: to_dense raised {type(e).__name__}: {str(e)[:160]}")]
            c = cmp_dense(gd, want, True, True, o.dtype)
            if c:
                return [(f"{name}.{c[0]}", f"step {i}: {c[1]}")]
            x, d = got, want
    return []


# ------------------------------------------------------------------------------------ check_case / replay
def check_case(case: dict) -> List[Tuple[str, str]]:
    """-> list of (obligation, detail)"""
    _MISMATCH[0] = 0
    if "prog" in case:
        res = run_prog(case["ops"][0], case["prog"])
    else:
        res = [(f"{case['op']}.{cl}", det) for cl, det in run_op(case["op"], case["ops"], case.get("args", []), case.get("share"))]
    twin = _fresh_twin(case)
    if twin is not None and (res or _MISMATCH[0]):
        # The case names its operands / projection target with shared PhysicalAxis objects.  Its twin is the same case
        # written with fresh axes, which must behave identically.  (a) Whether the operands are ill-typed is decided on
        # the twin: a type-mismatch diagnosis that appears only under shared names is name capture, not a reason to skip.
        # (b) A failure that the twin does not show is marked, so that it is keyed as a renaming-apart failure and cannot
        # be confused with a (name-independent) failure class of the same exception type.
        mm = _MISMATCH[0]
        tw = check_case(twin)
        tw_mm = _MISMATCH[0]
        _MISMATCH[0] = mm if tw_mm else 0
        if res and not tw and not tw_mm:
            res = [(ob, ONLY_SHARED + det) for ob, det in res]
    # Operations that UNIFY their operands' axes (where, project) are only defined on operands of one index type;
    # when the library itself diagnoses a type mismatch there, the case is outside the property ("well-typed").
    # The elementwise binary operations anti-unify instead and must work on any same-shape operands: never skipped.
    unifying = ("where", "project", "project_view")
    names = [case.get("op")] + [st[0] for st in case.get("prog", [])]
    if _MISMATCH[0] and any(n in unifying for n in names if n):
        return []
    return res


ONLY_SHARED = "[only when the operands share PhysicalAxis objects; the same case with fresh axes passes] "


def _fresh_twin(case: dict) -> Optional[dict]:
    """the same case with every shared PhysicalAxis replaced by a fresh one (None if the case shares nothing)"""
    if "prog" in case: return None
    if case.get("share"):
        return {k: v for k, v in case.items() if k != "share"}
    a = case.get("args", [])
    if case.get("op") == "project" and len(a) > 1 and isinstance(a[1], dict):
        return {"op": "project", "ops": case["ops"], "args": [a[0]]}
    if case.get("op") == "project_view":
        q = _view_recipe(case["ops"][0], a[0])
        return {"op": "project", "ops": case["ops"], "args": [{"pool": q["pool"], "vaxes": q["vaxes"]}]}
    return None


def replay_case(case: dict) -> bool:
    v = check_case(case)
    want = case.get("_obligation")
    print("case:", json.dumps({k: x for k, x in case.items() if not k.startswith("_")})[:1500])
    if not v:
        print("no violation observed")
        return False
    for ob, det in v:
        print(f"VIOLATED {ob}: {det}")
    return True if want is None else any(ob == want for ob, _ in v) or bool(v)


# ------------------------------------------------------------------------------------ failure keys
DEFAULT_SENSITIVE = {"log_softmax", "norm", "relu_", "maximum", "maximum_self", "nan_to_num_", "log", "log_", "log1p_"}


def _has_sum0(a) -> bool:
    if a[0] == "P": return False
    if a[0] == "*": return any(_has_sum0(f) for f in a[1])
    return (a[1] == 0 and a[3] == 0) or _has_sum0(a[2])


def _key(obl: str, case: dict, detail: str) -> str:
    """stable key of the failing input class: clause, exception type, and the feature of the
       input that selects the faulty branch"""
    rs = case["ops"]
    exc = ""
    if obl.endswith(".raises") or obl.endswith(".wf") or "raised" in detail:
        for word in detail.replace(":", " ").replace(";", " ").split():
            if word.endswith("Error") or word.endswith("Exception"):
                exc = word; break
    opn, clause = obl.split(".")[0], obl.split(".")[-1]
    if detail.startswith(ONLY_SHARED):
        # a failure that exists only under shared axis names: its own class, whatever the exception type
        return obl + "|shared-axes|" + ("raised" if exc else "wrong-result")
    tags = [exc] if exc else []
    if "prog" in case:
        return obl + "|" + "|".join(tags + ["in-program"])
    dcl = "default=" + ",".join(dclass(r.get("default", 0)) for r in rs)
    if exc == "ZeroDivisionError":
        pass
    elif opn in ("log", "log_", "log1p_") and exc == "ValueError":
        tags.append(dcl)
    elif opn in ("log_softmax", "norm") and not exc:
        args = case.get("args", [])
        dim = args[0] if opn == "log_softmax" else args[1]
        tags.append("dim-of-size-1" if shape_of(rs[0])[dim] == 1 else dcl)
    elif opn in ("maximum", "maximum_self") and clause == "value":
        tags.append("a-default-is-nan" if "nan" in dcl else dcl)
    elif opn in DEFAULT_SENSITIVE and clause == "value" and opn != "nan_to_num_":
        tags.append(dcl)
    elif opn == "nan_to_num_":
        a = case.get("args", [None, None, None])
        tags += ["neginf-given" if a[2] is not None else "neginf=None", rs[0].get("dtype", "float64")]
    else:
        if any(0 in r["pool"] for r in rs): tags.append("zero-size-axis")
        if any(_has_sum0(x) for r in rs for x in r["vaxes"]): tags.append("SumAxis(0,e,0)")
    return obl + "|" + "|".join(tags)


# ------------------------------------------------------------------------------------ unit generators
def _rng(seed: int, salt: str) -> random.Random:
    h = hashlib.sha256(f"{seed}:C06:{salt}".encode()).hexdigest()
    return random.Random(int(h[:16], 16))


def _nontrivial(r) -> bool:
    """the operand is not the plain dense pattern: some element is default-backed, or an axis is a
       product/sum, or an axis is shared, or storage is not contiguous"""
    if r.get("storage", "contig") != "contig": return True
    return any(a[0] != "P" and a != G.UNIT for a in r["vaxes"]) or \
        len([i for a in r["vaxes"] for i in G.ax_fv(a)]) != len(r["pool"])


def _shapes(tier: str, numel_max: int, ndim_max: int = 3, zero: bool = True):
    s = all_shapes(numel_max, ndim_max)
    if zero: s += [(0,), (0, 2), (2, 0)]
    return s


def _perms(n):
    return [list(p) for p in itertools.permutations(range(n))]


def _targets(shape: Tuple[int, ...], ndim_max: int = 3) -> List[List[int]]:
    n = G._prod(shape)
    out = []
    for nd in range(0, ndim_max + 1):
        for s in itertools.product(range(0, max(n, 1) + 1), repeat=nd):
            if G._prod(s) == n: out.append(list(s))
    return out


def _share_maps(pool_t, pool_s, cap: Optional[int] = None) -> List[List[Optional[int]]]:
    """all non-empty injective partial maps {pool entry of the target -> equally sized pool entry of the source}
       (lists; None = fresh axis), the most-sharing and in-order ones first; cap: the first one plus an even spread"""
    out: List[List[Optional[int]]] = []

    def rec(m, cur, used):
        if m == len(pool_t):
            if any(x is not None for x in cur): out.append(list(cur))
            return
        rec(m + 1, cur + [None], used)
        for i, n in enumerate(pool_s):
            if i not in used and n == pool_t[m] and n != 0:
                rec(m + 1, cur + [i], used | {i})
    rec(0, [], frozenset())
    out.sort(key=lambda sm: (-sum(x is not None for x in sm), [99 if x is None else x for x in sm]))
    if cap is not None and len(out) > cap:
        idx = sorted({0} | {round(k * (len(out) - 1) / (cap - 1)) for k in range(cap)}) if cap > 1 else [0]
        out = [out[i] for i in idx]
    return out


def _renamings(pat) -> List[dict]:
    """the patterns obtained from `pat` by renaming its pool entries with a permutation tau (entry i becomes entry
       tau[i]; the pool is reordered accordingly).  All of them denote the same set of backed elements."""
    n = len(pat["pool"])
    res = []

    def ren(a, tau):
        if a[0] == "P": return ["P", tau[a[1]]]
        if a[0] == "*": return ["*", [ren(f, tau) for f in a[1]]]
        return ["+", a[1], ren(a[2], tau), a[3]]
    for tau in itertools.permutations(range(n)):
        pool2 = [0] * n
        for i in range(n): pool2[tau[i]] = pat["pool"][i]
        res.append({"pool": pool2, "vaxes": [ren(a, tau) for a in pat["vaxes"]], "storage": pat.get("storage", "contig")})
    return res


def _distinct_data(r, rng: random.Random):
    """pairwise distinct finite data (a misplaced element cannot go unnoticed); bool / int64 recipes are left alone"""
    if r.get("dtype", "float64") not in ("float64", "float32"): return r
    n = len(r["data"])
    r = dict(r)
    r["data"] = rng.sample(G._FINITE, n) if n <= len(G._FINITE) else [0.125 * (k + 41) for k in range(n)]
    return r


def _share_arg(sm, o=0):
    return [[o, x] if x is not None else None for x in sm]


def gen_alias(unit: dict):
    """operands and projection targets that mention the same PhysicalAxis objects (see build_operands)"""
    tier, seed = unit["tier"], unit["seed"]
    th = tier == "thorough"
    sa, sb = tuple(unit["shape"]), tuple(unit.get("shape2", unit["shape"]))
    rng = _rng(seed, f"alias:{sa}:{sb}")
    bc = sa != sb
    nz = lambda pp: [p for p in pp if 0 not in p["pool"]]       # zero-size axes: known finding, not mixed in here
    pa, pb = nz(patterns_for_shape(sa, tier)), nz(patterns_for_shape(sb, tier))
    stride = unit.get("stride", 1)
    if th: stride = max(stride, (len(pa) * len(pb)) // 1200)      # thorough: <= ~1200 (p, q) pattern pairs per unit
    cap = 8 if th else 3
    others = [0.0, 1.0, -inf, inf, 2.5, nan]
    ident = [("add", 0.0), ("mul", 1.0), ("sub", 0.0), ("div", 1.0), ("logaddexp", -inf), ("maximum", -inf)]
    cmpn = ("lt", "le", "gt", "ge", "eq")
    nd = len(sa)
    fa = [_distinct_data(fill_data(p, rng, dtype="float64", default=DEFAULTS7[i % 7]), rng) for i, p in enumerate(pa)]
    n = 0
    for i, p in enumerate(pa):
        if i % unit.get("parts", 1) != unit.get("part", 0): continue
        r = fa[i]
        # candidates for the other operand / the projection target: every renaming of p itself (the patterns of its
        # own permuted views, products taken in another order, ...) and every pattern of the set with a common type
        cands = [] if bc else [(q, True) for q in _renamings(p)]
        cands += [(q, False) for j, q in enumerate(pb) if G.compatible(p, q, broadcast=bc) and (i * 7 + j) % stride == 0]
        for ci, (q, isren) in enumerate(cands):
            maps = _share_maps(q["pool"], p["pool"], None if (isren and len(q["pool"]) <= 2) else cap)
            if not maps: continue
            n += 1
            rq = _distinct_data(fill_data(q, rng, dtype="float64"), rng)
            bq = fill_data(q, rng, dtype="bool")
            br = fill_data(p, rng, dtype="bool")
            for mi, sm in enumerate(maps):
                k = i + ci + mi
                if not bc:
                    # -- project onto a target written with the tensor's own axis objects
                    for dflt in ((r["default"], 0.0) if mi == 0 else (r["default"],)):
                        r1 = dict(r); r1["default"] = dflt
                        yield {"op": "project", "ops": [r1], "args": [{"pool": q["pool"], "vaxes": q["vaxes"]}, {"share": sm}]}
                        if r.get("storage", "contig") != "contig" or th:
                            r2 = dict(r1); r2["dtype"] = "float32"
                            yield {"op": "project", "ops": [r2], "args": [{"pool": q["pool"], "vaxes": q["vaxes"]}, {"share": sm}]}
                share = [_share_arg(sm)]
                x = others[k % 6]; y = others[(3 * i + ci + 2 * mi + 1) % 6]
                # -- binary ops: the second operand is named with the first one's axes
                for oi, (name, idv) in enumerate(ident):
                    dps = [(idv, idv), (idv, x), (x, idv), (x, y)]
                    for da, db in ([dps[(k + oi) % 4], dps[(k + oi + 2) % 4]] if th else [dps[(k + oi) % 4]]):
                        ra = dict(r); ra["default"] = enc(da)
                        rb = dict(rq); rb["default"] = enc(db)
                        yield {"op": name, "ops": [ra, rb], "args": [], "share": share}
                        if th or (k + oi) % 3 == 0:          # ... and the other way round
                            smi = [None] * len(p["pool"])
                            for m, v in enumerate(sm):
                                if v is not None: smi[v] = m
                            yield {"op": name, "ops": [rb, ra], "args": [], "share": [_share_arg(smi)]}
                ra = dict(r); ra["default"] = enc(x)
                rb = dict(rq); rb["default"] = enc(y)
                yield {"op": ["__add__", "__mul__", "__sub__", "__truediv__"][k % 4], "ops": [ra, rb], "args": [], "share": share}
                for name in (cmpn if th else (cmpn[k % 5],)):
                    yield {"op": name, "ops": [ra, rb], "args": [], "share": share}
                if sa == sb or len(sb) <= len(sa) and all(b in (1, a) for a, b in zip(reversed(sa), reversed(sb))):
                    yield {"op": ["__imul__tensor", "__itruediv__tensor"][k % 2], "ops": [ra, rb], "args": [], "share": share}
                b1 = dict(br); b1["default"] = bool(k % 2)
                b2 = dict(bq); b2["default"] = bool((k // 2) % 2)
                yield {"op": ["logical_and", "logical_or"][k % 2], "ops": [b1, b2], "args": [], "share": share}
                # -- copy_ from a source named with self's axes
                yield {"op": "copy_", "ops": [ra, rb], "args": [], "share": share}
                if bc:
                    if len(sa) <= len(sb) and all(a in (1, b) for a, b in zip(reversed(sa), reversed(sb))):
                        yield {"op": "expand_as", "ops": [ra, rb], "args": [], "share": share}
                    continue
                # -- stack of tensors named with each other's axes (equal defaults, not NaN)
                dflt = r["default"] if dec(r["default"]) == dec(r["default"]) else 2.5
                ri = dict(r); ri["default"] = dflt
                rj = dict(rq); rj["default"] = dflt
                yield {"op": "stack", "ops": [ri, rj], "args": [k % (nd + 1)], "share": share}
                q3, _ = cands[(ci + 1 + mi) % len(cands)]
                m3 = _share_maps(q3["pool"], q["pool"], 2)
                m3b = _share_maps(q3["pool"], p["pool"], 2)
                r3 = _distinct_data(fill_data(q3, rng, dtype="float64"), rng); r3["default"] = dflt
                sh3 = _share_arg(m3[-1], 1) if (m3 and k % 2) else (_share_arg(m3b[0], 0) if m3b else None)
                yield {"op": "stack", "ops": [ri, rj, r3], "args": [(k + 1) % (nd + 1)], "share": [share[0], sh3]}
                # -- where(t, c, u): c named with t's axes; u named with t's or c's
                for cd in ((False, True) if (th or mi == 0) else (bool(k % 2),)):
                    rc = dict(bq); rc["default"] = cd
                    ru = dict(r3); ru["default"] = enc(y)
                    yield {"op": "where", "ops": [ra, rc, ru], "args": [], "share": [share[0], sh3]}
                    yield {"op": "where", "ops": [ra, rc, dict(rb, default=enc(others[(k + 2) % 6]))], "args": [],
                           "share": [None, _share_arg(sm, 0)] if k % 2 else [share[0], _share_arg([m if v is not None else None for m, v in enumerate(sm)], 1)]}
        # -- the library's own views of the tensor (they keep its axis objects)
        views = [["T", []], ["T.abs", []]] + ([["t", []]] if nd <= 2 else []) \
            + [["transpose", [d0, d1]] for d0 in range(nd) for d1 in range(d0 + 1, nd)] \
            + ([["permute", [pm]] for pm in _perms(nd) if pm != list(range(nd))] if nd >= 3 else [])
        if bc: views = []
        for vi, v in enumerate(views):
            try:
                qv = _view_recipe(r, v)
            except IndexError:
                continue
            if shape_of(qv) != sa: continue
            for dflt in (r["default"], 0.0):
                r1 = dict(r); r1["default"] = dflt
                if v[0] != "T.abs" and G.compatible(r, qv):
                    yield {"op": "project_view", "ops": [r1], "args": [v]}
                for name in ("add", "mul", "sub", "div", "logaddexp", "maximum", "lt", "eq"):
                    yield {"op": name + "_view", "ops": [r1], "args": [v]}
                if dec(dflt) == dec(dflt) and (v[0] != "T.abs" or dec(dflt) >= 0):      # stack requires equal defaults
                    yield {"op": "stack_view", "ops": [r1], "args": [v, (i + vi) % (nd + 1), bool((i + vi) % 2)]}
            # ... and after one more step (the first step may itself rename or reuse axes)
            firsts = [["abs", []], ["T", []], ["flatten", []], ["unsqueeze", [0]], ["clone", []], ["default_to", [1.0]],
                      ["dim_to_dense", [0]], ["dim_to_dense", [nd - 1]], ["expand", [[2] + list(sa)]], ["neg_", []],
                      ["__getitem__", [0]], ["reshape", [[-1], "list"]], ["permute", [list(reversed(range(nd)))]]]
            if vi == 0:
                for st in firsts:
                    for name in ("add_view", "maximum_view", "sub_view", "stack_view"):
                        if name == "stack_view" and dec(r["default"]) != dec(r["default"]): continue   # NaN != NaN
                        for v2 in ([["T", []], ["transpose", [0, nd]]] if st[0] in ("unsqueeze", "expand") else [["T", []]]):
                            a2 = [v2] if name != "stack_view" else [v2, 0, False]
                            yield {"prog": [list(st), [name, a2]], "ops": [r]}


def gen_unit(unit: dict):
    """yield (group-internal) cases of a work unit, deterministically"""
    kind, tier, seed = unit["kind"], unit["tier"], unit["seed"]
    th = tier == "thorough"
    if kind == "alias":
        yield from gen_alias(unit)
        return
    if kind in ("unary", "struct"):
        shape = tuple(unit["shape"])
        rng = _rng(seed, f"{kind}:{shape}:{unit.get('part', 0)}")
        pats = patterns_for_shape(shape, tier)
        for pi, p in enumerate(pats):
            if pi % unit.get("parts", 1) != unit.get("part", 0): continue
            if kind == "unary" and not th and len(shape) == 3 and pi % 3 != 1 and pi != 0: continue   # elementwise maps ignore the pattern
            fdt = "float32" if pi % 3 == 2 else "float64"
            if kind == "unary":
                for dflt in DEFAULTS7:
                    r = fill_data(p, rng, dtype=fdt, default=dflt)
                    for name in ("abs", "exp", "expm1", "log", "neg_", "log_", "log1p_", "relu_", "abs_"):
                        yield {"op": name, "ops": [r], "args": []}
                    for a in NAN_TO_NUM_ARGS:
                        yield {"op": "nan_to_num_", "ops": [r], "args": a}
                    di7 = DEFAULTS7.index(dflt) if dflt == dflt else 6
                    for s in (SCALARS if (pi % (2 if th else 8) == 0) else [SCALARS[(pi + di7) % 5]]):
                        for name in ("lt", "le", "gt", "ge", "eq", "add", "mul", "sub", "div"):
                            yield {"op": name + "_scalar", "ops": [r], "args": [enc(s)]}
                        for name in ("clamp_min", "clamp_max", "__imul__scalar", "__itruediv__scalar"):
                            yield {"op": name, "ops": [r], "args": [enc(s)]}
                    s = SCALARS[pi % len(SCALARS)]
                    for name in ("__add__scalar", "__sub__scalar", "__mul__scalar", "__truediv__scalar"):
                        yield {"op": name, "ops": [r], "args": [enc(s)]}
                    yield {"op": "to", "ops": [r], "args": ["float32" if fdt == "float64" else "float64"]}
                    yield {"op": "to", "ops": [r], "args": ["bool"]}
                for dflt in (False, True):
                    r = fill_data(p, rng, dtype="bool", default=dflt)
                    yield {"op": "logical_not", "ops": [r], "args": []}
                    yield {"op": "to", "ops": [r], "args": ["float64"]}
                    for s in (0, 1):
                        yield {"op": "eq_scalar", "ops": [r], "args": [s]}
                for dflt in (0, 3, -2):
                    r = fill_data(p, rng, dtype="int64", default=dflt)
                    yield {"op": "to", "ops": [r], "args": ["float64"]}
                    yield {"op": "abs", "ops": [r], "args": []}
                    for s in (0, 1, -1):
                        for name in ("lt", "eq", "ge", "add", "mul", "sub"):
                            yield {"op": name + "_scalar", "ops": [r], "args": [s]}
                # float -> int64 only on finite data / default (the conversion of inf/NaN is undefined)
                r = fill_data(p, rng, special=False, dtype=fdt, default=2.5)
                yield {"op": "to", "ops": [r], "args": ["int64"]}
            else:  # structural
                nd = len(shape)
                dfl = DEFAULTS7 if pi % 4 == 0 else [DEFAULTS7[pi % 7], DEFAULTS7[(pi + 3) % 7]] + ([DEFAULTS7[(pi + 5) % 7]] if th else [])
                for di, dflt in enumerate(dfl):
                    r = fill_data(p, rng, dtype=fdt, default=dflt)
                    full = di == 0 or (th and pi % 4 == 0)
                    one = lambda name, args=[]: {"op": name, "ops": [r], "args": args}
                    for name in ("T", "flatten", "clone", "freshen", "detach", "to_dense", "tolist", "__len__" if nd else "T"):
                        yield one(name)
                    if nd <= 2: yield one("t")
                    if nd >= 1: yield one("__iter__")
                    yield one("project", [{"pool": r["pool"], "vaxes": r["vaxes"]}, "alias"])
                    for d2 in ([0.0, 1.0, -inf, nan, dflt] if full else [0.0, dflt]):
                        yield one("default_to", [enc(d2)])
                    for dim in (range(-nd - 1, nd + 1) if full else sorted({0, nd, -1, -nd - 1})):
                        yield one("unsqueeze", [dim])
                    for dim in range(nd):
                        yield one("dim_to_dense", [dim])
                        yield one("log_softmax", [dim])
                        if full: yield one("log_softmax", [dim - nd])
                        for pn, kd in (((1, False), (1, True), (2, False), (2, True)) if full else ((1, bool(di % 2)), (2, not di % 2))):
                            yield one("norm", [pn, dim, kd])
                        if full: yield one("norm", [2, dim - nd, False])
                    if full:
                        for perm in _perms(nd):
                            yield one("permute", [perm])
                        for d0 in range(nd):
                            for d1 in range(nd):
                                yield one("transpose", [d0, d1])
                        # indexing: every index prefix
                        for k in range(1, nd + 1):
                            for idx in itertools.product(*[range(n) for n in shape[:k]]):
                                yield one("__getitem__", [list(idx)])
                        for i in range(shape[0] if nd else 0):
                            yield one("__getitem__", [i])
                        # expand: valid and invalid sizes
                        cands = []
                        for lead in ([], [2], [3, 1]):
                            for tail in itertools.product(*[([1, 2] if n == 1 else [n, 1]) for n in shape]):
                                cands.append(lead + list(tail))
                        cands.append([2] + [n + 1 for n in shape])   # size mismatch
                        if nd: cands.append(list(shape[1:]))         # too few sizes
                        for sizes in cands:
                            if G._prod(sizes) <= 24:
                                yield one("expand", [sizes])
                        yield one("repeat_as_expand", [[2] + list(shape)])
                        # reshape / view: every target shape of equal numel (ndim <= 3), plus -1 inference
                        for tgt in _targets(shape):
                            yield one("reshape", [tgt, "list"])
                            yield one("view", [tgt, "list"])
                            if len(tgt) >= 1 and 0 not in tgt:
                                t2 = list(tgt); t2[len(t2) // 2] = -1
                                yield one("reshape", [t2, "star"])
                        if len(shape) <= 3 and 0 not in shape:
                            yield one("reshape", [list(shape) + [1], "list"])
                            yield one("reshape", [[1] + list(shape), "star"])
                            yield one("view", [[-1], "list"])
                    else:
                        yield one("permute", [list(reversed(range(nd)))])
                        if nd: yield one("__getitem__", [shape[0] - 1]) if shape[0] else one("T")
                        yield one("reshape", [[-1], "list"])
                # bool: any
                for dflt in (False, True):
                    r = fill_data(p, rng, dtype="bool", default=dflt)
                    for dim in range(nd):
                        for kd in (False, True):
                            yield {"op": "any", "ops": [r], "args": [dim, kd]}
                    yield {"op": "tolist", "ops": [r], "args": []}
                    yield {"op": "clone", "ops": [r], "args": []}
                r = fill_data(p, rng, dtype="int64", default=3)
                yield {"op": "tolist", "ops": [r], "args": []}
                yield {"op": "T", "ops": [r], "args": []}
    elif kind == "binary":
        sa, sb = tuple(unit["shape"]), tuple(unit["shape2"])
        rng = _rng(seed, f"binary:{sa}:{sb}")
        parts, part = unit.get("parts", 1), unit.get("part", 0)
        pa, pb = patterns_for_shape(sa, tier), patterns_for_shape(sb, tier)
        fa = [fill_data(p, rng, dtype="float64") for p in pa]
        fb = [fill_data(p, rng, dtype="float64") for p in pb]
        ba = [fill_data(p, rng, dtype="bool") for p in pa]
        bb = [fill_data(p, rng, dtype="bool") for p in pb]
        ident = {"add": 0.0, "mul": 1.0, "sub": 0.0, "div": 1.0, "logaddexp": -inf, "maximum": -inf}
        others = [0.0, 1.0, -inf, inf, 2.5, nan]
        stride = unit.get("stride", 1)
        if th: stride = max(stride, (len(pa) * len(pb)) // 1500)      # thorough: <= ~1500 pattern pairs per shape pair
        n = 0
        for i, j in itertools.product(range(len(pa)), range(len(pb))):
            n += 1
            if (i * 7 + j) % stride: continue
            if (i + j) % parts != part: continue
            if not G.compatible(pa[i], pb[j], broadcast=(sa != sb)):
                # A pair whose axes have the same sizes but different sum/product structure.  The elementwise binary
                # operations never unify such axes (they anti-unify: the result pattern is the least general
                # generalisation), so they must still denote the dense result; every third such pair is kept.
                if sa != sb or (i + 2 * j) % 3: continue
                if any(0 in pp["pool"] for pp in (pa[i], pb[j])): continue      # zero-size axes: known finding
            x = others[(i + 2 * j) % 6]; y = others[(3 * i + j + 1) % 6]
            for oi, (name, idv) in enumerate(ident.items()):
                dps = [(idv, idv), (idv, x), (x, idv), (x, y)]
                if th: dps += [(y, x), (inf, idv), (idv, nan)]
                else: dps = [dps[(i + j + oi) % 4], dps[(i + j + oi + 1 + (i % 3 == 0)) % 4]]
                for (da, db) in dps:
                    ra = dict(fa[i]); ra["default"] = enc(da)
                    rb = dict(fb[j]); rb["default"] = enc(db)
                    yield {"op": name, "ops": [ra, rb], "args": []}
            # operator forms, in-place forms, comparisons: one default pair each
            ra = dict(fa[i]); ra["default"] = enc(x)
            rb = dict(fb[j]); rb["default"] = enc(y)
            opn = ["__add__", "__mul__", "__sub__", "__truediv__"][(i + j) % 4]
            yield {"op": opn, "ops": [ra, rb], "args": []}
            cmpn = ("lt", "le", "gt", "ge", "eq")
            for name in (cmpn if th else (cmpn[(i + j) % 5], cmpn[(i + 2 * j + 2) % 5])):
                yield {"op": name, "ops": [ra, rb], "args": []}
            if sa == sb or len(sb) <= len(sa) and all(b in (1, a) for a, b in zip(reversed(sa), reversed(sb))):
                yield {"op": ["__imul__tensor", "__itruediv__tensor"][(i + j) % 2], "ops": [ra, rb], "args": []}
            bd = ((False, False), (False, True), (True, False), (True, True))
            for da, db in (bd if th else (bd[(i + j) % 4], bd[(i + j + 1 + j % 2) % 4])):
                ra = dict(ba[i]); ra["default"] = da
                rb = dict(bb[j]); rb["default"] = db
                yield {"op": "logical_and", "ops": [ra, rb], "args": []}
                yield {"op": "logical_or", "ops": [ra, rb], "args": []}
    elif kind == "where":
        sa, sb, sc = tuple(unit["shape"]), tuple(unit["shape2"]), tuple(unit["shape3"])
        rng = _rng(seed, f"where:{sa}:{sb}:{sc}")
        pt_, pc, pu = patterns_for_shape(sa, tier), patterns_for_shape(sb, tier), patterns_for_shape(sc, tier)
        ft = [fill_data(p, rng, dtype="float64") for p in pt_]
        fc = [fill_data(p, rng, dtype="bool") for p in pc]
        fu = [fill_data(p, rng, dtype="float64") for p in pu]
        others = [0.0, 1.0, -inf, inf, 2.5, nan]
        for i, j in itertools.product(range(len(pt_)), range(len(pc))):
            ks = sorted({(i + j) % len(pu), (3 * i + 5 * j + 1) % len(pu), 0} | ({(7 * i + j + 2) % len(pu), (i + 11 * j + 3) % len(pu), len(pu) - 1} if th else set()))
            if th and (i * 5 + j) % max(1, (len(pt_) * len(pc)) // 3000): continue
            for k in ks:
                if not (G.compatible(pt_[i], pc[j], True) and G.compatible(pc[j], pu[k], True) and G.compatible(pt_[i], pu[k], True)):
                    continue                                                        # ill-typed triple
                for cd in (False, True):
                    rt = dict(ft[i]); rt["default"] = enc(others[(i + j + k) % 6])
                    rc = dict(fc[j]); rc["default"] = cd
                    ru = dict(fu[k]); ru["default"] = enc(others[(2 * i + j + 3 * k + 1) % 6])
                    yield {"op": "where", "ops": [rt, rc, ru], "args": []}
    elif kind == "pairs":      # copy_, project, expand_as, stack over pairs / triples of one shape
        shape = tuple(unit["shape"])
        rng = _rng(seed, f"pairs:{shape}")
        pats = patterns_for_shape(shape, tier)
        f = [fill_data(p, rng, dtype="float64", default=DEFAULTS7[i % 7]) for i, p in enumerate(pats)]
        nd = len(shape)
        for i, j in itertools.product(range(len(pats)), repeat=2):
            if th and (i * 3 + j) % max(1, (len(pats) ** 2) // 6000): continue
            dflt = f[i]["default"]
            if dec(dflt) != dec(dflt): dflt = 2.5      # stack requires equal defaults: NaN is not meaningful
            if G.compatible(pats[i], pats[j]):
                yield {"op": "project", "ops": [f[i]], "args": [{"pool": pats[j]["pool"], "vaxes": pats[j]["vaxes"]}]}
            if not G.compatible(pats[i], pats[j]): continue
            ri = dict(f[i]); ri["default"] = dflt
            rj = dict(f[j]); rj["default"] = dflt
            for dim in ([0, nd] if not th else range(nd + 1)):
                yield {"op": "stack", "ops": [ri, rj], "args": [dim]}
            k = (i + 2 * j + 1) % len(pats)
            if G.compatible(pats[i], pats[k]) and G.compatible(pats[j], pats[k]):
                rk = dict(f[k]); rk["default"] = dflt
                yield {"op": "stack", "ops": [ri, rj, rk], "args": [(i + j) % (nd + 1)]}
        for i in range(len(pats)):
            yield {"op": "stack", "ops": [f[i]], "args": [i % (nd + 1)]}
            if dec(f[i]["default"]) == dec(f[i]["default"]):
                yield {"op": "stack", "ops": [f[i], f[i]], "args": [0]}
            for name in ("add_self", "mul_self", "sub_self", "maximum_self", "eq_self"):
                yield {"op": name, "ops": [f[i]], "args": []}
    elif kind == "copy":       # copy_ between any two patterns (any shapes)
        sa, sb = tuple(unit["shape"]), tuple(unit["shape2"])
        rng = _rng(seed, f"copy:{sa}:{sb}")
        pa, pb = patterns_for_shape(sa, tier), patterns_for_shape(sb, tier)
        fa = [fill_data(p, rng, dtype="float64", default=DEFAULTS7[i % 7]) for i, p in enumerate(pa)]
        fb = [fill_data(p, rng, dtype=("float32" if i % 4 == 3 else "float64"), default=DEFAULTS7[(i + 2) % 7])
              for i, p in enumerate(pb)]
        for i, j in itertools.product(range(len(pa)), range(len(pb))):
            if th and (i * 3 + j) % max(1, (len(pa) * len(pb)) // 3000): continue
            yield {"op": "copy_", "ops": [fa[i], fb[j]], "args": []}
            if sa != sb and len(sa) <= len(sb) and all(a in (1, b) for a, b in zip(reversed(sa), reversed(sb))):
                yield {"op": "expand_as", "ops": [fa[i], fb[j]], "args": []}
    elif kind == "prog":
        shape = tuple(unit["shape"])
        rng = _rng(seed, f"prog:{shape}:{unit.get('part', 0)}")
        pats = patterns_for_shape(shape, unit.get("ptier", tier))     # programs always run on the quick pattern set
        nd = len(shape)
        steps = [["abs", []], ["exp", []], ["neg_", []], ["relu_", []], ["abs_", []], ["T", []], ["flatten", []],
                 ["unsqueeze", [0]], ["unsqueeze", [-1]], ["permute", [list(reversed(range(nd)))]],
                 ["__getitem__", [0]], ["__getitem__", [max(shape[0] - 1, 0) if nd else 0]],
                 ["add_scalar", [1]], ["mul_scalar", [0]], ["mul_scalar", [-1]], ["lt_scalar", [0]], ["clamp_min", [0]],
                 ["clone", []], ["default_to", [1.0]], ["default_to", ["-inf"]], ["dim_to_dense", [0]],
                 ["dim_to_dense", [nd - 1]], ["reshape", [[-1], "list"]], ["reshape", [[-1, 1], "list"]],
                 ["reshape", [[1, -1], "list"]], ["expand", [[2] + list(shape)]], ["add_self", []], ["mul_self", []],
                 ["maximum_self", []], ["log_softmax", [0]], ["nan_to_num_", [0, "inf", None]], ["to", ["float32"]],
                 ["norm", [2, 0, True]], ["eq_self", []], ["expm1", []]]
        L = 3 if th else 2
        if not th:
            drop = {("abs_",), ("unsqueeze", -1), ("mul_scalar", -1), ("default_to", "-inf"), ("reshape", 1), ("mul_self",), ("expm1",), ("eq_self",)}
            steps = [st for st in steps if (st[0],) not in drop and not (st[0] == "unsqueeze" and st[1] == [-1])
                     and not (st[0] == "mul_scalar" and st[1] == [-1]) and not (st[0] == "default_to" and st[1] == ["-inf"])
                     and not (st[0] == "reshape" and st[1][0] == [1, -1])]
            if len(pats) > 12: pats = pats[::2]
        for pi, p in enumerate(pats):
            if pi % unit.get("parts", 1) != unit.get("part", 0): continue
            r = fill_data(p, rng, dtype="float64", default=DEFAULTS7[pi % 7])
            if L == 2:
                progs = itertools.product(steps, repeat=2)
            else:
                allp = list(itertools.product(steps, repeat=3))
                progs = [allp[k] for k in range((pi * 7) % 31, len(allp), 31)]
            for pr in progs:
                if len(steps) and pr[0][0] in ("lt_scalar", "eq_self") and pr[1][0] not in (
                        "T", "flatten", "unsqueeze", "permute", "__getitem__", "clone", "dim_to_dense", "reshape", "expand"):
                    continue   # float-only second step after a bool-valued first step
                yield {"prog": [list(s) for s in pr], "ops": [r]}


GROUP_OF = {"unary": "elementwise maps, scalar ops and in-place forms (default twin == physical twin)",
            "struct": "structural ops (permute transpose t T flatten unsqueeze expand getitem iter tolist any log_softmax norm dim_to_dense default_to project clone to reshape view)",
            "binary": "binary ops between two patterned tensors (add mul sub div logaddexp maximum logical_and/or lt le gt ge eq, in-place mul/div)",
            "where": "where(t, c, u) with a bool condition, incl. broadcasting",
            "pairs": "project / stack / self-aliased binary ops over pairs and triples of patterns",
            "copy": "copy_ and expand_as between patterns of any two shapes",
            "prog": "short programs (compositions of operations), denotation and wf after each step",
            "alias": "renaming apart: operands / projection targets / own views that share PhysicalAxis objects (project, binary ops, in-place forms, copy_, stack, where, expand_as)"}


def _run_unit(unit: dict) -> dict:
    torch.set_num_threads(1)
    from fggs import indices as I
    c0 = dict(I._verif_stats)
    t0 = time.time(); tp0 = time.process_time()
    cases = 0
    distinct = set()
    nontriv = 0
    fails = []
    per_key: Dict[str, int] = {}
    samples = []
    ops_seen: Dict[str, int] = {}
    for case in gen_unit(unit):
        cases += 1
        opn = case.get("op", "prog")
        ops_seen[opn] = ops_seen.get(opn, 0) + 1
        h = hashlib.md5(canonical(case).encode()).digest()[:8]
        if h not in distinct:
            distinct.add(h)
            if any(_nontrivial(r) for r in case["ops"]): nontriv += 1
        if cases in (2, 50) and len(samples) < 2: samples.append(case)
        try:
            v = check_case(case)
        except Exception as e:   # harness error: never silently dropped
            v = [(f"{opn}.harness", f"{type(e).__name__}: {e}")]
        for obl, det in v:
            k = _key(obl, case, det)
            per_key[k] = per_key.get(k, 0) + 1
            if per_key[k] <= 3:
                fails.append({"obligation": obl, "key": k, "case": case, "detail": det})
    c1 = I._verif_stats
    return {"kind": unit["kind"], "cases": cases, "distinct": len(distinct), "nontrivial": nontriv,
            "fails": fails, "per_key": per_key, "samples": samples, "ops": ops_seen,
            "checked": c1["checked"] - c0["checked"], "skipped": c1["skipped"] - c0["skipped"],
            "wall": time.process_time() - tp0, "unit": {k: v for k, v in unit.items()}}


def _bshapes(numel_max):
    return [s for s in all_shapes(numel_max, 2)] + [(1, 2, 2), (2, 1, 2), (2, 2, 1), (1, 1, 2)]


def _broadcast_pairs(numel_max):
    shapes = _bshapes(numel_max)
    out = []
    for a in shapes:
        for b in shapes:
            if a == b: continue
            try:
                r = torch.broadcast_shapes(a, b)
            except RuntimeError:
                continue
            if G._prod(r) <= numel_max: out.append((a, b))
    return out


def make_units(ctx: Ctx) -> List[dict]:
    tier, seed = ctx.tier, ctx.seed
    th = ctx.thorough
    U = []
    nmax = 8 if th else 6
    for s in _shapes(tier, 6):
        U.append({"kind": "unary", "shape": list(s)})
        U.append({"kind": "struct", "shape": list(s)})
    bmax = 6 if th else 4
    for s in _bshapes(bmax) + [(0,), (0, 2)]:
        U.append({"kind": "binary", "shape": list(s), "shape2": list(s)})
        U.append({"kind": "pairs", "shape": list(s)})
    for s in ([(6,), (2, 3), (3, 2), (5,)] if not th else []):       # covering pairs beyond the bound
        U.append({"kind": "binary", "shape": list(s), "shape2": list(s), "stride": 5})
    bp = _broadcast_pairs(bmax)
    for a, b in bp:
        U.append({"kind": "binary", "shape": list(a), "shape2": list(b), "stride": 1 if th else 3})
    for s in _bshapes(4):
        U.append({"kind": "where", "shape": list(s), "shape2": list(s), "shape3": list(s)})
    wb = [((2, 2), (2,), (2, 2)), ((2,), (2, 2), (1,)), ((), (2, 2), (2, 1)), ((1, 2), (2, 1), ()), ((2, 1), (2,), (2,)),
          ((3,), (1,), (3,)), ((1,), (3,), ()), ((2, 2), (2, 2), ()), ((), (2,), (2,)), ((1, 2, 2), (2,), (2, 1))]
    for a, b, c in wb:
        U.append({"kind": "where", "shape": list(a), "shape2": list(b), "shape3": list(c)})
    cs = [(), (2,), (4,), (2, 2), (1, 2), (3,), (2, 3), (6,), (0,)]
    for a in cs:
        for b in cs:
            U.append({"kind": "copy", "shape": list(a), "shape2": list(b)})
    for s in ([(), (2,), (3,), (4,), (2, 2), (1, 2), (2, 1), (2, 3), (6,), (1, 2, 2), (2, 1, 2), (0,), (0, 2)]
              if not th else _shapes(tier, 6)):
        U.append({"kind": "prog", "shape": list(s), "ptier": "quick"})
    # renaming apart: every shape of the binary bound, a few more with several equally sized axes, broadcasting pairs
    ashapes = _bshapes(bmax) + [s for s in ([(3, 3), (9,), (2, 2, 2), (8,)] if th else [(3, 3), (2, 2, 2)]) if s not in _bshapes(bmax)]
    for s in ashapes:
        U.append({"kind": "alias", "shape": list(s), "stride": 1 if G._prod(s) <= 4 else (2 if th else 4)})
    for a, b in bp:
        U.append({"kind": "alias", "shape": list(a), "shape2": list(b), "stride": 1 if th else 3})
    V = []
    for u in U:
        n = max(len(patterns_for_shape(tuple(u["shape"]), tier)), len(patterns_for_shape(tuple(u.get("shape2", u["shape"])), tier)))
        parts = 1
        if u["kind"] in ("unary", "struct", "prog") and n > 12: parts = 3 if not th else 8
        if u["kind"] == "alias" and n > 12: parts = 4 if not th else 12
        if u["kind"] == "binary" and n > 20 and u.get("stride", 1) == 1: parts = 6 if not th else 12
        for part in range(parts):
            v = dict(u); v["parts"] = parts; v["part"] = part; V.append(v)
    for u in V:
        u["tier"] = tier; u["seed"] = seed
    return V


def run_bounded(ctx: Ctx) -> Report:
    import multiprocessing as mp
    t0 = time.time()
    torch.set_num_threads(1)
    rep = Report(property_id="C06", level="exploration")
    units = make_units(ctx)
    # heavy units first
    order = sorted(range(len(units)), key=lambda i: -{"prog": 5, "binary": 4, "struct": 3, "where": 3, "unary": 2, "pairs": 2, "copy": 1, "alias": 4}[units[i]["kind"]])
    mpctx = mp.get_context("fork")
    with mpctx.Pool(max(1, ctx.jobs)) as pool:
        res_unordered = pool.map(_run_unit, [units[i] for i in order], chunksize=1)
    results = [None] * len(units)
    for i, r in zip(order, res_unordered): results[i] = r
    checked = sum(r["checked"] for r in results); skipped = sum(r["skipped"] for r in results)
    per_key_total: Dict[str, int] = {}
    kept: Dict[str, int] = {}
    for kind, title in GROUP_OF.items():
        rs = [r for r in results if r["kind"] == kind]
        if not rs: continue
        ops: Dict[str, int] = {}
        for r in rs:
            for k, v in r["ops"].items(): ops[k] = ops.get(k, 0) + v
        bound = {"unary": "all shapes numel<=6 ndim<=3 (+3 zero-size) x pattern set of T (every pattern for ndim<=2, every 3rd for ndim 3; incl. stride-0/transposed storage) x defaults {0,1,-inf,inf,2.5,-2.5,nan} x every unary/in-place op x nan_to_num_ argument sets x scalars {0,1,-1,2.5,inf} (all 5 on every 8th pattern, one rotating otherwise; every (op, default, scalar) triple occurs in every shape with >=5 patterns); float64/float32, bool, int64",
                 "struct": "same pattern set; every dim / permutation / index prefix / unsqueeze position / expand size vector over {n,1,2,3} / every target shape of equal numel with ndim<=3",
                 "binary": (f"all well-typed (gen_pt.compatible) pairs of patterns over equal shapes numel<={6 if ctx.thorough else 4}, ndim<=2 (+4 three-dimensional, +2 zero-size)"
                            + ("" if ctx.thorough else " (+every 5th pair of (6,),(2,3),(3,2),(5,))") + " and every "
                            + ("" if ctx.thorough else "3rd ") + "pair over torch-broadcastable shape pairs"
                            + (" (thorough pattern set, <= ~1500 pairs per shape pair)" if ctx.thorough else "")
                            + "; per op " + ("7" if ctx.thorough else "2 rotating of the 4") + " default pairs (id,id),(id,x),(x,id),(x,y), x,y in {0,1,-inf,inf,2.5,nan}; bool defaults for logical ops"),
                 "where": "all well-typed (t,c) pattern pairs x 3 (thorough 6) u patterns x c.default in {F,T} over equal shapes numel<=4 and 10 broadcasting shape triples",
                 "pairs": "all ordered pairs (project, stack of 2) and derived triples (stack of 3) of patterns per shape numel<=4",
                 "copy": "all pattern pairs over 9x9 shape pairs (any two shapes)",
                 "prog": ("every 31st composition of 3 steps from 35 step instances x every quick-set pattern of all shapes numel<=6" if ctx.thorough
                          else "all compositions of 2 steps from 27 step instances x every (every 2nd if >12) pattern of 13 shapes"),
                 "alias": ("every pattern p (no zero-size axis) of the binary-bound shapes" + (" + (3,3) (9,) (2,2,2) (8,)" if ctx.thorough else " + (3,3) (2,2,2)")
                           + " and of the broadcastable shape pairs x {every renaming of p by a permutation of its pool, "
                           + ("every (strided beyond the pair cap)" if ctx.thorough else "every k-th (k=1 numel<=4, else 3-4)") + " well-typed pattern q} x injective partial maps "
                           "'pool entry of q is the SAME PhysicalAxis object as an equally sized pool entry of p' ("
                           + ("all for renamings with <=2 axes, else <=8 evenly spread incl. the most-sharing in-order one; <= ~1200 (p,q) pairs per shape pair"
                              if ctx.thorough else "all for renamings with <=2 axes, else 3: most-sharing in-order, middle, least")
                           + "); per (p,q,map): project of p onto q, 6 binary ops (+swapped operands), operator form, comparison, in-place mul/div, "
                           "logical op, copy_, stack of 2 and 3, where (c and u named with t's / c's axes), expand_as; "
                           "the library's own views T t transpose permute T.abs of every p: project onto the view's pattern, t.op(view(t)), "
                           "stack([t, view(t)]), and the same after one of 13 first steps; distinct finite data")}[kind]
        rep.bounded.append(Bounded(
            function=f"PatternedTensor: {title}", bound=bound,
            cases=sum(r["cases"] for r in rs), distinct_nontrivial=sum(r["nontrivial"] for r in rs),
            rule="cases enumerated per (shape, pattern, default, op, argument); distinct = distinct canonical JSON case; "
                 "non-trivial = some operand is not the plain dense pattern (has a default-backed element, a product/sum/shared axis or non-contiguous storage)",
            samples=[s for r in rs for s in r["samples"]][:3],
            exhaustive=(kind in ("unary", "struct", "pairs", "copy") or (kind == "binary")) and False,
            extra={"ops": ops, "distinct": sum(r["distinct"] for r in rs), "wall_cpu_s": round(sum(r["wall"] for r in rs), 1)}))
        for r in rs:
            for k, v in r["per_key"].items(): per_key_total[k] = per_key_total.get(k, 0) + v
            for f in r["fails"]:
                if kept.get(f["key"], 0) >= 3: continue
                kept[f["key"]] = kept.get(f["key"], 0) + 1
                case = dict(f["case"]); case["_obligation"] = f["obligation"]
                desc = " ; ".join(depict(x) for x in f["case"]["ops"])
                what = f"{f['case'].get('op', 'prog ' + json.dumps(f['case'].get('prog')))} args={json.dumps(f['case'].get('args', []))} on {desc}"
                if f["case"].get("share"): what += f" shared-axes={json.dumps(f['case']['share'])}"
                rep.failures.append(Failure(obligation="PatternedTensor." + f["obligation"], what=what[:300],
                                            replay={"module": MODULE, "func": "replay_case", "case": case},
                                            detail=f["detail"][:600], key=f["key"]))
    if rep.bounded:
        rep.bounded[0].extra["rep_invariant_checks"] = {"checked": checked, "skipped": skipped}
    rep.extra["rep_invariant_checks"] = {"checked": checked, "skipped": skipped}
    rep.extra["c06_failure_counts_by_key"] = dict(sorted(per_key_total.items()))
    rep.extra["c06_bounded_wall_s"] = round(time.time() - t0, 1)
    rep.extra["c06_units"] = {"n": len(units), "cpu_s_total": round(sum(r["wall"] for r in results), 1),
                              "cpu_s_max_unit": round(max(r["wall"] for r in results), 1)}
    rep.functions_under_contract += ["fggs.indices.PatternedTensor.*", "fggs.indices.stack", "fggs.indices.project",
                                     "fggs.indices.reshape_or_view", "fggs.indices.broadcast"]
    return rep


if __name__ == "__main__":
    import sys
    tier = sys.argv[1] if len(sys.argv) > 1 else "quick"
    t0 = time.time()
    r = run_bounded(Ctx("C06", tier, 0))
    print("wall", round(time.time() - t0, 1), "failures", len(r.failures), r.extra["c06_units"], r.extra["rep_invariant_checks"])
    for b in r.bounded: print(b.function[:60], b.cases, b.distinct_nontrivial, b.extra.get("wall_cpu_s"))
    for k, v in r.extra["c06_failure_counts_by_key"].items(): print(v, k)
    if len(sys.argv) > 2:
        json.dump([{"obligation": f.obligation, "key": f.key, "what": f.what, "detail": f.detail, "case": f.replay["case"]}
                   for f in r.failures], open(sys.argv[2], "w"), indent=0)
