"""C06 (bounded): patterned tensors behave exactly like the dense tensors they denote.

Every case is a JSON dict  {"op": name, "ops": [tensor recipes of vf.bounded.gen_pt],
"args": [...]}  (programs: {"prog": [[op, args], ...], "ops": [recipe]}).  The real operation of
fggs.indices.PatternedTensor is run on build_pt(recipe); the oracle is the corresponding torch
operation applied to dense_oracle(recipe) (gen_pt's own interpreter of the axis language, which
does not use fggs.indices).  Clauses per op:
    <op>.raises  the call must succeed (or must raise RuntimeError exactly when torch raises)
    <op>.wf      representation invariant of the result (FGGS_VERIF hook / _verif_check_rep)
    <op>.shape / <op>.dtype / <op>.value   denotation of the result
    <op>.frame   operands (denotation, default, physical storage) untouched by non-in-place ops
    <op>.post    op-specific postcondition (dim_to_dense: the axis is dense and independent)
"""
from __future__ import annotations
import itertools, json, math, os, random, time, warnings, hashlib
from typing import Any, Dict, List, Optional, Tuple

import torch

from vf.core import Ctx, Report, Bounded, Failure
from vf.bounded import gen_pt as G
from vf.bounded.gen_pt import (build_pt, dense_oracle, canonical, shape_of, fill_data, enc, dec,
                               patterns_for_shape, all_shapes, same, DTYPES)

MODULE = "props.c06_bounded"
inf, nan = math.inf, math.nan
DEFAULTS7 = [0.0, 1.0, -inf, inf, 2.5, -2.5, nan]
SCALARS = [0, 1, -1, 2.5, inf]
NAN_TO_NUM_ARGS = [[0, None, None], [0, "inf", None], ["-inf", "inf", "-inf"], [0.0, 5.0, -5.0]]
RTOL = {torch.float32: 1e-6, torch.float64: 1e-12}


# ------------------------------------------------------------------------------------ comparison
_MISMATCH = [0]


class typed_scope:
    """Silences warnings but notes the library's own "index type mismatch" diagnosis: operands on which the
    library itself reports a type mismatch are ill-typed, i.e. outside the property ("well-typed")."""
    def __enter__(self):
        self.cm = warnings.catch_warnings(record=True)
        self.w = self.cm.__enter__()
        warnings.simplefilter("always")
        return self

    def __exit__(self, *a):
        if any("index type mismatch" in str(x.message) for x in self.w):
            _MISMATCH[0] += 1
        return self.cm.__exit__(*a)


def cmp_dense(got, want, arith: bool, atol_too: bool = False, dtype: bool = True) -> Optional[Tuple[str, str]]:
    """None if `got` denotes `want`; else (clause, detail)."""
    if not isinstance(got, torch.Tensor):
        return ("value", f"result is {type(got).__name__}, expected a Tensor")
    if tuple(got.size()) != tuple(want.size()):
        return ("shape", f"observed shape {tuple(got.size())} expected {tuple(want.size())}")
    if dtype and got.dtype != want.dtype:
        return ("dtype", f"observed dtype {got.dtype} expected {want.dtype}")
    if got.dtype != want.dtype:
        got = got.to(torch.float64); want = want.to(torch.float64)
    if got.is_floating_point():
        gn, wn = torch.isnan(got), torch.isnan(want)
        if not torch.equal(gn, wn):
            return ("value", f"NaN positions differ: observed {got.tolist()} expected {want.tolist()}")
        gi, wi = torch.isinf(got), torch.isinf(want)
        if not torch.equal(gi, wi) or not torch.equal(got[gi], want[wi]):
            return ("value", f"infinities differ: observed {got.tolist()} expected {want.tolist()}")
        fin = ~(gn | gi)
        g, w = got[fin], want[fin]
        if arith:
            r = RTOL.get(got.dtype, 1e-12)
            ok = torch.isclose(g, w, rtol=r, atol=(r if atol_too else 0.0))
            if not bool(ok.all()):
                return ("value", f"observed {got.tolist()} expected {want.tolist()} (rtol {r})")
        elif not torch.equal(g, w):
            return ("value", f"observed {got.tolist()} expected {want.tolist()} (exact)")
        return None
    if not torch.equal(got, want):
        return ("value", f"observed {got.tolist()} expected {want.tolist()}")
    return None


def list_same(a, b) -> bool:
    if isinstance(a, list) and isinstance(b, list):
        return len(a) == len(b) and all(list_same(x, y) for x, y in zip(a, b))
    if isinstance(a, list) or isinstance(b, list): return False
    if isinstance(a, float) and isinstance(b, float) and math.isnan(a) and math.isnan(b): return True
    return type(a) == type(b) and a == b


def dclass(x) -> str:
    x = dec(x)
    if isinstance(x, bool): return str(x)
    if isinstance(x, float) and math.isnan(x): return "nan"
    if x == inf: return "+inf"
    if x == -inf: return "-inf"
    if x == 0: return "0"
    if x == 1: return "1"
    if x == -1: return "-1"
    return "pos" if x > 0 else "neg"


def depict_axis(a) -> str:
    if a[0] == "P": return f"X{a[1]}"
    if a[0] == "*": return "1" if not a[1] else "(" + "*".join(depict_axis(f) for f in a[1]) + ")"
    return f"({a[1]}+{depict_axis(a[2])}+{a[3]})"


def depict(r) -> str:
    s = f"pool{r['pool']}->[{', '.join(depict_axis(a) for a in r['vaxes'])}]|d={r.get('default')}|{r.get('dtype','float64')}"
    if r.get("storage", "contig") != "contig": s += "|" + r["storage"]
    return s


# ------------------------------------------------------------------------------------ op table
def _sc(x):  # JSON scalar -> python
    return dec(x)


class Op:
    def __init__(self, name, pt, dn, n=1, arith=False, atol=False, inplace=False, kind="pt",
                 raises_like_torch=False, post=None, dtype=True):
        self.name, self.pt, self.dn, self.n = name, pt, dn, n
        self.arith, self.atol, self.inplace, self.kind = arith, atol, inplace, kind
        self.raises_like_torch, self.post, self.dtype = raises_like_torch, post, dtype


OPS: Dict[str, Op] = {}


def op(name, pt, dn, **kw):
    OPS[name] = Op(name, pt, dn, **kw)


# --- elementwise maps that touch only default and physical
op("abs", lambda T, a: T[0].abs(), lambda D, a: D[0].abs())
op("exp", lambda T, a: T[0].exp(), lambda D, a: D[0].exp(), arith=True)
op("expm1", lambda T, a: T[0].expm1(), lambda D, a: D[0].expm1(), arith=True)
op("log", lambda T, a: T[0].log(), lambda D, a: D[0].log(), arith=True)
op("logical_not", lambda T, a: T[0].logical_not(), lambda D, a: D[0].logical_not())
op("clamp_min", lambda T, a: T[0].clamp_min(_sc(a[0])), lambda D, a: D[0].clamp_min(_sc(a[0])))
op("clamp_max", lambda T, a: T[0].clamp_max(_sc(a[0])), lambda D, a: D[0].clamp_max(_sc(a[0])))
for _n in ("lt", "le", "gt", "ge", "eq"):
    op(_n + "_scalar", (lambda n: lambda T, a: getattr(T[0], n)(_sc(a[0])))(_n),
       (lambda n: lambda D, a: getattr(D[0], n)(_sc(a[0])))(_n))
for _n in ("add", "mul", "sub", "div"):
    op(_n + "_scalar", (lambda n: lambda T, a: getattr(T[0], n)(_sc(a[0])))(_n),
       (lambda n: lambda D, a: getattr(D[0], n)(_sc(a[0])))(_n), arith=True)
op("__add__scalar", lambda T, a: T[0] + _sc(a[0]), lambda D, a: D[0] + _sc(a[0]), arith=True)
op("__sub__scalar", lambda T, a: T[0] - _sc(a[0]), lambda D, a: D[0] - _sc(a[0]), arith=True)
op("__mul__scalar", lambda T, a: T[0] * _sc(a[0]), lambda D, a: D[0] * _sc(a[0]), arith=True)
op("__truediv__scalar", lambda T, a: T[0] / _sc(a[0]), lambda D, a: D[0] / _sc(a[0]), arith=True)
op("to", lambda T, a: T[0].to(DTYPES[a[0]]), lambda D, a: D[0].to(DTYPES[a[0]]))

# --- in-place forms (applied to t.clone(); t must stay unchanged)
op("neg_", lambda T, a: T[0].neg_(), lambda D, a: D[0].neg_(), inplace=True)
op("log_", lambda T, a: T[0].log_(), lambda D, a: D[0].log_(), inplace=True, arith=True)
op("log1p_", lambda T, a: T[0].log1p_(), lambda D, a: D[0].log1p_(), inplace=True, arith=True)
op("relu_", lambda T, a: T[0].relu_(), lambda D, a: D[0].relu_(), inplace=True)
op("abs_", lambda T, a: T[0].abs_(), lambda D, a: D[0].abs_(), inplace=True)


def _n2n_kw(a):
    kw = {"nan": _sc(a[0])}
    if a[1] is not None: kw["posinf"] = _sc(a[1])
    if a[2] is not None: kw["neginf"] = _sc(a[2])
    return kw


op("nan_to_num_", lambda T, a: T[0].nan_to_num_(**_n2n_kw(a)), lambda D, a: D[0].nan_to_num_(**_n2n_kw(a)),
   inplace=True)


def _imul_s(T, a):
    x = T[0]; x *= _sc(a[0]); return x


def _idiv_s(T, a):
    x = T[0]; x /= _sc(a[0]); return x


def _imul_sd(D, a):
    x = D[0]; x *= _sc(a[0]); return x


def _idiv_sd(D, a):
    x = D[0]; x /= _sc(a[0]); return x


op("__imul__scalar", _imul_s, _imul_sd, inplace=True, arith=True)
op("__itruediv__scalar", _idiv_s, _idiv_sd, inplace=True, arith=True)


def _imul_t(T, a):
    x = T[0]; x *= T[1]; return x


def _idiv_t(T, a):
    x = T[0]; x /= T[1]; return x


op("__imul__tensor", _imul_t, lambda D, a: D[0].mul_(D[1]), n=2, inplace=True, arith=True)
op("__itruediv__tensor", _idiv_t, lambda D, a: D[0].div_(D[1]), n=2, inplace=True, arith=True)


def _copy_(T, a):
    T[0].copy_(T[1]); return T[0]


op("copy_", _copy_, lambda D, a: D[1].clone(), n=2, inplace=True)

# --- binary ops between two patterned tensors
op("add", lambda T, a: T[0].add(T[1]), lambda D, a: D[0].add(D[1]), n=2, arith=True)
op("__add__", lambda T, a: T[0] + T[1], lambda D, a: D[0] + D[1], n=2, arith=True)
op("mul", lambda T, a: T[0].mul(T[1]), lambda D, a: D[0].mul(D[1]), n=2, arith=True)
op("__mul__", lambda T, a: T[0] * T[1], lambda D, a: D[0] * D[1], n=2, arith=True)
op("sub", lambda T, a: T[0].sub(T[1]), lambda D, a: D[0].sub(D[1]), n=2, arith=True)
op("__sub__", lambda T, a: T[0] - T[1], lambda D, a: D[0] - D[1], n=2, arith=True)
op("div", lambda T, a: T[0].div(T[1]), lambda D, a: D[0].div(D[1]), n=2, arith=True)
op("__truediv__", lambda T, a: T[0] / T[1], lambda D, a: D[0] / D[1], n=2, arith=True)
op("logaddexp", lambda T, a: T[0].logaddexp(T[1]), lambda D, a: torch.logaddexp(D[0], D[1]), n=2, arith=True, atol=True)
op("maximum", lambda T, a: T[0].maximum(T[1]), lambda D, a: torch.maximum(D[0], D[1]), n=2)
op("logical_and", lambda T, a: T[0].logical_and(T[1]), lambda D, a: D[0].logical_and(D[1]), n=2)
op("logical_or", lambda T, a: T[0].logical_or(T[1]), lambda D, a: D[0].logical_or(D[1]), n=2)
for _n in ("lt", "le", "gt", "ge", "eq"):
    op(_n, (lambda n: lambda T, a: getattr(T[0], n)(T[1]))(_n),
       (lambda n: lambda D, a: getattr(D[0], n)(D[1]))(_n), n=2)
# operands: t, c (bool), u
op("where", lambda T, a: T[0].where(T[1], T[2]), lambda D, a: torch.where(D[1], D[0], D[2]), n=3)
# the same object as both operands (aliasing of paxes)
op("add_self", lambda T, a: T[0].add(T[0]), lambda D, a: D[0].add(D[0]), arith=True)
op("mul_self", lambda T, a: T[0].mul(T[0]), lambda D, a: D[0].mul(D[0]), arith=True)
op("sub_self", lambda T, a: T[0].sub(T[0]), lambda D, a: D[0].sub(D[0]), arith=True)
op("maximum_self", lambda T, a: T[0].maximum(T[0]), lambda D, a: torch.maximum(D[0], D[0]))
op("eq_self", lambda T, a: T[0].eq(T[0]), lambda D, a: D[0].eq(D[0]))

# --- structural ops
op("permute", lambda T, a: T[0].permute(a[0]), lambda D, a: D[0].permute(a[0]))
op("transpose", lambda T, a: T[0].transpose(a[0], a[1]), lambda D, a: D[0].transpose(a[0], a[1]))
op("t", lambda T, a: T[0].t(), lambda D, a: D[0].t())
op("T", lambda T, a: T[0].T, lambda D, a: D[0].permute(tuple(reversed(range(D[0].ndim)))))
op("flatten", lambda T, a: T[0].flatten(), lambda D, a: D[0].flatten())
op("unsqueeze", lambda T, a: T[0].unsqueeze(a[0]), lambda D, a: D[0].unsqueeze(a[0]))
op("expand", lambda T, a: T[0].expand(*a[0]), lambda D, a: D[0].expand(a[0]), raises_like_torch=True)
op("expand_as", lambda T, a: T[0].expand_as(T[1]), lambda D, a: D[0].expand_as(D[1]), n=2)
op("repeat_as_expand", lambda T, a: T[0].repeat(*a[0]), lambda D, a: D[0].expand(*a[0]).clone())
op("stack", lambda T, a: __import__("fggs.indices").indices.stack(T, a[0]), lambda D, a: torch.stack(D, a[0]), n=-1)
op("__getitem__", lambda T, a: T[0][a[0] if isinstance(a[0], int) else tuple(a[0])],
   lambda D, a: D[0][a[0] if isinstance(a[0], int) else tuple(a[0])])
op("__iter__", lambda T, a: list(iter(T[0])), lambda D, a: list(iter(D[0])), kind="ptlist")
op("tolist", lambda T, a: T[0].tolist(), lambda D, a: D[0].tolist(), kind="pylist")
op("__len__", lambda T, a: [len(T[0]), T[0].dim(), T[0].ndim, T[0].numel(), tuple(T[0].size()), tuple(T[0].shape)],
   lambda D, a: [len(D[0]), D[0].dim(), D[0].ndim, D[0].numel(), tuple(D[0].size()), tuple(D[0].shape)], kind="py")
def _dimok(d, dim):
    if not (-d.ndim <= dim < d.ndim): raise IndexError("dim out of range (0-dim tensors have no dims)")
    return d


op("any", lambda T, a: T[0].any(a[0], a[1]), lambda D, a: _dimok(D[0], a[0]).any(a[0], a[1]))
op("log_softmax", lambda T, a: T[0].log_softmax(a[0]), lambda D, a: _dimok(D[0], a[0]).log_softmax(a[0]), arith=True, atol=True)
op("norm", lambda T, a: T[0].norm(a[0], a[1], a[2]), lambda D, a: _dimok(D[0], a[1]).norm(a[0], a[1], a[2]), arith=True, atol=True)


def _dimok(d, dim):
    if not (-d.ndim <= dim < d.ndim): raise IndexError("dim out of range (0-dim tensors have no dims)")
    return d


def _post_dim_to_dense(T, a, res):
    from fggs.indices import PhysicalAxis, unitAxis
    e = res.vaxes[a[0]]
    if e == unitAxis: return None
    if not isinstance(e, PhysicalAxis): return f"axis {a[0]} of the result is {e}, not dense"
    others = [k for i, f in enumerate(res.vaxes) if i != (a[0] % len(res.vaxes)) for k in f.fv({})]
    if any(k is e for k in others): return f"axis {a[0]} of the result is shared with another axis"
    return None


op("dim_to_dense", lambda T, a: T[0].dim_to_dense(a[0]), lambda D, a: _dimok(D[0], a[0]).clone(), post=_post_dim_to_dense)
op("default_to", lambda T, a: T[0].default_to(_sc(a[0])), lambda D, a: D[0].clone(),
   post=lambda T, a, res: None if (res.default == _sc(a[0]) or (math.isnan(res.default) and math.isnan(_sc(a[0]))))
   else f"result default {res.default} != {_sc(a[0])}")
op("clone", lambda T, a: T[0].clone(), lambda D, a: D[0].clone(),
   post=lambda T, a, res: None if (res.physical.numel() == 0 or res.physical.data_ptr() != T[0].physical.data_ptr())
   else "clone shares storage")
op("freshen", lambda T, a: T[0].freshen(), lambda D, a: D[0].clone(),
   post=lambda T, a, res: None if res.isdisjoint(T[0]) else "freshen shares a PhysicalAxis")
op("detach", lambda T, a: T[0].detach(), lambda D, a: D[0].detach())
op("to_dense", lambda T, a: T[0].to_dense(), lambda D, a: D[0].clone(), kind="tensor")


def _project_pt(T, a):
    from fggs.indices import PhysicalAxis
    q = a[0]
    if len(a) > 1 and a[1] == "alias":      # the tensor's own paxes/vaxes (exercises the freshen path)
        return T[0].project(T[0].paxes, T[0].vaxes)
    paxes = tuple(PhysicalAxis(n) for n in q["pool"])
    vaxes = tuple(G.build_axis(x, paxes) for x in q["vaxes"])
    return T[0].project(paxes, vaxes)


def _project_dn(D, a):
    """spec of project: result[p] = D(t)[vaxes(p)] for every physical index tuple p of `paxes`"""
    q = a[0]
    pool = list(q["pool"])
    out = torch.empty(pool, dtype=D[0].dtype)
    for p in itertools.product(*[range(k) for k in pool]):
        v = tuple(G.ax_eval(x, pool, p) for x in q["vaxes"])
        out[p] = D[0][v]
    return out


op("project", _project_pt, _project_dn, kind="tensor")
op("reshape", lambda T, a: T[0].reshape(*a[0]) if a[1] == "star" else T[0].reshape(a[0]),
   lambda D, a: D[0].reshape(a[0]), kind="reshape")
op("view", lambda T, a: T[0].view(*a[0]) if a[1] == "star" else T[0].view(a[0]),
   lambda D, a: D[0].reshape(a[0]), kind="reshape")


# ------------------------------------------------------------------------------------ running one case
def _snapshot(t):
    return (t.physical.clone(), t.default, tuple(t.physical.size()), None)


def _frame_violation(t, snap, d) -> Optional[str]:
    p, dflt, size, dense0 = snap
    if tuple(t.physical.size()) != size or not same(t.physical.clone(), p):
        return f"operand physical storage changed: {p.tolist()} -> {t.physical.tolist()}"
    if not (t.default == dflt or (isinstance(dflt, float) and math.isnan(dflt) and math.isnan(t.default))):
        return f"operand default changed: {dflt} -> {t.default}"
    if not same(t.to_dense(), d):
        return f"operand denotation changed: {d.tolist()} -> {t.to_dense().tolist()}"
    return None


def _reshape_must(src: Tuple[int, ...], tgt: Tuple[int, ...]) -> Optional[str]:
    """name of the must-succeed class if reshaping src->tgt only merges adjacent dims and/or
       inserts/removes size-1 dims (None otherwise)"""
    src, tgt = tuple(src), tuple(tgt)
    s = [n for n in src if n != 1]; t = [n for n in tgt if n != 1]
    if s == t:
        return "identity" if src == tgt else "size1"
    if 0 in s:
        return None
    # is t a coarsening of s (each target dim = product of a consecutive group of source dims)?
    i = 0
    for n in t:
        acc = 1
        while i < len(s) and acc < n:
            acc *= s[i]; i += 1
        if acc != n: return None
    if i != len(s): return None
    return "merge_adjacent" if (list(src) == s and list(tgt) == t) else "merge_adjacent+size1"


def run_op(name: str, recipes: List[dict], args: list) -> List[Tuple[str, str]]:
    """Run one op on freshly built operands; return list of (clause, detail) violations."""
    from fggs import indices as I
    o = OPS[name]
    out: List[Tuple[str, str]] = []
    with typed_scope():
        T = [build_pt(r) for r in recipes]
        D = [dense_oracle(r) for r in recipes]
        snaps = [_snapshot(t) for t in T]
        # expected
        exp_exc = None
        try:
            Dc = [d.clone() for d in D]
            want = o.dn(Dc, args)
        except Exception as e:  # torch rejects the input
            exp_exc = e
            want = None
        if exp_exc is not None and not (o.raises_like_torch or o.kind == "reshape"):
            return [("harness", f"oracle raised {type(exp_exc).__name__}: {exp_exc}")]
        # observed
        Tw = T
        if o.inplace:
            Tw = [T[0].clone()] + T[1:]
        try:
            res = o.pt(Tw, args)
        except I.RepInvariantError as e:
            return [("wf", f"RepInvariantError: {e}")]
        except Exception as e:
            if o.raises_like_torch and exp_exc is not None and isinstance(e, RuntimeError):
                res = None
            elif o.kind == "reshape" and isinstance(e, RuntimeError):
                must = _reshape_must(tuple(D[0].size()), tuple(want.size())) if want is not None else None
                if name == "reshape" and must:
                    return [(must, f"reshape raised RuntimeError: {str(e)[:200]}")]
                res = None
            else:
                exp = "no exception" if exp_exc is None else f"RuntimeError (torch: {exp_exc})"
                return [("raises", f"observed {type(e).__name__}: {str(e)[:200]}; expected {exp}"
                         + ("" if want is None or not isinstance(want, torch.Tensor) else f", value {want.tolist()}"))]
        else:
            if exp_exc is not None:
                return [("raises", f"observed no exception; torch raises {type(exp_exc).__name__}: {str(exp_exc)[:160]}")]
        if res is not None:
            if o.kind in ("pt", "reshape"):
                if not isinstance(res, I.PatternedTensor):
                    out.append(("value", f"result is {type(res).__name__}"))
                else:
                    try:
                        # constructions are validated by the hook; in-place results are re-validated here
                        if o.inplace or not I._FGGS_VERIF: I._verif_check_rep(res)
                    except I.RepInvariantError as e:
                        out.append(("wf", f"RepInvariantError: {e}"))
                    else:
                        try:
                            got = res.to_dense()
                        except Exception as e:
                            out.append(("value", f"to_dense() of the result raised {type(e).__name__}: {str(e)[:200]}; "
                                                 f"result default {res.default}; expected {want.tolist()}"))
                        else:
                            c = cmp_dense(got, want, o.arith, o.atol, o.dtype)
                            if c: out.append(c)
                            if o.post and not c:
                                m = o.post(Tw, args, res)
                                if m: out.append(("post", m))
            elif o.kind == "tensor":
                c = cmp_dense(res, want, o.arith, o.atol)
                if c: out.append(c)
            elif o.kind == "ptlist":
                if len(res) != len(want):
                    out.append(("shape", f"observed {len(res)} items expected {len(want)}"))
                else:
                    for i, (x, w) in enumerate(zip(res, want)):
                        try:
                            I._verif_check_rep(x)
                        except I.RepInvariantError as e:
                            out.append(("wf", f"item {i}: {e}")); break
                        c = cmp_dense(x.to_dense(), w, False)
                        if c:
                            out.append((c[0], f"item {i}: {c[1]}")); break
            elif o.kind == "pylist":
                if not list_same(res, want):
                    out.append(("value", f"observed {res} expected {want}"))
            elif o.kind == "py":
                if res != want:
                    out.append(("value", f"observed {res} expected {want}"))
        # frame: operands untouched (for in-place ops: the original of the clone, and the other operands)
        for i, (t, s, d) in enumerate(zip(T, snaps, D)):
            m = _frame_violation(t, s, d)
            if m: out.append(("frame", f"operand {i}: {m}"))
        if o.inplace and res is not None and name != "copy_" and not name.endswith("tensor"):
            if res is not Tw[0]:
                out.append(("post", "in-place op did not return self"))
        if name == "copy_" and res is not None and not out:
            # src must not alias the overwritten tensor
            try:
                Tw[0].neg_()
                m = _frame_violation(T[1], snaps[1], D[1])
                if m: out.append(("frame", f"after copy_, mutating self changes src: {m}"))
            except RuntimeError:
                pass
    return out


# ------------------------------------------------------------------------------------ programs
def _step(x, d, name, args):
    """apply one program step to (patterned x, dense d)"""
    o = OPS[name]
    if o.inplace:
        x = x.clone(); d = d.clone()
    want = o.dn([d], args)
    got = o.pt([x], args)
    return got, want


def run_prog(recipe: dict, prog: list) -> List[Tuple[str, str]]:
    from fggs import indices as I
    with typed_scope():
        x = build_pt(recipe); d = dense_oracle(recipe)
        for i, (name, args) in enumerate(prog):
            try:
                want = None
                o = OPS[name]
                dd = d.clone() if o.inplace else d
                want = o.dn([dd], args)
            except Exception as e:
                return []  # step not applicable to this shape: program skipped
            try:
                xx = x.clone() if o.inplace else x
                got = o.pt([xx], args)
            except I.RepInvariantError as e:
                return [(f"{name}.wf", f"step {i}: RepInvariantError: {e}")]
            except RuntimeError as e:
                if o.kind == "reshape": return []
                return [(f"{name}.raises", f"step {i}: RuntimeError: {str(e)[:200]}")]
            except Exception as e:
                return [(f"{name}.raises", f"step {i}: {type(e).__name__}: {str(e)[:200]}")]
            try:
                I._verif_check_rep(got)
            except I.RepInvariantError as e:
                return [(f"{name}.wf", f"step {i}: {e}")]
            try:
                gd = got.to_dense()
            except Exception as e:
                return [(f"{name}.value", f"step {i}: to_dense raised {type(e).__name__}: {str(e)[:160]}")]
            c = cmp_dense(gd, want, True, True, o.dtype)
            if c:
                return [(f"{name}.{c[0]}", f"step {i}: {c[1]}")]
            x, d = got, want
    return []


# ------------------------------------------------------------------------------------ check_case / replay
def check_case(case: dict) -> List[Tuple[str, str]]:
    """-> list of (obligation, detail)"""
    _MISMATCH[0] = 0
    if "prog" in case:
        res = run_prog(case["ops"][0], case["prog"])
    else:
        res = [(f"{case['op']}.{cl}", det) for cl, det in run_op(case["op"], case["ops"], case.get("args", []))]
    # Operations that UNIFY their operands' axes (where, project) are only defined on operands of one index type;
    # when the library itself diagnoses a type mismatch there, the case is outside the property ("well-typed").
    # The elementwise binary operations anti-unify instead and must work on any same-shape operands: never skipped.
    unifying = ("where", "project")
    names = [case.get("op")] + [st[0] for st in case.get("prog", [])]
    if _MISMATCH[0] and any(n in unifying for n in names if n):
        return []
    return res


def replay_case(case: dict) -> bool:
    v = check_case(case)
    want = case.get("_obligation")
    print("case:", json.dumps({k: x for k, x in case.items() if not k.startswith("_")})[:1500])
    if not v:
        print("no violation observed")
        return False
    for ob, det in v:
        print(f"VIOLATED {ob}: {det}")
    return True if want is None else any(ob == want for ob, _ in v) or bool(v)


# ------------------------------------------------------------------------------------ failure keys
DEFAULT_SENSITIVE = {"log_softmax", "norm", "relu_", "maximum", "maximum_self", "nan_to_num_", "log", "log_", "log1p_"}


def _has_sum0(a) -> bool:
    if a[0] == "P": return False
    if a[0] == "*": return any(_has_sum0(f) for f in a[1])
    return (a[1] == 0 and a[3] == 0) or _has_sum0(a[2])


def _key(obl: str, case: dict, detail: str) -> str:
    """stable key of the failing input class: clause, exception type, and the feature of the
       input that selects the faulty branch"""
    rs = case["ops"]
    exc = ""
    if obl.endswith(".raises") or obl.endswith(".wf") or "raised" in detail:
        for word in detail.replace(":", " ").replace(";", " ").split():
            if word.endswith("Error") or word.endswith("Exception"):
                exc = word; break
    opn, clause = obl.split(".")[0], obl.split(".")[-1]
    tags = [exc] if exc else []
    if "prog" in case:
        return obl + "|" + "|".join(tags + ["in-program"])
    dcl = "default=" + ",".join(dclass(r.get("default", 0)) for r in rs)
    if exc == "ZeroDivisionError":
        pass
    elif opn in ("log", "log_", "log1p_") and exc == "ValueError":
        tags.append(dcl)
    elif opn in ("log_softmax", "norm") and not exc:
        args = case.get("args", [])
        dim = args[0] if opn == "log_softmax" else args[1]
        tags.append("dim-of-size-1" if shape_of(rs[0])[dim] == 1 else dcl)
    elif opn in ("maximum", "maximum_self") and clause == "value":
        tags.append("a-default-is-nan" if "nan" in dcl else dcl)
    elif opn in DEFAULT_SENSITIVE and clause == "value" and opn != "nan_to_num_":
        tags.append(dcl)
    elif opn == "nan_to_num_":
        a = case.get("args", [None, None, None])
        tags += ["neginf-given" if a[2] is not None else "neginf=None", rs[0].get("dtype", "float64")]
    else:
        if any(0 in r["pool"] for r in rs): tags.append("zero-size-axis")
        if any(_has_sum0(x) for r in rs for x in r["vaxes"]): tags.append("SumAxis(0,e,0)")
    return obl + "|" + "|".join(tags)


# ------------------------------------------------------------------------------------ unit generators
def _rng(seed: int, salt: str) -> random.Random:
    h = hashlib.sha256(f"{seed}:C06:{salt}".encode()).hexdigest()
    return random.Random(int(h[:16], 16))


def _nontrivial(r) -> bool:
    """the operand is not the plain dense pattern: some element is default-backed, or an axis is a
       product/sum, or an axis is shared, or storage is not contiguous"""
    if r.get("storage", "contig") != "contig": return True
    return any(a[0] != "P" and a != G.UNIT for a in r["vaxes"]) or \
        len([i for a in r["vaxes"] for i in G.ax_fv(a)]) != len(r["pool"])


def _shapes(tier: str, numel_max: int, ndim_max: int = 3, zero: bool = True):
    s = all_shapes(numel_max, ndim_max)
    if zero: s += [(0,), (0, 2), (2, 0)]
    return s


def _perms(n):
    return [list(p) for p in itertools.permutations(range(n))]


def _targets(shape: Tuple[int, ...], ndim_max: int = 3) -> List[List[int]]:
    n = G._prod(shape)
    out = []
    for nd in range(0, ndim_max + 1):
        for s in itertools.product(range(0, max(n, 1) + 1), repeat=nd):
            if G._prod(s) == n: out.append(list(s))
    return out


def gen_unit(unit: dict):
    """yield (group-internal) cases of a work unit, deterministically"""
    kind, tier, seed = unit["kind"], unit["tier"], unit["seed"]
    th = tier == "thorough"
    if kind in ("unary", "struct"):
        shape = tuple(unit["shape"])
        rng = _rng(seed, f"{kind}:{shape}:{unit.get('part', 0)}")
        pats = patterns_for_shape(shape, tier)
        for pi, p in enumerate(pats):
            if pi % unit.get("parts", 1) != unit.get("part", 0): continue
            if kind == "unary" and not th and len(shape) == 3 and pi % 3 != 1 and pi != 0: continue   # elementwise maps ignore the pattern
            fdt = "float32" if pi % 3 == 2 else "float64"
            if kind == "unary":
                for dflt in DEFAULTS7:
                    r = fill_data(p, rng, dtype=fdt, default=dflt)
                    for name in ("abs", "exp", "expm1", "log", "neg_", "log_", "log1p_", "relu_", "abs_"):
                        yield {"op": name, "ops": [r], "args": []}
                    for a in NAN_TO_NUM_ARGS:
                        yield {"op": "nan_to_num_", "ops": [r], "args": a}
                    di7 = DEFAULTS7.index(dflt) if dflt == dflt else 6
                    for s in (SCALARS if (pi % (2 if th else 8) == 0) else [SCALARS[(pi + di7) % 5]]):
                        for name in ("lt", "le", "gt", "ge", "eq", "add", "mul", "sub", "div"):
                            yield {"op": name + "_scalar", "ops": [r], "args": [enc(s)]}
                        for name in ("clamp_min", "clamp_max", "__imul__scalar", "__itruediv__scalar"):
                            yield {"op": name, "ops": [r], "args": [enc(s)]}
                    s = SCALARS[pi % len(SCALARS)]
                    for name in ("__add__scalar", "__sub__scalar", "__mul__scalar", "__truediv__scalar"):
                        yield {"op": name, "ops": [r], "args": [enc(s)]}
                    yield {"op": "to", "ops": [r], "args": ["float32" if fdt == "float64" else "float64"]}
                    yield {"op": "to", "ops": [r], "args": ["bool"]}
                for dflt in (False, True):
                    r = fill_data(p, rng, dtype="bool", default=dflt)
                    yield {"op": "logical_not", "ops": [r], "args": []}
                    yield {"op": "to", "ops": [r], "args": ["float64"]}
                    for s in (0, 1):
                        yield {"op": "eq_scalar", "ops": [r], "args": [s]}
                for dflt in (0, 3, -2):
                    r = fill_data(p, rng, dtype="int64", default=dflt)
                    yield {"op": "to", "ops": [r], "args": ["float64"]}
                    yield {"op": "abs", "ops": [r], "args": []}
                    for s in (0, 1, -1):
                        for name in ("lt", "eq", "ge", "add", "mul", "sub"):
                            yield {"op": name + "_scalar", "ops": [r], "args": [s]}
                # float -> int64 only on finite data / default (the conversion of inf/NaN is undefined)
                r = fill_data(p, rng, special=False, dtype=fdt, default=2.5)
                yield {"op": "to", "ops": [r], "args": ["int64"]}
            else:  # structural
                nd = len(shape)
                dfl = DEFAULTS7 if pi % 4 == 0 else [DEFAULTS7[pi % 7], DEFAULTS7[(pi + 3) % 7]] + ([DEFAULTS7[(pi + 5) % 7]] if th else [])
                for di, dflt in enumerate(dfl):
                    r = fill_data(p, rng, dtype=fdt, default=dflt)
                    full = di == 0 or (th and pi % 4 == 0)
                    one = lambda name, args=[]: {"op": name, "ops": [r], "args": args}
                    for name in ("T", "flatten", "clone", "freshen", "detach", "to_dense", "tolist", "__len__" if nd else "T"):
                        yield one(name)
                    if nd <= 2: yield one("t")
                    if nd >= 1: yield one("__iter__")
                    yield one("project", [{"pool": r["pool"], "vaxes": r["vaxes"]}, "alias"])
                    for d2 in ([0.0, 1.0, -inf, nan, dflt] if full else [0.0, dflt]):
                        yield one("default_to", [enc(d2)])
                    for dim in (range(-nd - 1, nd + 1) if full else sorted({0, nd, -1, -nd - 1})):
                        yield one("unsqueeze", [dim])
                    for dim in range(nd):
                        yield one("dim_to_dense", [dim])
                        yield one("log_softmax", [dim])
                        if full: yield one("log_softmax", [dim - nd])
                        for pn, kd in (((1, False), (1, True), (2, False), (2, True)) if full else ((1, bool(di % 2)), (2, not di % 2))):
                            yield one("norm", [pn, dim, kd])
                        if full: yield one("norm", [2, dim - nd, False])
                    if full:
                        for perm in _perms(nd):
                            yield one("permute", [perm])
                        for d0 in range(nd):
                            for d1 in range(nd):
                                yield one("transpose", [d0, d1])
                        # indexing: every index prefix
                        for k in range(1, nd + 1):
                            for idx in itertools.product(*[range(n) for n in shape[:k]]):
                                yield one("__getitem__", [list(idx)])
                        for i in range(shape[0] if nd else 0):
                            yield one("__getitem__", [i])
                        # expand: valid and invalid sizes
                        cands = []
                        for lead in ([], [2], [3, 1]):
                            for tail in itertools.product(*[([1, 2] if n == 1 else [n, 1]) for n in shape]):
                                cands.append(lead + list(tail))
                        cands.append([2] + [n + 1 for n in shape])   # size mismatch
                        if nd: cands.append(list(shape[1:]))         # too few sizes
                        for sizes in cands:
                            if G._prod(sizes) <= 24:
                                yield one("expand", [sizes])
                        yield one("repeat_as_expand", [[2] + list(shape)])
                        # reshape / view: every target shape of equal numel (ndim <= 3), plus -1 inference
                        for tgt in _targets(shape):
                            yield one("reshape", [tgt, "list"])
                            yield one("view", [tgt, "list"])
                            if len(tgt) >= 1 and 0 not in tgt:
                                t2 = list(tgt); t2[len(t2) // 2] = -1
                                yield one("reshape", [t2, "star"])
                        if len(shape) <= 3 and 0 not in shape:
                            yield one("reshape", [list(shape) + [1], "list"])
                            yield one("reshape", [[1] + list(shape), "star"])
                            yield one("view", [[-1], "list"])
                    else:
                        yield one("permute", [list(reversed(range(nd)))])
                        if nd: yield one("__getitem__", [shape[0] - 1]) if shape[0] else one("T")
                        yield one("reshape", [[-1], "list"])
                # bool: any
                for dflt in (False, True):
                    r = fill_data(p, rng, dtype="bool", default=dflt)
                    for dim in range(nd):
                        for kd in (False, True):
                            yield {"op": "any", "ops": [r], "args": [dim, kd]}
                    yield {"op": "tolist", "ops": [r], "args": []}
                    yield {"op": "clone", "ops": [r], "args": []}
                r = fill_data(p, rng, dtype="int64", default=3)
                yield {"op": "tolist", "ops": [r], "args": []}
                yield {"op": "T", "ops": [r], "args": []}
    elif kind == "binary":
        sa, sb = tuple(unit["shape"]), tuple(unit["shape2"])
        rng = _rng(seed, f"binary:{sa}:{sb}")
        parts, part = unit.get("parts", 1), unit.get("part", 0)
        pa, pb = patterns_for_shape(sa, tier), patterns_for_shape(sb, tier)
        fa = [fill_data(p, rng, dtype="float64") for p in pa]
        fb = [fill_data(p, rng, dtype="float64") for p in pb]
        ba = [fill_data(p, rng, dtype="bool") for p in pa]
        bb = [fill_data(p, rng, dtype="bool") for p in pb]
        ident = {"add": 0.0, "mul": 1.0, "sub": 0.0, "div": 1.0, "logaddexp": -inf, "maximum": -inf}
        others = [0.0, 1.0, -inf, inf, 2.5, nan]
        stride = unit.get("stride", 1)
        if th: stride = max(stride, (len(pa) * len(pb)) // 1500)      # thorough: <= ~1500 pattern pairs per shape pair
        n = 0
        for i, j in itertools.product(range(len(pa)), range(len(pb))):
            n += 1
            if (i * 7 + j) % stride: continue
            if (i + j) % parts != part: continue
            if not G.compatible(pa[i], pb[j], broadcast=(sa != sb)):
                # A pair whose axes have the same sizes but different sum/product structure.  The elementwise binary
                # operations never unify such axes (they anti-unify: the result pattern is the least general
                # generalisation), so they must still denote the dense result; every third such pair is kept.
                if sa != sb or (i + 2 * j) % 3: continue
                if any(0 in pp["pool"] for pp in (pa[i], pb[j])): continue      # zero-size axes: known finding
            x = others[(i + 2 * j) % 6]; y = others[(3 * i + j + 1) % 6]
            for oi, (name, idv) in enumerate(ident.items()):
                dps = [(idv, idv), (idv, x), (x, idv), (x, y)]
                if th: dps += [(y, x), (inf, idv), (idv, nan)]
                else: dps = [dps[(i + j + oi) % 4], dps[(i + j + oi + 1 + (i % 3 == 0)) % 4]]
                for (da, db) in dps:
                    ra = dict(fa[i]); ra["default"] = enc(da)
                    rb = dict(fb[j]); rb["default"] = enc(db)
                    yield {"op": name, "ops": [ra, rb], "args": []}
            # operator forms, in-place forms, comparisons: one default pair each
            ra = dict(fa[i]); ra["default"] = enc(x)
            rb = dict(fb[j]); rb["default"] = enc(y)
            opn = ["__add__", "__mul__", "__sub__", "__truediv__"][(i + j) % 4]
            yield {"op": opn, "ops": [ra, rb], "args": []}
            cmpn = ("lt", "le", "gt", "ge", "eq")
            for name in (cmpn if th else (cmpn[(i + j) % 5], cmpn[(i + 2 * j + 2) % 5])):
                yield {"op": name, "ops": [ra, rb], "args": []}
            if sa == sb or len(sb) <= len(sa) and all(b in (1, a) for a, b in zip(reversed(sa), reversed(sb))):
                yield {"op": ["__imul__tensor", "__itruediv__tensor"][(i + j) % 2], "ops": [ra, rb], "args": []}
            bd = ((False, False), (False, True), (True, False), (True, True))
            for da, db in (bd if th else (bd[(i + j) % 4], bd[(i + j + 1 + j % 2) % 4])):
                ra = dict(ba[i]); ra["default"] = da
                rb = dict(bb[j]); rb["default"] = db
                yield {"op": "logical_and", "ops": [ra, rb], "args": []}
                yield {"op": "logical_or", "ops": [ra, rb], "args": []}
    elif kind == "where":
        sa, sb, sc = tuple(unit["shape"]), tuple(unit["shape2"]), tuple(unit["shape3"])
        rng = _rng(seed, f"where:{sa}:{sb}:{sc}")
        pt_, pc, pu = patterns_for_shape(sa, tier), patterns_for_shape(sb, tier), patterns_for_shape(sc, tier)
        ft = [fill_data(p, rng, dtype="float64") for p in pt_]
        fc = [fill_data(p, rng, dtype="bool") for p in pc]
        fu = [fill_data(p, rng, dtype="float64") for p in pu]
        others = [0.0, 1.0, -inf, inf, 2.5, nan]
        for i, j in itertools.product(range(len(pt_)), range(len(pc))):
            ks = sorted({(i + j) % len(pu), (3 * i + 5 * j + 1) % len(pu), 0} | ({(7 * i + j + 2) % len(pu), (i + 11 * j + 3) % len(pu), len(pu) - 1} if th else set()))
            if th and (i * 5 + j) % max(1, (len(pt_) * len(pc)) // 3000): continue
            for k in ks:
                if not (G.compatible(pt_[i], pc[j], True) and G.compatible(pc[j], pu[k], True) and G.compatible(pt_[i], pu[k], True)):
                    continue                                                        # ill-typed triple
                for cd in (False, True):
                    rt = dict(ft[i]); rt["default"] = enc(others[(i + j + k) % 6])
                    rc = dict(fc[j]); rc["default"] = cd
                    ru = dict(fu[k]); ru["default"] = enc(others[(2 * i + j + 3 * k + 1) % 6])
                    yield {"op": "where", "ops": [rt, rc, ru], "args": []}
    elif kind == "pairs":      # copy_, project, expand_as, stack over pairs / triples of one shape
        shape = tuple(unit["shape"])
        rng = _rng(seed, f"pairs:{shape}")
        pats = patterns_for_shape(shape, tier)
        f = [fill_data(p, rng, dtype="float64", default=DEFAULTS7[i % 7]) for i, p in enumerate(pats)]
        nd = len(shape)
        for i, j in itertools.product(range(len(pats)), repeat=2):
            if th and (i * 3 + j) % max(1, (len(pats) ** 2) // 6000): continue
            dflt = f[i]["default"]
            if dec(dflt) != dec(dflt): dflt = 2.5      # stack requires equal defaults: NaN is not meaningful
            if G.compatible(pats[i], pats[j]):
                yield {"op": "project", "ops": [f[i]], "args": [{"pool": pats[j]["pool"], "vaxes": pats[j]["vaxes"]}]}
            if not G.compatible(pats[i], pats[j]): continue
            ri = dict(f[i]); ri["default"] = dflt
            rj = dict(f[j]); rj["default"] = dflt
            for dim in ([0, nd] if not th else range(nd + 1)):
                yield {"op": "stack", "ops": [ri, rj], "args": [dim]}
            k = (i + 2 * j + 1) % len(pats)
            if G.compatible(pats[i], pats[k]) and G.compatible(pats[j], pats[k]):
                rk = dict(f[k]); rk["default"] = dflt
                yield {"op": "stack", "ops": [ri, rj, rk], "args": [(i + j) % (nd + 1)]}
        for i in range(len(pats)):
            yield {"op": "stack", "ops": [f[i]], "args": [i % (nd + 1)]}
            if dec(f[i]["default"]) == dec(f[i]["default"]):
                yield {"op": "stack", "ops": [f[i], f[i]], "args": [0]}
            for name in ("add_self", "mul_self", "sub_self", "maximum_self", "eq_self"):
                yield {"op": name, "ops": [f[i]], "args": []}
    elif kind == "copy":       # copy_ between any two patterns (any shapes)
        sa, sb = tuple(unit["shape"]), tuple(unit["shape2"])
        rng = _rng(seed, f"copy:{sa}:{sb}")
        pa, pb = patterns_for_shape(sa, tier), patterns_for_shape(sb, tier)
        fa = [fill_data(p, rng, dtype="float64", default=DEFAULTS7[i % 7]) for i, p in enumerate(pa)]
        fb = [fill_data(p, rng, dtype=("float32" if i % 4 == 3 else "float64"), default=DEFAULTS7[(i + 2) % 7])
              for i, p in enumerate(pb)]
        for i, j in itertools.product(range(len(pa)), range(len(pb))):
            if th and (i * 3 + j) % max(1, (len(pa) * len(pb)) // 3000): continue
            yield {"op": "copy_", "ops": [fa[i], fb[j]], "args": []}
            if sa != sb and len(sa) <= len(sb) and all(a in (1, b) for a, b in zip(reversed(sa), reversed(sb))):
                yield {"op": "expand_as", "ops": [fa[i], fb[j]], "args": []}
    elif kind == "prog":
        shape = tuple(unit["shape"])
        rng = _rng(seed, f"prog:{shape}:{unit.get('part', 0)}")
        pats = patterns_for_shape(shape, unit.get("ptier", tier))     # programs always run on the quick pattern set
        nd = len(shape)
        steps = [["abs", []], ["exp", []], ["neg_", []], ["relu_", []], ["abs_", []], ["T", []], ["flatten", []],
                 ["unsqueeze", [0]], ["unsqueeze", [-1]], ["permute", [list(reversed(range(nd)))]],
                 ["__getitem__", [0]], ["__getitem__", [max(shape[0] - 1, 0) if nd else 0]],
                 ["add_scalar", [1]], ["mul_scalar", [0]], ["mul_scalar", [-1]], ["lt_scalar", [0]], ["clamp_min", [0]],
                 ["clone", []], ["default_to", [1.0]], ["default_to", ["-inf"]], ["dim_to_dense", [0]],
                 ["dim_to_dense", [nd - 1]], ["reshape", [[-1], "list"]], ["reshape", [[-1, 1], "list"]],
                 ["reshape", [[1, -1], "list"]], ["expand", [[2] + list(shape)]], ["add_self", []], ["mul_self", []],
                 ["maximum_self", []], ["log_softmax", [0]], ["nan_to_num_", [0, "inf", None]], ["to", ["float32"]],
                 ["norm", [2, 0, True]], ["eq_self", []], ["expm1", []]]
        L = 3 if th else 2
        if not th:
            drop = {("abs_",), ("unsqueeze", -1), ("mul_scalar", -1), ("default_to", "-inf"), ("reshape", 1), ("mul_self",), ("expm1",), ("eq_self",)}
            steps = [st for st in steps if (st[0],) not in drop and not (st[0] == "unsqueeze" and st[1] == [-1])
                     and not (st[0] == "mul_scalar" and st[1] == [-1]) and not (st[0] == "default_to" and st[1] == ["-inf"])
                     and not (st[0] == "reshape" and st[1][0] == [1, -1])]
            if len(pats) > 12: pats = pats[::2]
        for pi, p in enumerate(pats):
            if pi % unit.get("parts", 1) != unit.get("part", 0): continue
            r = fill_data(p, rng, dtype="float64", default=DEFAULTS7[pi % 7])
            if L == 2:
                progs = itertools.product(steps, repeat=2)
            else:
                allp = list(itertools.product(steps, repeat=3))
                progs = [allp[k] for k in range((pi * 7) % 31, len(allp), 31)]
            for pr in progs:
                if len(steps) and pr[0][0] in ("lt_scalar", "eq_self") and pr[1][0] not in (
                        "T", "flatten", "unsqueeze", "permute", "__getitem__", "clone", "dim_to_dense", "reshape", "expand"):
                    continue   # float-only second step after a bool-valued first step
                yield {"prog": [list(s) for s in pr], "ops": [r]}


GROUP_OF = {"unary": "elementwise maps, scalar ops and in-place forms (default twin == physical twin)",
            "struct": "structural ops (permute transpose t T flatten unsqueeze expand getitem iter tolist any log_softmax norm dim_to_dense default_to project clone to reshape view)",
            "binary": "binary ops between two patterned tensors (add mul sub div logaddexp maximum logical_and/or lt le gt ge eq, in-place mul/div)",
            "where": "where(t, c, u) with a bool condition, incl. broadcasting",
            "pairs": "project / stack / self-aliased binary ops over pairs and triples of patterns",
            "copy": "copy_ and expand_as between patterns of any two shapes",
            "prog": "short programs (compositions of operations), denotation and wf after each step"}


def _run_unit(unit: dict) -> dict:
    torch.set_num_threads(1)
    from fggs import indices as I
    c0 = dict(I._verif_stats)
    t0 = time.time(); tp0 = time.process_time()
    cases = 0
    distinct = set()
    nontriv = 0
    fails = []
    per_key: Dict[str, int] = {}
    samples = []
    ops_seen: Dict[str, int] = {}
    for case in gen_unit(unit):
        cases += 1
        opn = case.get("op", "prog")
        ops_seen[opn] = ops_seen.get(opn, 0) + 1
        h = hashlib.md5(canonical(case).encode()).digest()[:8]
        if h not in distinct:
            distinct.add(h)
            if any(_nontrivial(r) for r in case["ops"]): nontriv += 1
        if cases in (2, 50) and len(samples) < 2: samples.append(case)
        try:
            v = check_case(case)
        except Exception as e:   # harness error: never silently dropped
            v = [(f"{opn}.harness", f"{type(e).__name__}: {e}")]
        for obl, det in v:
            k = _key(obl, case, det)
            per_key[k] = per_key.get(k, 0) + 1
            if per_key[k] <= 3:
                fails.append({"obligation": obl, "key": k, "case": case, "detail": det})
    c1 = I._verif_stats
    return {"kind": unit["kind"], "cases": cases, "distinct": len(distinct), "nontrivial": nontriv,
            "fails": fails, "per_key": per_key, "samples": samples, "ops": ops_seen,
            "checked": c1["checked"] - c0["checked"], "skipped": c1["skipped"] - c0["skipped"],
            "wall": time.process_time() - tp0, "unit": {k: v for k, v in unit.items()}}


def _bshapes(numel_max):
    return [s for s in all_shapes(numel_max, 2)] + [(1, 2, 2), (2, 1, 2), (2, 2, 1), (1, 1, 2)]


def _broadcast_pairs(numel_max):
    shapes = _bshapes(numel_max)
    out = []
    for a in shapes:
        for b in shapes:
            if a == b: continue
            try:
                r = torch.broadcast_shapes(a, b)
            except RuntimeError:
                continue
            if G._prod(r) <= numel_max: out.append((a, b))
    return out


def make_units(ctx: Ctx) -> List[dict]:
    tier, seed = ctx.tier, ctx.seed
    th = ctx.thorough
    U = []
    nmax = 8 if th else 6
    for s in _shapes(tier, 6):
        U.append({"kind": "unary", "shape": list(s)})
        U.append({"kind": "struct", "shape": list(s)})
    bmax = 6 if th else 4
    for s in _bshapes(bmax) + [(0,), (0, 2)]:
        U.append({"kind": "binary", "shape": list(s), "shape2": list(s)})
        U.append({"kind": "pairs", "shape": list(s)})
    for s in ([(6,), (2, 3), (3, 2), (5,)] if not th else []):       # covering pairs beyond the bound
        U.append({"kind": "binary", "shape": list(s), "shape2": list(s), "stride": 5})
    bp = _broadcast_pairs(bmax)
    for a, b in bp:
        U.append({"kind": "binary", "shape": list(a), "shape2": list(b), "stride": 1 if th else 3})
    for s in _bshapes(4):
        U.append({"kind": "where", "shape": list(s), "shape2": list(s), "shape3": list(s)})
    wb = [((2, 2), (2,), (2, 2)), ((2,), (2, 2), (1,)), ((), (2, 2), (2, 1)), ((1, 2), (2, 1), ()), ((2, 1), (2,), (2,)),
          ((3,), (1,), (3,)), ((1,), (3,), ()), ((2, 2), (2, 2), ()), ((), (2,), (2,)), ((1, 2, 2), (2,), (2, 1))]
    for a, b, c in wb:
        U.append({"kind": "where", "shape": list(a), "shape2": list(b), "shape3": list(c)})
    cs = [(), (2,), (4,), (2, 2), (1, 2), (3,), (2, 3), (6,), (0,)]
    for a in cs:
        for b in cs:
            U.append({"kind": "copy", "shape": list(a), "shape2": list(b)})
    for s in ([(), (2,), (3,), (4,), (2, 2), (1, 2), (2, 1), (2, 3), (6,), (1, 2, 2), (2, 1, 2), (0,), (0, 2)]
              if not th else _shapes(tier, 6)):
        U.append({"kind": "prog", "shape": list(s), "ptier": "quick"})
    V = []
    for u in U:
        n = max(len(patterns_for_shape(tuple(u["shape"]), tier)), len(patterns_for_shape(tuple(u.get("shape2", u["shape"])), tier)))
        parts = 1
        if u["kind"] in ("unary", "struct", "prog") and n > 12: parts = 3 if not th else 8
        if u["kind"] == "binary" and n > 20 and u.get("stride", 1) == 1: parts = 6 if not th else 12
        for part in range(parts):
            v = dict(u); v["parts"] = parts; v["part"] = part; V.append(v)
    for u in V:
        u["tier"] = tier; u["seed"] = seed
    return V


def run_bounded(ctx: Ctx) -> Report:
    import multiprocessing as mp
    t0 = time.time()
    torch.set_num_threads(1)
    rep = Report(property_id="C06", level="exploration")
    units = make_units(ctx)
    # heavy units first
    order = sorted(range(len(units)), key=lambda i: -{"prog": 5, "binary": 4, "struct": 3, "where": 3, "unary": 2, "pairs": 2, "copy": 1}[units[i]["kind"]])
    mpctx = mp.get_context("fork")
    with mpctx.Pool(max(1, ctx.jobs)) as pool:
        res_unordered = pool.map(_run_unit, [units[i] for i in order], chunksize=1)
    results = [None] * len(units)
    for i, r in zip(order, res_unordered): results[i] = r
    checked = sum(r["checked"] for r in results); skipped = sum(r["skipped"] for r in results)
    per_key_total: Dict[str, int] = {}
    kept: Dict[str, int] = {}
    for kind, title in GROUP_OF.items():
        rs = [r for r in results if r["kind"] == kind]
        if not rs: continue
        ops: Dict[str, int] = {}
        for r in rs:
            for k, v in r["ops"].items(): ops[k] = ops.get(k, 0) + v
        bound = {"unary": "all shapes numel<=6 ndim<=3 (+3 zero-size) x pattern set of T (every pattern for ndim<=2, every 3rd for ndim 3; incl. stride-0/transposed storage) x defaults {0,1,-inf,inf,2.5,-2.5,nan} x every unary/in-place op x nan_to_num_ argument sets x scalars {0,1,-1,2.5,inf} (all 5 on every 8th pattern, one rotating otherwise; every (op, default, scalar) triple occurs in every shape with >=5 patterns); float64/float32, bool, int64",
                 "struct": "same pattern set; every dim / permutation / index prefix / unsqueeze position / expand size vector over {n,1,2,3} / every target shape of equal numel with ndim<=3",
                 "binary": (f"all well-typed (gen_pt.compatible) pairs of patterns over equal shapes numel<={6 if ctx.thorough else 4}, ndim<=2 (+4 three-dimensional, +2 zero-size)"
                            + ("" if ctx.thorough else " (+every 5th pair of (6,),(2,3),(3,2),(5,))") + " and every "
                            + ("" if ctx.thorough else "3rd ") + "pair over torch-broadcastable shape pairs"
                            + (" (thorough pattern set, <= ~1500 pairs per shape pair)" if ctx.thorough else "")
                            + "; per op " + ("7" if ctx.thorough else "2 rotating of the 4") + " default pairs (id,id),(id,x),(x,id),(x,y), x,y in {0,1,-inf,inf,2.5,nan}; bool defaults for logical ops"),
                 "where": "all well-typed (t,c) pattern pairs x 3 (thorough 6) u patterns x c.default in {F,T} over equal shapes numel<=4 and 10 broadcasting shape triples",
                 "pairs": "all ordered pairs (project, stack of 2) and derived triples (stack of 3) of patterns per shape numel<=4",
                 "copy": "all pattern pairs over 9x9 shape pairs (any two shapes)",
                 "prog": ("every 31st composition of 3 steps from 35 step instances x every quick-set pattern of all shapes numel<=6" if ctx.thorough
                          else "all compositions of 2 steps from 27 step instances x every (every 2nd if >12) pattern of 13 shapes")}[kind]
        rep.bounded.append(Bounded(
            function=f"PatternedTensor: {title}", bound=bound,
            cases=sum(r["cases"] for r in rs), distinct_nontrivial=sum(r["nontrivial"] for r in rs),
            rule="cases enumerated per (shape, pattern, default, op, argument); distinct = distinct canonical JSON case; "
                 "non-trivial = some operand is not the plain dense pattern (has a default-backed element, a product/sum/shared axis or non-contiguous storage)",
            samples=[s for r in rs for s in r["samples"]][:3],
            exhaustive=(kind in ("unary", "struct", "pairs", "copy") or (kind == "binary")) and False,
            extra={"ops": ops, "distinct": sum(r["distinct"] for r in rs), "wall_cpu_s": round(sum(r["wall"] for r in rs), 1)}))
        for r in rs:
            for k, v in r["per_key"].items(): per_key_total[k] = per_key_total.get(k, 0) + v
            for f in r["fails"]:
                if kept.get(f["key"], 0) >= 3: continue
                kept[f["key"]] = kept.get(f["key"], 0) + 1
                case = dict(f["case"]); case["_obligation"] = f["obligation"]
                desc = " ; ".join(depict(x) for x in f["case"]["ops"])
                what = f"{f['case'].get('op', 'prog ' + json.dumps(f['case'].get('prog')))} args={json.dumps(f['case'].get('args', []))} on {desc}"
                rep.failures.append(Failure(obligation="PatternedTensor." + f["obligation"], what=what[:300],
                                            replay={"module": MODULE, "func": "replay_case", "case": case},
                                            detail=f["detail"][:600], key=f["key"]))
    if rep.bounded:
        rep.bounded[0].extra["rep_invariant_checks"] = {"checked": checked, "skipped": skipped}
    rep.extra["rep_invariant_checks"] = {"checked": checked, "skipped": skipped}
    rep.extra["c06_failure_counts_by_key"] = dict(sorted(per_key_total.items()))
    rep.extra["c06_bounded_wall_s"] = round(time.time() - t0, 1)
    rep.extra["c06_units"] = {"n": len(units), "cpu_s_total": round(sum(r["wall"] for r in results), 1),
                              "cpu_s_max_unit": round(max(r["wall"] for r in results), 1)}
    rep.functions_under_contract += ["fggs.indices.PatternedTensor.*", "fggs.indices.stack", "fggs.indices.project",
                                     "fggs.indices.reshape_or_view", "fggs.indices.broadcast"]
    return rep


if __name__ == "__main__":
    import sys
    tier = sys.argv[1] if len(sys.argv) > 1 else "quick"
    t0 = time.time()
    r = run_bounded(Ctx("C06", tier, 0))
    print("wall", round(time.time() - t0, 1), "failures", len(r.failures), r.extra["c06_units"], r.extra["rep_invariant_checks"])
    for b in r.bounded: print(b.function[:60], b.cases, b.distinct_nontrivial, b.extra.get("wall_cpu_s"))
    for k, v in r.extra["c06_failure_counts_by_key"].items(): print(v, k)
    if len(sys.argv) > 2:
        json.dump([{"obligation": f.obligation, "key": f.key, "what": f.what, "detail": f.detail, "case": f.replay["case"]}
                   for f in r.failures], open(sys.argv[2], "w"), indent=0)
