"""C10 bounded contract checker -- tree decompositions are valid; exact methods are optimal.

Runs the real fggs.factorize.{tree_decomposition, min_fill, quickbb, minor_min_width} on
every labelled simple graph up to a vertex bound and evaluates the contract taken from
the property text against independent oracles (subset-DP treewidth, own validity checker
for tree decompositions, own elimination-game simulator).  BOUNDED, never counted as proved.

Case recipe (JSON):
  {"n": 4, "edges": [[0,1],[2,3]], "order": [3,1,0,2], "names": "int"|"str",
   "fn": "tree_decomposition", "method": "acb"}          -- or  "fn": "helpers"
vertex i is called i ("int") or STR_NAMES[i] ("str"); the adjacency dict is filled in the
given insertion order of the vertices.
"""
from __future__ import annotations
import hashlib, itertools, json, os, random, time, warnings
from typing import Any, Dict, List, Tuple

from vf.core import Ctx, Report, Bounded, Failure

MODULE = "props.c10_bounded"
METHODS = ("min_fill", "quickbb", "acb")
# deliberately not in alphabetical order, so that int order != name order
STR_NAMES = ["q", "b", "x", "a", "m", "c", "z", "d", "k", "e", "w", "f", "j", "g", "y", "h",
             "p", "i", "v", "l", "u", "n", "t", "o", "s", "r"]
MAX_FAIL_PER_KEY = 3


# ----------------------------------------------------------------------------- recipes

def canon(case) -> str:
    return json.dumps(case, sort_keys=True, separators=(",", ":"))


def vname(case, i):
    if case["names"] == "int":
        return i
    if i < len(STR_NAMES):
        return STR_NAMES[i]
    return "v%d" % i


def build_graph(case) -> Dict[Any, set]:
    g: Dict[Any, set] = {}
    for i in case["order"]:
        g[vname(case, i)] = set()
    for a, b in case["edges"]:
        g[vname(case, a)].add(vname(case, b))
        g[vname(case, b)].add(vname(case, a))
    return g


def pairs(n):
    return [(i, j) for i in range(n) for j in range(i + 1, n)]


def edges_of_mask(n, mask):
    return [[i, j] for k, (i, j) in enumerate(pairs(n)) if mask >> k & 1]


# ----------------------------------------------------------------------------- oracles

def adj_masks(n, edges):
    adj = [0] * n
    for a, b in edges:
        adj[a] |= 1 << b
        adj[b] |= 1 << a
    return adj


def tw_oracle(n, edges) -> int:
    """Treewidth by DP over subsets of eliminated vertices (Bodlaender et al. 2006):
    TW(S) = min_{v in S} max(TW(S-v), |Q(S-v, v)|), Q(S,v) = vertices outside S+v that are
    reachable from v through S.  tw(empty graph) is returned as -1 (never compared)."""
    if n == 0:
        return -1
    adj = adj_masks(n, edges)
    full = (1 << n) - 1
    tw = [0] * (1 << n)
    for S in range(1, full + 1):
        best = n
        for v in range(n):
            if not S >> v & 1:
                continue
            R = S & ~(1 << v)
            sub = tw[R]
            if sub >= best:
                continue
            comp = 1 << v
            while True:
                nb = 0
                c = comp
                while c:
                    low = c & -c
                    nb |= adj[low.bit_length() - 1]
                    c ^= low
                new = comp | (nb & R)
                if new == comp:
                    break
                comp = new
            q = bin(nb & ~comp & full).count("1")
            w = sub if sub > q else q
            if w < best:
                best = w
        tw[S] = best
    return tw[full]


def order_width(g, order):
    """Own elimination game: max degree at elimination time; None if `order` is not a permutation."""
    if len(order) != len(g) or set(order) != set(g):
        return None
    h = {u: set(g[u]) for u in g}
    w = 0
    for v in order:
        nb = h.pop(v)
        w = max(w, len(nb))
        for a in nb:
            h[a].discard(v)
        for a in nb:
            for b in nb:
                if a != b:
                    h[a].add(b)
    return w


def td_violations(g, t) -> List[Tuple[str, str]]:
    """Own validity check.  Returns [(clause, detail)]."""
    out = []
    if not isinstance(t, dict):
        return [("shape", f"result is {type(t).__name__}, not a dict")]
    V = set(g)
    for b, nbs in t.items():
        if not isinstance(b, frozenset):
            out.append(("shape", f"bag {b!r} is not a frozenset"))
            return out
        if not b <= V:
            out.append(("shape", f"bag {sorted(map(str, b))} contains non-vertices"))
        for c in nbs:
            if c not in t:
                out.append(("shape", "tree neighbour is not a bag of the tree"))
                return out
            if b not in t[c]:
                out.append(("shape", "tree adjacency not symmetric"))
            if c == b:
                out.append(("tree", "self-loop on a bag"))
    if out:
        return out
    nb = len(t)
    ne = sum(len(x) for x in t.values()) // 2
    if nb == 0:
        if len(V) > 0:
            out.append(("tree", "no bags at all"))
        return out
    # connected
    start = next(iter(t))
    seen = {start}
    todo = [start]
    while todo:
        b = todo.pop()
        for c in t[b]:
            if c not in seen:
                seen.add(c)
                todo.append(c)
    if len(seen) != nb:
        out.append(("tree", f"bag graph not connected ({len(seen)} of {nb} bags reachable)"))
    if ne != nb - 1:
        out.append(("tree", f"bag graph has {ne} edges for {nb} bags (not a tree)"))
    # vertex cover
    missing = [v for v in g if not any(v in b for b in t)]
    if missing:
        out.append(("vertex_cover", f"vertices in no bag: {sorted(map(str, missing))}; bags={fmt_tree(t)}"))
    # edge cover
    for u in g:
        for v in g[u]:
            if not any(u in b and v in b for b in t):
                out.append(("edge_cover", f"edge {u}-{v} in no bag; bags={fmt_tree(t)}"))
                break
        else:
            continue
        break
    # running intersection: bags containing v induce a connected subgraph of the tree
    for v in g:
        bs = [b for b in t if v in b]
        if not bs:
            continue
        s = {bs[0]}
        todo = [bs[0]]
        while todo:
            b = todo.pop()
            for c in t[b]:
                if v in c and c not in s:
                    s.add(c)
                    todo.append(c)
        if len(s) != len(bs):
            out.append(("running_intersection", f"bags containing {v} are not connected; bags={fmt_tree(t)}"))
            break
    return out


def fmt_tree(t):
    return sorted(sorted(map(str, b)) for b in t)


def graph_class(n, edges):
    if n == 0:
        return "empty-graph"
    adj = adj_masks(n, edges)
    iso = any(a == 0 for a in adj)
    seen = 0
    comps = 0
    for v in range(n):
        if seen >> v & 1:
            continue
        comps += 1
        comp = 1 << v
        while True:
            nbm = 0
            for u in range(n):
                if comp >> u & 1:
                    nbm |= adj[u]
            if comp | nbm == comp:
                break
            comp |= nbm
        seen |= comp
    if iso and n >= 2:
        return "singleton-component+others"
    if comps > 1:
        return "disconnected"
    return "connected"


# ----------------------------------------------------------------------------- contract evaluation

def check_td_case(case, tw=None) -> List[Tuple[str, str]]:
    """tree_decomposition contract on one recipe -> [(clause, detail)]"""
    from fggs import factorize as F
    n, edges, method = case["n"], case["edges"], case["method"]
    g = build_graph(case)
    arg = {u: set(g[u]) for u in g}          # the function may consume its argument
    with warnings.catch_warnings():
        warnings.simplefilter("ignore")
        try:
            t = F.tree_decomposition(arg, method=method)
        except BaseException as e:           # AssertionError included: the call must succeed
            if isinstance(e, (KeyboardInterrupt, MemoryError)):
                raise
            return [("returns", f"observed {type(e).__name__}: {e}; expected a tree decomposition")]
    out = td_violations(g, t)
    if n >= 1 and not any(c == "shape" for c, _ in out):
        if tw is None:
            tw = tw_oracle(n, edges)
        width = max((len(b) for b in t), default=0) - 1
        if method in ("acb", "quickbb"):
            if width != tw:
                out.append(("width_optimal", f"observed width {width}; expected treewidth {tw}; bags={fmt_tree(t)}"))
        else:
            if width < tw and not out:
                out.append(("width_ge_tw", f"observed width {width} < treewidth {tw}"))
            with warnings.catch_warnings():
                warnings.simplefilter("ignore")
                dmax, _ = F.min_fill({u: set(g[u]) for u in g})
            if width != dmax:
                out.append(("width_reported", f"observed width {width}; min_fill reports {dmax}; bags={fmt_tree(t)}"))
    return out


def check_helpers_case(case, tw=None) -> List[Tuple[str, str]]:
    from fggs import factorize as F
    n, edges = case["n"], case["edges"]
    g = build_graph(case)
    if tw is None:
        tw = tw_oracle(n, edges)
    out = []

    def snapshot(h):
        return [(u, frozenset(h[u])) for u in h]

    # min_fill
    arg = {u: set(g[u]) for u in g}
    before = snapshot(arg)
    try:
        dmax, order = F.min_fill(arg)
        if snapshot(arg) != before:
            out.append(("min_fill.frame", "min_fill mutated its argument"))
        w = order_width(g, list(order))
        if w is None:
            out.append(("min_fill.order_perm", f"observed order {order}; expected a permutation of {list(g)}"))
        elif w != dmax:
            out.append(("min_fill.width_reported", f"observed dmax {dmax}; width of returned order {w}"))
        if n >= 1 and dmax < tw:
            out.append(("min_fill.upper_bound", f"observed min_fill {dmax} < treewidth {tw}"))
    except Exception as e:
        out.append(("min_fill.returns", f"observed {type(e).__name__}: {e}"))
    # minor_min_width
    try:
        lb = F.minor_min_width({u: set(g[u]) for u in g})
        if n >= 1 and lb > tw:
            out.append(("minor_min_width.lower_bound", f"observed minor_min_width {lb} > treewidth {tw}"))
    except Exception as e:
        out.append(("minor_min_width.returns", f"observed {type(e).__name__}: {e}"))
    # quickbb
    try:
        ub, order = F.quickbb({u: set(g[u]) for u in g})
        if n >= 1 and ub != tw:
            out.append(("quickbb.width_optimal", f"observed quickbb width {ub}; expected treewidth {tw}"))
        w = order_width(g, list(order))
        if w is None:
            out.append(("quickbb.order_perm", f"observed order {order}; expected a permutation of {list(g)}"))
        elif w != ub:
            out.append(("quickbb.order_width", f"observed reported width {ub}; width of returned order {w}"))
    except Exception as e:
        out.append(("quickbb.returns", f"observed {type(e).__name__}: {e}"))
    return out


def check_case(case, tw=None):
    if case["fn"] == "helpers":
        return check_helpers_case(case, tw)
    return check_td_case(case, tw)


def nontrivial(case):
    return case["n"] >= 2


# ----------------------------------------------------------------------------- enumeration

def insertion_orders(n, seed, tag):
    ident = list(range(n))
    rev = ident[::-1]
    r = random.Random(f"{seed}:C10:{tag}")
    sh = ident[:]
    r.shuffle(sh)
    return [(ident, "int"), (rev, "str"), (sh, "int")]


def cases_for_graph(n, edges, seed, tag, methods=METHODS, helpers=True, orders=None):
    out = []
    for order, names in (orders or insertion_orders(n, seed, tag)):
        base = {"n": n, "edges": edges, "order": order, "names": names}
        for m in methods:
            out.append(dict(base, fn="tree_decomposition", method=m))
        if helpers:
            out.append(dict(base, fn="helpers"))
    return out


def _init_worker():
    try:
        import torch
        torch.set_num_threads(1)
    except Exception:
        pass


def _work(chunk):
    """chunk: list of (n, edges, tag, methods, helpers, seed) -> stats + failures"""
    res = {"td": [0, []], "helpers": [0, []], "fails": []}
    for n, edges, tag, methods, helpers, seed in chunk:
        tw = tw_oracle(n, edges)
        gcls = graph_class(n, edges)
        for case in cases_for_graph(n, edges, seed, tag, methods, helpers):
            grp = "helpers" if case["fn"] == "helpers" else "td"
            res[grp][0] += 1
            if nontrivial(case):
                res[grp][1].append(hashlib.sha1(canon(case).encode()).digest()[:10])
            for clause, detail in check_case(case, tw):
                res["fails"].append({"case": case, "clause": clause, "detail": detail, "gclass": gcls, "tw": tw})
    return res


def structured_graphs(thorough):
    """named graphs beyond the exhaustive bound: (tag, n, edges, methods)"""
    out = []

    def grid(r, c):
        idx = lambda i, j: i * c + j
        e = []
        for i in range(r):
            for j in range(c):
                if j + 1 < c: e.append([idx(i, j), idx(i, j + 1)])
                if i + 1 < r: e.append([idx(i, j), idx(i + 1, j)])
        return r * c, sorted(e)

    def clique(n):
        return n, [[i, j] for i, j in pairs(n)]

    out.append(("grid2x3", *grid(2, 3), METHODS))
    out.append(("K6", *clique(6), METHODS))
    out.append(("path6", 6, [[i, i + 1] for i in range(5)], METHODS))
    out.append(("star6+isolated", 7, [[0, i] for i in range(1, 6)], METHODS))

    def path_joined_to_two_cliques(p, q):
        """a path on p vertices (numbered first) completely joined to two disjoint q-cliques: many k-separators
        whose components are not embeddable -- stresses the NO / YES bookkeeping of acb_connected"""
        e = [[i, i + 1] for i in range(p - 1)]
        for c0 in (p, p + q):
            e += [[c0 + i, c0 + j] for i, j in pairs(q)]
            e += [[i, c0 + j] for i in range(p) for j in range(q)]
        return p + 2 * q, sorted(e)

    out.append(("P6*(K3+K3)", *path_joined_to_two_cliques(6, 3), ("acb", "min_fill")))
    out.append(("P4*(K2+K2)", *path_joined_to_two_cliques(4, 2), METHODS))
    if thorough:
        out.append(("P7*(K4+K4)", *path_joined_to_two_cliques(7, 4), ("acb", "min_fill")))
        out.append(("P5*(K3+K3)", *path_joined_to_two_cliques(5, 3), METHODS))
    if thorough:
        out.append(("grid3x3", *grid(3, 3), METHODS))
        out.append(("grid3x4", *grid(3, 4), METHODS))
        out.append(("K8", *clique(8), METHODS))
        out.append(("K7", *clique(7), METHODS))
        out.append(("cycle7", 7, sorted([sorted([i, (i + 1) % 7]) for i in range(7)]), METHODS))
        out.append(("wheel7", 7, sorted([[0, i] for i in range(1, 7)] + [sorted([i, i % 6 + 1]) for i in range(1, 7)]), METHODS))
        out.append(("K3,4", 7, [[i, j] for i in range(3) for j in range(3, 7)], METHODS))
        out.append(("tree7", 7, [[0, 1], [0, 2], [1, 3], [1, 4], [2, 5], [2, 6]], METHODS))
        out.append(("2xK3+isolated", 7, [[0, 1], [0, 2], [1, 2], [3, 4], [3, 5], [4, 5]], METHODS))
        # the suite's own benchmark graphs, with the methods the suite itself runs on them,
        # restricted to those whose subset-DP oracle finishes (<= 18 vertices)
        suite = {"BidiakisCube.gr": ("min_fill", "acb", "quickbb"),
                 "BlanusaFirstSnarkGraph.gr": ("min_fill", "acb"),
                 "BlanusaSecondSnarkGraph.gr": ("min_fill", "acb")}
        d = os.path.join(os.environ.get("FGGS_REPO", "/repo"), "test", "graphs")
        for fn, ms in suite.items():
            p = os.path.join(d, fn)
            if not os.path.exists(p):
                continue
            ids: Dict[str, int] = {}
            es = set()
            with open(p) as f:
                for line in f:
                    if not line.strip() or line[0] in "cp":
                        continue
                    u, v = line.split()[:2]
                    for x in (u, v):
                        ids.setdefault(x, len(ids))
                    if ids[u] != ids[v]:
                        es.add(tuple(sorted((ids[u], ids[v]))))
            out.append((fn, len(ids), [list(e) for e in sorted(es)], ms))
    return out


def run_bounded(ctx: Ctx) -> Report:
    import multiprocessing as mp
    t0 = time.time()
    rep = Report(property_id="C10", level="exploration")
    # import the library (and torch) once in the parent: forked workers inherit it (the import costs seconds)
    import fggs, torch
    torch.set_num_threads(1)
    rep.functions_under_contract = ["fggs.factorize.tree_decomposition", "fggs.factorize.tree_decomposition_from_order",
                                    "fggs.factorize.acb", "fggs.factorize.acb_connected", "fggs.factorize.quickbb",
                                    "fggs.factorize.min_fill", "fggs.factorize.minor_min_width",
                                    "fggs.factorize.connected_components"]
    nmax = 6 if ctx.thorough else 5
    items = []
    for n in range(nmax + 1):
        for mask in range(1 << len(pairs(n))):
            items.append((n, edges_of_mask(n, mask), f"{n}:{mask}", METHODS, True, ctx.seed))
    n_exh = len(items)
    extra_items = []
    for tag, n, edges, ms in structured_graphs(ctx.thorough):
        extra_items.append((n, edges, tag, ms, len(ms) == 3 and n <= 12, ctx.seed))
    # larger seeded graphs for the exact method quickbb (its pruning rules only bite where min_fill is not
    # already optimal, which needs >= 8 vertices) -- seeded change C10-m2 lives here
    rb = ctx.rng("big-quickbb")
    n_big = 1500 if ctx.thorough else 120
    for nb in (8, 9, 10):
        pb = pairs(nb)
        for _ in range(n_big):
            dens = rb.choice([0.3, 0.4, 0.5, 0.6])
            mask = 0
            for k in range(len(pb)):
                if rb.random() < dens:
                    mask |= 1 << k
            extra_items.append((nb, edges_of_mask(nb, mask), f"{nb}:{mask}", ("quickbb", "min_fill"), False, ctx.seed))
    if ctx.thorough:
        r = ctx.rng("seven")
        p7 = pairs(7)
        seen = set()
        while len(seen) < 12000:
            dens = r.choice([0.15, 0.3, 0.5, 0.7])
            mask = 0
            for k in range(len(p7)):
                if r.random() < dens:
                    mask |= 1 << k
            if mask in seen:
                continue
            seen.add(mask)
            extra_items.append((7, edges_of_mask(7, mask), f"7:{mask}", METHODS, True, ctx.seed))
    # big ones first so that they do not become the tail
    allitems = sorted(extra_items, key=lambda it: -it[0]) + items
    big = [[it] for it in allitems if it[0] > 8]
    small = [it for it in allitems if it[0] <= 8]
    csize = max(1, min(200, len(small) // (ctx.jobs * 8) + 1))
    chunks = big + [small[i:i + csize] for i in range(0, len(small), csize)]
    if ctx.jobs > 1 and len(allitems) > 1000:      # the quick tier is ~2 s of work: forking costs more than it saves
        with mp.get_context("fork").Pool(ctx.jobs, initializer=_init_worker) as pool:
            results = pool.map(_work, chunks, chunksize=1)
    else:
        results = [_work(c) for c in chunks]

    td_cases = sum(r["td"][0] for r in results)
    h_cases = sum(r["helpers"][0] for r in results)
    td_dnt = len(set(d for r in results for d in r["td"][1]))
    h_dnt = len(set(d for r in results for d in r["helpers"][1]))
    bound = (f"all labelled simple graphs with <= {nmax} vertices ({n_exh} graphs), plus {len(extra_items)} named/"
             f"sampled larger graphs" + (" (12000 seeded 7-vertex graphs, grids 3x3/3x4, K7, K8, suite graphs <= 18 vertices)"
                                         if ctx.thorough else " (grid 2x3, K6, path6, star+isolated)"))
    rule = ("one case = (graph, insertion order of the adjacency dict in {identity/int names, reversed/str names, "
            "seeded shuffle/int names}, method); distinct = distinct canonical JSON recipe; non-trivial = graph has >= 2 "
            "vertices; width clauses are not evaluated on the empty graph (tw convention -1 vs 0); string vertex "
            "names iterate in hash order (deterministic under PYTHONHASHSEED, which ./check sets)")
    sample_base = {"n": 4, "edges": [[0, 1], [1, 2], [2, 3], [0, 3]], "order": [3, 2, 1, 0], "names": "str"}
    b_td = Bounded(function="fggs.factorize.tree_decomposition [valid_td + width]",
                   bound=bound + " x {min_fill, quickbb, acb} x 3 insertion orders",
                   cases=td_cases, distinct_nontrivial=td_dnt, rule=rule,
                   samples=[dict(sample_base, fn="tree_decomposition", method=m) for m in METHODS],
                   exhaustive=True)
    b_h = Bounded(function="fggs.factorize.min_fill/quickbb/minor_min_width [order, width, bracket]",
                  bound=bound + " x 3 insertion orders", cases=h_cases, distinct_nontrivial=h_dnt, rule=rule,
                  samples=[dict(sample_base, fn="helpers")], exhaustive=True)
    b_td.extra["exhaustive_for"] = f"labelled graphs with <= {nmax} vertices; larger graphs are samples"
    b_h.extra["exhaustive_for"] = b_td.extra["exhaustive_for"]

    # failures
    perkey: Dict[str, int] = {}
    allf = [f for r in results for f in r["fails"]]
    allf.sort(key=lambda f: (f["case"]["n"], len(f["case"]["edges"]), canon(f["case"]), f["clause"]))
    seen_f = set()
    for f in allf:
        case = f["case"]
        fn = case["fn"]
        ident = canon(case) + "|" + f["clause"]
        if ident in seen_f:      # the same recipe can arise from two insertion orders when n <= 2
            continue
        seen_f.add(ident)
        if fn == "helpers":
            obligation = f["clause"]
            key = f"{f['clause']}|{f['gclass']}"
        else:
            obligation = f"tree_decomposition.{f['clause']}"
            key = f"{case['method']}|{f['clause']}|{f['gclass']}"
        perkey[key] = perkey.get(key, 0) + 1
        if perkey[key] > MAX_FAIL_PER_KEY:
            continue
        rcase = dict(case, clause=f["clause"])
        what = (f"{fn}" + (f"(method={case['method']})" if fn != "helpers" else "") +
                f" on graph n={case['n']} edges={case['edges']} order={case['order']} names={case['names']}"
                f" [{f['gclass']}]: {f['clause']}")
        rep.failures.append(Failure(obligation=obligation, what=what,
                                    replay={"module": MODULE, "func": "replay_case", "case": rcase},
                                    detail=f["detail"][:500], key=key))
    b_td.extra["failures_per_key"] = {k: v for k, v in sorted(perkey.items()) if "|" in k and not k.split("|")[0].count(".")}
    b_h.extra["failures_per_key"] = {k: v for k, v in sorted(perkey.items()) if k.split("|")[0].count(".")}
    rep.bounded += [b_td, b_h]
    rep.extra["c10_bounded_wall_s"] = round(time.time() - t0, 2)
    rep.assumptions.append("C10: treewidth oracle is an own O(2^n n^2) subset DP; tw of the empty graph is not compared")
    return rep


def replay_case(case: dict) -> bool:
    case = dict(case)
    clause = case.pop("clause", None)
    g = build_graph(case)
    print("graph:", {u: sorted(g[u], key=str) for u in g}, "fn:", case["fn"], "method:", case.get("method"))
    print("treewidth (subset DP):", tw_oracle(case["n"], case["edges"]))
    fails = check_case(case)
    for c, d in fails:
        print(f"  VIOLATED {c}: {d}")
    if not fails:
        print("  contract holds")
    if clause is None:
        return bool(fails)
    return any(c == clause for c, _ in fails)
