"""C08 bounded supplement -- (1) add, mul and sub give the same result on torch Tensors and on
PatternedTensors of any pattern; (2) the semiring laws that must hold EXACTLY in IEEE arithmetic.

The semiring laws themselves are proof obligations elsewhere (semvc); this file is the bounded part
of C08 and is always labelled bounded.

(1) representation clause.  For each semiring S in {Real, Log, Viterbi, Bool} and op in {add, mul, sub}:
        S.op(build_pt(r1), build_pt(r2)).to_dense()  ==  S.op(dense(r1), dense(r2))
    NaN-aware, +-inf / NaN / zero positions exactly, finite values within 1e-12 relative (float64; the
    library computes the default of the result with Python's math functions and the elements with
    torch's kernels, which may differ in the last bit), 2e-6 in float32.  r1, r2 range over all pairs
    of patterns of vf.bounded.gen_pt.patterns_for_shape over a common shape that have a common index
    type per dimension (gen_pt.compatible -- the library is typed), data and defaults on the
    semiring's carrier (Real [0, inf], Log/Viterbi [-inf, inf], Bool), defaults from {zero, one, inf,
    a finite value}.  dense(r) is gen_pt.dense_oracle(r), independent of fggs.indices.
    Recipe: {"fn":"rep","sr":..,"dtype":..,"r1":tensor recipe,"r2":tensor recipe}

(2) IEEE supplement on plain 0-dim tensors, float32 and float64, on the grid
    {zero, smallest subnormal, 1e-38, 1, 3e38, inf} (Real: as is; Log/Viterbi: the natural logarithm of
    these, i.e. -inf ... +inf; Bool: {False, True}):
        add and mul commutative; x + zero = x; x * one = x; x * zero = zero (also x = inf);
        add_ leaves add(x, y) in x; and for the idempotent semirings (Viterbi, Bool) additionally
        x + x = x, add associative, mul distributes over add  (rounding is monotone, so these are exact);
        Bool: mul associative as well.   (Associativity of a floating-point sum/product is *not* exact and is
        not claimed.)
    Recipe: {"fn":"law","sr":..,"dtype":..,"law":name,"x":v,"y":v,"z":v}   (values JSON-encoded)
"""
from __future__ import annotations
import hashlib, itertools, json, math, random, time, warnings
from typing import Any, Dict, List, Optional, Tuple

import torch

from vf.core import Ctx, Report, Bounded, Failure
from vf.bounded import gen_pt as G

MODULE = "props.c08_bounded"
MAX_FAIL_PER_KEY = 3
INF = math.inf
SEMIRINGS = ("Real", "Log", "Viterbi", "Bool")
OPS = ("add", "mul", "sub")


def canon(case) -> str:
    return json.dumps(case, sort_keys=True, separators=(",", ":"))


def make_semiring(sr: str, dtype: str):
    from fggs import semirings as S
    if sr == "Bool":
        return S.BoolSemiring()
    return {"Real": S.RealSemiring, "Log": S.LogSemiring, "Viterbi": S.ViterbiSemiring}[sr](dtype=G.DTYPES[dtype])


def zero_of(sr):
    return False if sr == "Bool" else (0.0 if sr == "Real" else -INF)


def one_of(sr):
    return True if sr == "Bool" else (1.0 if sr == "Real" else 0.0)


def carrier_data(sr) -> List[Any]:
    if sr == "Bool": return [False, True]
    # 1e30 / 3e38: finite values whose product / sum leaves the range of float32 (torch then gives inf)
    if sr == "Real": return [0.0, 0.0, 1.0, 0.5, 2.5, "inf", 1e30]
    return ["-inf", "-inf", 0.0, -1.0, 2.5, "inf", 3e38]


def carrier_defaults(sr) -> List[Any]:
    """{zero, one, inf, a finite value}"""
    if sr == "Bool": return [False, True]
    if sr == "Real": return [0.0, 1.0, "inf", 2.5, 1e30]
    return ["-inf", 0.0, "inf", -1.5, 3e38]


class CaseTimeout(Exception):
    pass


CASE_TIMEOUT_S = 10.0


class time_limit:
    """SIGALRM guard: a call that does not return within CASE_TIMEOUT_S raises CaseTimeout (reported as a failure)"""
    def __enter__(self):
        import signal
        def on_alarm(signum, frame):
            raise CaseTimeout(f"no result after {CASE_TIMEOUT_S:.0f} s: does not terminate")
        self.old = signal.signal(signal.SIGALRM, on_alarm)
        signal.setitimer(signal.ITIMER_REAL, CASE_TIMEOUT_S)
    def __exit__(self, *a):
        import signal
        signal.setitimer(signal.ITIMER_REAL, 0)
        signal.signal(signal.SIGALRM, self.old)
        return False


# ============================================================================= (1) representation clause
def same_close(got: torch.Tensor, want: torch.Tensor, rtol: float) -> Optional[Tuple[str, str]]:
    if tuple(got.size()) != tuple(want.size()):
        return ("shape", f"observed shape {list(got.size())}; expected {list(want.size())}")
    if got.dtype != want.dtype:
        return ("dtype", f"observed dtype {got.dtype}; expected {want.dtype}")
    g, w = got.reshape(-1).tolist(), want.reshape(-1).tolist()
    for i, (a, b) in enumerate(zip(g, w)):
        if isinstance(b, bool):
            ok = a == b
        elif b != b or a != a:
            ok = (a != a) and (b != b)
        elif a == b:
            ok = True
        elif math.isinf(a) or math.isinf(b):
            ok = False
        else:
            ok = abs(a - b) <= rtol * max(abs(a), abs(b))
        if not ok:
            if isinstance(b, bool): kind = "bool"
            elif b == -INF and a <= -3e38: kind = "neginf-became-finite"
            elif b == INF and a >= 3e38 and a != INF: kind = "posinf-became-finite"
            elif a != a: kind = "nan-for-number"
            elif b != b: kind = "number-for-nan"
            else: kind = "value"
            return (kind, f"observed {fmt(g)}; expected {fmt(w)} (first differing flat element {i}: {a!r} vs {b!r})")
    return None


def fmt(xs) -> str:
    return "[" + ", ".join(("%.6g" % x) if isinstance(x, float) else str(x) for x in xs[:12]) + (", ..." if len(xs) > 12 else "") + "]"


def run_rep(case, ops=OPS) -> List[Tuple[str, str, str]]:
    sr, dtype = case["sr"], case["dtype"]
    S = make_semiring(sr, dtype)
    rtol = 2e-6 if dtype == "float32" else 1e-12
    out = []
    for op in ops:
        try:
            t1, t2 = G.build_pt(case["r1"]), G.build_pt(case["r2"])
            d1, d2 = G.dense_oracle(case["r1"]), G.dense_oracle(case["r2"])
        except Exception as e:
            return [("harness", "harness-build", f"{type(e).__name__}: {e}")]
        with warnings.catch_warnings(record=True) as wl:
            warnings.simplefilter("always")
            try:
                want = getattr(S, op)(d1, d2)
            except Exception as e:
                out.append((op, "harness-reference-raises", f"reference S.{op} on dense tensors raised {type(e).__name__}: {e}"))
                continue
            try:
                with time_limit():
                    got = getattr(S, op)(t1, t2).to_dense()
                exc = None
            except Exception as e:
                exc = e
        if any("index type mismatch" in str(w.message) for w in wl):
            return [("scope", "out-of-scope-type-mismatch", "")]
        if exc is not None:
            msg = str(exc).splitlines()[0][:160] if str(exc) else ""
            out.append((op, f"raises-{type(exc).__name__}", f"S.{op} on PatternedTensors raised {type(exc).__name__}: {msg}; "
                                                             f"on dense tensors it returns {fmt(want.reshape(-1).tolist())}"))
            continue
        c = same_close(got, want, rtol)
        if c:
            out.append((op, c[0], f"S.{op} on PatternedTensors: {c[1]} [expected = S.{op} on the dense tensors]"))
    return out


def rep_recipe(pat, sr, dtype, default, rng) -> Dict[str, Any]:
    r = {"pool": list(pat["pool"]), "vaxes": json.loads(json.dumps(pat["vaxes"])),
         "storage": pat.get("storage", "contig"), "dtype": "bool" if sr == "Bool" else dtype, "default": default}
    if r["storage"] == "expanded" and not r["pool"]:
        r["storage"] = "contig"
    vals = carrier_data(sr)
    r["data"] = [rng.choice(vals) for _ in range(G.data_len(r))]
    return r


def rep_units(ctx: Ctx):
    """(shape, i, j) for all compatible ordered pairs of patterns of every shape in the bound"""
    numel = 6 if ctx.thorough else 4
    shapes = G.all_shapes(numel, 3)
    units = []
    npairs = ncompat = 0
    for sh in shapes:
        pats = G.patterns_for_shape(sh, ctx.tier)
        for i, p in enumerate(pats):
            for j, q in enumerate(pats):
                npairs += 1
                if G.compatible(p, q):
                    ncompat += 1
                    units.append((sh, i, j))
    return units, {"shapes": len(shapes), "pattern pairs": npairs, "compatible (well-typed) pairs": ncompat}


def unit_cases(unit, seed, tier):
    sh, i, j = unit
    pats = G.patterns_for_shape(sh, tier)
    rng = random.Random(int(hashlib.sha256(f"{seed}:C08:{sh}:{i}:{j}".encode()).hexdigest()[:16], 16))
    k = (i * 131 + j * 17 + len(sh))
    for si, sr in enumerate(SEMIRINGS):
        ds = carrier_defaults(sr)
        combos = [(a, b) for a in ds for b in ds]
        # two default combinations per (pair, semiring), walking through all 25 (4 for Bool) as the pair index varies;
        # the first one always has at least one zero default (the sparse representation is then kept)
        picks = [combos[(k + si) % len(combos)], combos[(k * 7 + 3 * si + 5) % len(combos)]]
        if tier == "thorough":
            picks += [combos[(k * 3 + si + 1) % len(combos)]]
        for n, (da, db) in enumerate(picks):
            dtype = "float32" if (sr != "Bool" and (k + n) % 5 == 0) else "float64"
            yield {"fn": "rep", "sr": sr, "dtype": "bool" if sr == "Bool" else dtype,
                   "r1": rep_recipe(pats[i], sr, dtype, da, rng), "r2": rep_recipe(pats[j], sr, dtype, db, rng)}


def rep_nontrivial(case) -> bool:
    """at least one operand is not stored densely/contiguously, or has a non-zero default"""
    for r in (case["r1"], case["r2"]):
        if r["storage"] != "contig": return True
        if any(a[0] != "P" for a in r["vaxes"]): return True
        if len({a[1] for a in r["vaxes"]}) != len(r["vaxes"]): return True
    return False


def _rep_worker(args):
    units, seed, tier = args
    torch.set_num_threads(1)
    out = {"n": 0, "evals": 0, "fcount": {}, "digests": [], "fails": [], "oos": 0, "samples": []}
    for u in units:
        for case in unit_cases(u, seed, tier):
            try:
                res = run_rep(case)
            except Exception as e:
                res = [("harness", "harness-exception", f"{type(e).__name__}: {e}")]
            if res and res[0][1] == "out-of-scope-type-mismatch":
                out["oos"] += 1
                continue
            out["n"] += 1; out["evals"] += len(OPS)
            if rep_nontrivial(case):
                out["digests"].append(hashlib.md5(canon(case).encode()).digest()[:8])
                if len(out["samples"]) < 1: out["samples"].append(case)
            for clause, kc, detail in res:
                f = {"case": case, "clause": clause, "keyclass": kc, "detail": detail}
                k = fail_key(f)
                out["fcount"][k] = out["fcount"].get(k, 0) + 1
                if out["fcount"][k] <= 2 * MAX_FAIL_PER_KEY:
                    out["fails"].append(f)
    return out


# ============================================================================= (2) IEEE supplement
def grid(sr, dtype) -> List[Any]:
    if sr == "Bool": return [False, True]
    tiny = 1e-45 if dtype == "float32" else 5e-324
    real = [0.0, tiny, 1e-38, 1.0, 3e38, INF]
    if dtype == "float64": real += [1e-300, 1.7e308]
    if sr == "Real": return real
    # into the carrier [-inf, inf] of Log / Viterbi
    return [(-INF if v == 0 else (INF if v == INF else math.log(v))) for v in real]


def scalar(sr, dtype, v):
    return torch.tensor(G.dec(v), dtype=torch.bool if sr == "Bool" else G.DTYPES[dtype])


def same_scalar(a: torch.Tensor, b: torch.Tensor) -> bool:
    return G.same(a.reshape(()), b.reshape(()))


LAWS_ALL = ["add.commutative", "mul.commutative", "add.identity", "mul.identity", "mul.annihilation", "add_.agrees_with_add"]
LAWS_IDEMPOTENT = ["add.idempotent", "add.associative", "mul.distributes_over_add"]
ARITY = {"add.commutative": 2, "mul.commutative": 2, "add.identity": 1, "mul.identity": 1, "mul.annihilation": 1,
         "add_.agrees_with_add": 2, "add.idempotent": 1, "add.associative": 3, "mul.distributes_over_add": 3,
         "mul.associative": 3}


def laws_of(sr) -> List[str]:
    ls = list(LAWS_ALL)
    if sr in ("Viterbi", "Bool"): ls += LAWS_IDEMPOTENT
    if sr == "Bool": ls += ["mul.associative"]
    return ls


def run_law(case) -> List[Tuple[str, str, str]]:
    sr, dtype, law = case["sr"], case["dtype"], case["law"]
    S = make_semiring(sr, dtype)
    x = scalar(sr, dtype, case["x"]); y = scalar(sr, dtype, case.get("y", case["x"])); z = scalar(sr, dtype, case.get("z", case["x"]))
    zero, one = S.from_int(0), S.from_int(1)
    with warnings.catch_warnings():
        warnings.simplefilter("ignore")
        if law == "add.commutative": l, r = S.add(x, y), S.add(y, x)
        elif law == "mul.commutative": l, r = S.mul(x, y), S.mul(y, x)
        elif law == "add.identity": l, r = S.add(x, zero), x
        elif law == "mul.identity": l, r = S.mul(x, one), x
        elif law == "mul.annihilation": l, r = S.mul(x, zero), zero
        elif law == "add_.agrees_with_add":
            r = S.add(x, y); l = x.clone(); S.add_(l, y)
        elif law == "add.idempotent": l, r = S.add(x, x), x
        elif law == "add.associative": l, r = S.add(S.add(x, y), z), S.add(x, S.add(y, z))
        elif law == "mul.associative": l, r = S.mul(S.mul(x, y), z), S.mul(x, S.mul(y, z))
        elif law == "mul.distributes_over_add": l, r = S.mul(x, S.add(y, z)), S.add(S.mul(x, y), S.mul(x, z))
        else: raise ValueError(law)
    if l.dtype != r.dtype or not same_scalar(l, r):
        return [(law, "law-" + law, f"lhs = {l.item()!r} ({l.dtype}), rhs = {r.item()!r} ({r.dtype}) at x={case['x']} y={case.get('y')} z={case.get('z')}")]
    return []


def law_cases():
    for sr in SEMIRINGS:
        for dtype in (["bool"] if sr == "Bool" else ["float32", "float64"]):
            g = [G.enc(v) for v in grid(sr, dtype)]
            for law in laws_of(sr):
                for vs in itertools.product(g, repeat=ARITY[law]):
                    c = {"fn": "law", "sr": sr, "dtype": dtype, "law": law, "x": vs[0]}
                    if len(vs) > 1: c["y"] = vs[1]
                    if len(vs) > 2: c["z"] = vs[2]
                    yield c


# ============================================================================= driver
def run_case(case):
    return run_rep(case) if case["fn"] == "rep" else run_law(case)


def fail_key(f) -> str:
    c = f["case"]
    if c["fn"] == "law":
        return f"law:{c['sr']}:{c['dtype']}:{c['law']}"
    return f"rep:{c['sr']}:{f['clause']}:{f['keyclass']}"


def fail_what(f) -> str:
    c = f["case"]
    if c["fn"] == "law":
        return f"{c['sr']}Semiring/{c['dtype']} {c['law']} at x={c['x']} y={c.get('y')} z={c.get('z')}"
    def d(r): return f"{G.dense_oracle(r).tolist()} as {r['vaxes']}/pool{r['pool']}/{r['storage']}/default={r['default']}"
    return f"{c['sr']}Semiring.{f['clause']}/{c['dtype']} on PatternedTensors x={d(c['r1'])} y={d(c['r2'])}"[:420]


def run_bounded(ctx: Ctx) -> Report:
    import multiprocessing as mp, gc
    t0 = time.time()
    rep = Report(property_id="C08", level="exploration")
    jobs = max(1, ctx.jobs)
    numel = 6 if ctx.thorough else 4
    shapes = G.all_shapes(numel, 3)
    todo = [(tuple(s), ctx.tier) for s in shapes if (tuple(s), ctx.tier) not in G._PFS_CACHE]
    if jobs > 1 and todo:
        with mp.get_context("fork").Pool(jobs) as pool:
            for key, pats in zip(todo, pool.map(_warm, todo, chunksize=1)):
                G._PFS_CACHE[key] = pats
    units, info = rep_units(ctx)
    nchunks = jobs * 8
    chunks = [units[i::nchunks] for i in range(nchunks)]
    args = [(c, ctx.seed, ctx.tier) for c in chunks if c]
    gc.collect(); gc.freeze()
    if jobs > 1:
        with mp.get_context("fork").Pool(jobs) as pool:
            results = pool.map(_rep_worker, args, chunksize=1)
    else:
        results = [_rep_worker(a) for a in args]
    fails = []
    count: Dict[str, int] = {}
    n = evals = oos = 0
    dig = set(); samples = []
    for r in results:
        for k, v in r["fcount"].items(): count[k] = count.get(k, 0) + v
        n += r["n"]; evals += r["evals"]; oos += r["oos"]; dig |= set(r["digests"]); fails += r["fails"]; samples += r["samples"]
    rep.bounded.append(Bounded(
        function="Semiring.add/mul/sub on PatternedTensor vs Tensor (Real, Log, Viterbi, Bool)",
        bound=f"all ordered pairs of patterns_for_shape patterns with a common index type over every shape with numel <= {numel}, "
              f"ndim <= 3 ({info['compatible (well-typed) pairs']} of {info['pattern pairs']} pairs over {info['shapes']} shapes) x 4 semirings x "
              f"{'3' if ctx.thorough else '2'} default combinations from {{zero, one, inf, finite}}^2 x {{add, mul, sub}}; data on the carrier incl. zero and inf; "
              "float64 (every 5th float32)",
        cases=evals, distinct_nontrivial=len(dig) * len(OPS),
        rule="pairs enumerated exhaustively, defaults walk through all combinations as the pair index varies, data seeded; one case = "
             "one (recipe pair, op) evaluation; non-trivial iff some operand is not a dense contiguous tensor; distinct canonical recipes",
        samples=samples[:3], exhaustive=False,
        extra={"recipe pairs": n, "out of scope (library warned index type mismatch)": oos}))
    # laws
    ln = 0; ldig = set(); lsamples = []
    torch.set_num_threads(1)
    for case in law_cases():
        ln += 1
        try:
            res = run_law(case)
        except Exception as e:
            res = [(case["law"], f"raises-{type(e).__name__}", f"{type(e).__name__}: {e}")]
        vs = [case["x"], case.get("y"), case.get("z")]
        if any(v not in (None, 0.0, "-inf", False) for v in vs):
            ldig.add(canon(case))
            if len(lsamples) < 3 and case["law"] == "mul.distributes_over_add": lsamples.append(case)
        for clause, kc, detail in res:
            f = {"case": case, "clause": clause, "keyclass": kc, "detail": detail}
            count[fail_key(f)] = count.get(fail_key(f), 0) + 1
            fails.append(f)
    rep.bounded.append(Bounded(
        function="IEEE-exact semiring laws on torch tensors (Real, Log, Viterbi, Bool)",
        bound="grid {zero, smallest subnormal, 1e-38, 1, 3e38, inf} (+1e-300, 1.7e308 in float64) mapped into each carrier, all tuples of "
              "the law's arity, float32 and float64; laws: add/mul commutative, identities, annihilation, add_ = add; Viterbi and Bool "
              "also idempotence, add associative, distributivity; Bool also mul associative",
        cases=ln, distinct_nontrivial=len(ldig),
        rule="full enumeration of the grid tuples; non-trivial iff some argument is not the semiring zero", samples=lsamples,
        exhaustive=True))
    fails.sort(key=lambda f: (fail_key(f), len(canon(f["case"])), canon(f["case"])))
    kept: Dict[str, int] = {}
    for f in fails:
        k = fail_key(f)
        kept[k] = kept.get(k, 0) + 1
        if kept[k] > MAX_FAIL_PER_KEY: continue
        c = f["case"]
        ob = (f"Semiring.{f['clause']}.patterned_equals_dense" if c["fn"] == "rep" else f"{c['sr']}Semiring.{f['clause']}.ieee_exact")
        rep.failures.append(Failure(obligation=ob, what=fail_what(f),
                                    replay={"module": MODULE, "func": "replay_case", "case": c}, detail=f["detail"], key=k))
    rep.extra["c08_bounded"] = {"representation": info, "recipe_pairs": n, "op_evaluations": evals, "law_cases": ln,
                                "failures_by_key": count, "wall_s": round(time.time() - t0, 1)}
    rep.assumptions.append("C08 bounded: pairs of patterns without a common index type (gen_pt.compatible) are outside the property "
                           "(the library is typed); NaN is outside every carrier and never an input")
    rep.functions_under_contract += ["fggs.semirings.RealSemiring.add/mul/sub", "fggs.semirings.LogSemiring.add/mul/sub",
                                     "fggs.semirings.ViterbiSemiring.add/mul/sub", "fggs.semirings.BoolSemiring.add/mul/sub"]
    return rep


def _warm(key):
    return G.patterns_for_shape(key[0], key[1])


def replay_case(case) -> bool:
    torch.set_num_threads(1)
    res = run_case(case)
    print("case:", canon(case)[:1500])
    if not res:
        print("contract holds on this case")
        return False
    for clause, kc, detail in res:
        print(f"VIOLATED {clause} [{kc}]: {detail}")
    return any(not kc.startswith("harness") and not kc.startswith("out-of-scope") for _, kc, _ in res)


if __name__ == "__main__":
    import sys
    tier = sys.argv[1] if len(sys.argv) > 1 else "quick"
    t = time.time()
    r = run_bounded(Ctx("C08", tier, 0))
    print("wall", round(time.time() - t, 1))
    for b in r.bounded: print(b.function, b.cases, b.distinct_nontrivial, b.extra)
    print(json.dumps(r.extra, indent=1, default=str)[:3000])
    for f in r.failures: print(f.obligation, "|", f.key, "|", f.what[:260], "|", f.detail[:200])
