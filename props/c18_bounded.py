"""C18 (bounded): queries are pure -- inputs are never mutated, results are reproducible.

Part 1 (snapshot check).  For a grammar of G three objects are built from the same recipe: `fgg` (float64 weights,
with or without requires_grad), `fgg_bool` (bool weights, for the Boolean semiring) and `other` (the same rules with
explicit ids; `fgg` has explicit ids for every second grammar so that `conjoin_hrgs(fgg, other)` pairs rules).
Queries Q (each on these objects, kmax=30 so that non-convergent semiring/grammar combinations stay cheap):

  sum_product x {Real, Log, Viterbi (on fgg), Bool (on fgg_bool)} x {fixed-point, newton};  sum_products;  viterbi
  (Viterbi semiring, start assignment 0..0);  factorize_rule on every rule (labels=None);  factorize_hrg;
  factorize_fgg x {min_fill, quickbb, acb};  conjoin_hrgs(fgg, fgg);  conjoin_hrgs(fgg, other);  fgg_to_json;
  hrg_to_json;  and, when the weights require gradients, sum_product (Real/newton, Log/fixed-point) followed by the
  backward pass (torch.autograd.grad of sum(Z) w.r.t. every weight tensor -- the functional form, which does not
  touch .grad, so the whole snapshot including .grad must stay unchanged).

For every ORDERED pair (q1, q2) in Q x Q:   S0 = snapshot;  r1 = q1();  snapshot == S0;  r2 = q2();  snapshot == S0;
r1' = q1();  r1' == r1.
  frame        the deep snapshot is unchanged after every call: start, label tables (names, types, terminal flags, in
               order), every rule (object identity, lhs, nodes with id / label / persist_id in order, edges with id /
               label / attachments / persist_id in order, ext, the graph's own label tables), domains (class, values /
               size, in order), and per factor: object identities (factor, PatternedTensor, physical tensor, every
               PhysicalAxis), vaxes repr, default, dtype, size, stride, storage_offset, the raw storage bytes, the
               tensor's _version counter, requires_grad, grad (None or bytes)
  reproducible r1' == r1: tensors bit-identical (dtype, shape, bytes of the dense value), JSON equal, derivations equal
               as trees (rule number, assignment, children), grammars / rule lists equal as descriptions in which the
               ids of nodes and edges that already exist in the inputs are kept and freshly created ids (object
               addresses) are replaced by their position; an exception must be the same exception type both times.

Part 1b (call sequences).  factorize_rule(rule) is called WITHOUT the labels argument three times in a row on the same
rule, then on every other rule, then again on the first rule (x 3 tree-decomposition methods); factorize_hrg and
factorize_fgg three times in a row: all results for one input must be exactly equal, including the names of the freshly
introduced nonterminals (hidden state across calls, e.g. a mutable default argument, shows up as drifting names).

Part 1c (presentation variants and shared semiring objects; BOUND3).  The same frame / reproducibility checks on
  - the SPARSE presentation of a grammar: every weight tensor re-presented by sparsify() as the PatternedTensor with the
    same dense value that states its structure (one-hot, block, diagonal, single row, constant stored with stride 0);
  - the EVIDENCE family: recursive grammars of G with one more rule for a nonterminal X of a cyclic SCC, conditioned on
    two one-hot evidence terminals about one node (contradictory = structurally zero, or consistent), see
    evidence_grammars();
  - the EXTRAS presentation: the grammar's tables hold a node label with a domain, three terminals with factors and a
    nonterminal that NO RULE USES (declared through add_domain / add_edge_label / new_finite_factor);
  - DERIVED queries: sum_products[Log,newton], sum_product[Real,linear], and sum_product / sum_products / fgg_to_json /
    factorize_fgg / conjoin_hrgs applied to the result of factorize_fgg (which shares its factor and domain tables with
    the input grammar);
  - HISTORIES WITH SHARED SEMIRING OBJECTS (check_shared_histories): a semiring is an argument like any other; one
    object per semiring is passed to every query of a history, and after every call (i) the grammars' deep snapshot is
    unchanged, (ii) whatever the semiring objects, the semiring classes and the solver modules held before the call is
    unchanged (lazy initialisation is allowed, overwriting is not), (iii) the result equals the result of the same
    query on freshly built objects with a brand-new semiring.

Part 2 (clone independence).  For PatternedTensors of the typed-pattern generator T (every pattern without a zero-size
axis of the shapes below, float64, special values included): each in-place operation neg_, abs_, relu_, log_, log1p_,
nan_to_num_, *= 2.0, /= 2.0, copy_(other) applied to t.clone() leaves t's physical storage bytes, version counter, axes,
default and to_dense() unchanged.  For MultiTensors m with 1-3 blocks (and a second one b): m.clone() followed by
copy_(b) / add_single / += b / maximum_(b) on the clone, and every in-place operation above applied to every ELEMENT
m2[k] of m2 = m.clone(), of m + b and of m - b (these start from a clone of the left operand), leaves every block of m
unchanged (object identity, axes, default, physical storage bytes, version counter, dense value).  An operation that
raises is not a violation of this property (it is counted); a change of the right operand b through a block that the
result shares with it is outside the property's text and only counted.
"""
from __future__ import annotations
import itertools
import json
import math
import multiprocessing as mp
import os
import sys
import traceback
import warnings
from typing import Any, Callable, Dict, List, Optional, Tuple

from vf.core import Ctx, Report, Bounded, Failure
from vf.bounded import gen_fgg as G

PID = "C18"
MODULE = "props.c18_bounded"
KMAX = 30
BOUND1 = ("grammars of G (non-recursive and recursive with a finite reference; <= 3 nonterminals, <= 2 rules each, <= 3 nodes / "
          "3 edges per rhs, arity <= 2, domain sizes 1..3) x weights {plain, requires_grad} x every ordered pair of the "
          "19 (21 with gradients) queries")
BOUND3 = ("presentation variants of the grammars above and of the evidence family (every convergent hand-written recursive family "
          "of G x every nonterminal of a cyclic SCC x a rule conditioned on two one-hot evidence terminals about one node: "
          "contradictory / consistent, on an internal / the first external node, listed first / last); variants: sparse (weights "
          "re-presented as one-hot / block / diagonal / stride-0 PatternedTensors with the same dense value), extras (a node label "
          "with a domain, three terminals with factors and a nonterminal that no rule uses), derived (7 more queries: "
          "sum_products[Log,newton], sum_product[Real,linear], and sum_product / sum_products / fgg_to_json / factorize_fgg / "
          "conjoin_hrgs applied to factorize_fgg's result); quick: on the extras variant every query paired with itself + the ordered "
          "pairs of 6 core queries, requires_grad alternating (thorough: both, all ordered pairs on the evidence family and on every fourth "
          "extras grammar); shared-semiring histories "
          "(evidence family, and sparse+extras on every second grammar; thorough: every grammar): for each of the semiring-taking "
          "queries (+ factorize_fgg, fgg_to_json, conjoin_hrgs) q0 the sequence q0, then every query that receives the same "
          "semiring object or none; and the whole list twice")
BOUND2 = ("PatternedTensors: every quick-tier pattern of T for the shapes (), (2,), (3,), (2,2), (2,3), (6,), (1,2,3) "
          "(thorough: all shapes of numel <= 6, ndim <= 3) without a zero-size axis, float64 data with special values, "
          "storage contiguous / expanded / transposed x 9 in-place operations; MultiTensors with 1-3 blocks x 4 operations")


# ------------------------------------------------------------------------------------------
# deep snapshot
# ------------------------------------------------------------------------------------------

def _tbytes(t) -> bytes:
    """raw bytes of the tensor's whole storage (not just the viewed part)."""
    st = t.untyped_storage()
    return bytes(st.tolist()) if st.nbytes() else b""


def snap_tensor(t) -> dict:
    import torch
    d = {"id": id(t), "dtype": str(t.dtype), "size": tuple(t.size()), "stride": tuple(t.stride()),
         "offset": t.storage_offset(), "bytes": _tbytes(t), "version": t._version, "requires_grad": t.requires_grad,
         "is_leaf": t.is_leaf, "grad_fn": None if t.grad_fn is None else id(t.grad_fn)}
    g = t.grad if t.is_leaf else None
    d["grad"] = None if g is None else (id(g), tuple(g.size()), _tbytes(g))
    return d


def snap_pt(pt) -> dict:
    d = {"pt.id": id(pt), "paxes": tuple(id(k) for k in pt.paxes), "paxes.sizes": tuple(k._numel for k in pt.paxes),
         "vaxes": repr(pt.vaxes), "vaxes.ids": tuple(id(e) for e in pt.vaxes), "default": repr(pt.default)}
    for k, v in snap_tensor(pt.physical).items():
        d["physical." + k] = v
    return d


def _label(el) -> tuple:
    return (el.name, tuple(l.name for l in el.type), bool(el.is_terminal), bool(el.is_nonterminal), id(el))


def snap_graph(g, prefix: str, out: dict):
    out[prefix + "graph.id"] = id(g)
    out[prefix + "nodes"] = [(k, n.id, n.label.name, n.persist_id, id(n)) for k, n in g._nodes.items()]
    out[prefix + "edges"] = [(k, e.id, _label(e.label), tuple(n.id for n in e.nodes), e.persist_id, id(e)) for k, e in g._edges.items()]
    out[prefix + "ext"] = tuple((n.id, id(n)) for n in g._ext)
    out[prefix + "graph.node_labels"] = [(k, v.name) for k, v in g._node_labels.items()]
    out[prefix + "graph.edge_labels"] = [(k, _label(v)) for k, v in g._edge_labels.items()]


def snap_fgg(fgg, prefix: str, out: dict):
    import fggs
    out[prefix + "start"] = None if fgg.start is None else _label(fgg.start)
    out[prefix + "node_labels"] = [(k, v.name, id(v)) for k, v in fgg._node_labels.items()]
    out[prefix + "edge_labels"] = [(k, _label(v)) for k, v in fgg._edge_labels.items()]
    out[prefix + "rules.keys"] = [_label(k) for k in fgg._rules]
    i = 0
    for lhs, rs in fgg._rules.items():
        out[prefix + f"rules[{lhs.name}].list"] = (id(rs), len(rs))
        for r in rs:
            p = prefix + f"rule{i}."
            out[p + "id"] = id(r)
            out[p + "lhs"] = _label(r.lhs)
            snap_graph(r.rhs, p, out)
            i += 1
    out[prefix + "domains.id"] = id(fgg.domains)
    out[prefix + "domains"] = [(k, type(d).__name__, id(d), d.size(),
                                repr(list(d.values)) if isinstance(d, fggs.FiniteDomain) else None)
                               for k, d in fgg.domains.items()]
    out[prefix + "factors.id"] = id(fgg.factors)
    out[prefix + "factors.keys"] = list(fgg.factors)
    for k, f in fgg.factors.items():
        p = prefix + f"factor[{k}]."
        out[p + "id"] = id(f)
        out[p + "domains"] = tuple(id(d) for d in f.domains)
        for kk, v in snap_pt(f.weights).items():
            out[p + "weights." + kk] = v


def snapshot(objs: dict) -> dict:
    out: Dict[str, Any] = {}
    for name in ("fgg", "fgg_bool", "other"):
        snap_fgg(objs[name], name + ".", out)
    return out


def snap_diff(a: dict, b: dict) -> Optional[Tuple[str, str]]:
    for k in a:
        if k not in b:
            return k, "field disappeared"
        if a[k] != b[k]:
            va, vb = a[k], b[k]
            if isinstance(va, bytes):
                va, vb = va.hex()[:96], vb.hex()[:96] if isinstance(vb, bytes) else vb
            return k, f"before {va!r:.300} after {vb!r:.300}"
    for k in b:
        if k not in a:
            return k, "new field"
    return None


def field_class(path: str) -> str:
    """stable class of a snapshot field: 'fgg.factor[a].weights.physical.bytes' -> 'factor.weights.physical.bytes'"""
    import re
    p = path.split(".", 1)[1] if "." in path else path
    p = re.sub(r"\[[^\]]*\]", "", p)
    p = re.sub(r"rule\d+", "rule", p)
    return p


# ------------------------------------------------------------------------------------------
# objects and queries
# ------------------------------------------------------------------------------------------

def sparsify(t, zero):
    """dense torch tensor -> a PatternedTensor with the SAME dense value that states as much of the tensor's structure
    as a pattern can: a vector whose non-zero entries form one proper contiguous block becomes (before + block + after)
    with default `zero` (a single entry: a one-hot with a 0-dim physical, what json_to_weights builds for evidence); a
    square matrix that is zero off the diagonal becomes a diagonal pattern (physical = the diagonal; stride-0 storage when
    the diagonal is constant, like PatternedTensor.eye); a matrix with a single non-zero row becomes a one-hot first axis;
    a constant tensor is stored once and expanded (stride 0).  Everything else stays dense."""
    import torch
    from fggs.indices import PatternedTensor, PhysicalAxis, SumAxis, productAxis
    unit = productAxis(())
    def block(n, a, b):        # axis of size n whose positions a..b-1 are backed
        if b - a == 1:
            return None, SumAxis(a, unit, n - b)
        k = PhysicalAxis(b - a)
        return k, SumAxis(a, k, n - b)
    def const(x):
        return bool((x == x.reshape(-1)[0]).all()) if x.numel() else False
    nz = (t != zero) if t.dtype != torch.bool else t.clone()
    if t.dim() == 1 and t.size(0) >= 2:
        n = t.size(0)
        idx = [i for i in range(n) if bool(nz[i])]
        if idx and idx == list(range(idx[0], idx[-1] + 1)) and len(idx) < n:
            k, ax = block(n, idx[0], idx[-1] + 1)
            phys = t[idx[0]].clone() if k is None else t[idx[0]:idx[-1] + 1].clone()
            return PatternedTensor(phys, () if k is None else (k,), (ax,), zero)
        if const(t):
            k = PhysicalAxis(n)
            return PatternedTensor(t[0].clone().expand(n), (k,), (k,), zero)
    if t.dim() == 2 and t.size(0) >= 2 and t.size(1) >= 2:
        n, m = t.size()
        if n == m and not bool((nz & ~torch.eye(n, dtype=torch.bool)).any()) and bool(nz.any()):
            k = PhysicalAxis(n)
            d = t.diagonal().clone()
            return PatternedTensor(d[0].clone().expand(n) if const(d) else d, (k,), (k, k), zero)
        rows = [i for i in range(n) if bool(nz[i].any())]
        if len(rows) == 1:
            k = PhysicalAxis(m)
            return PatternedTensor(t[rows[0]].clone(), (k,), (SumAxis(rows[0], unit, n - rows[0] - 1), k), zero)
        if const(t):
            k1, k2 = PhysicalAxis(n), PhysicalAxis(m)
            return PatternedTensor(t[0, 0].clone().expand(n, m), (k1, k2), (k1, k2), zero)
    return PatternedTensor(t)


EXTRA_LABELS = ("__UnusedN", "__unused_t0", "__unused_t1", "__unused_t2", "__UnusedX")


def build_variant(recipe, sname: str, dtype: str, presentation: Optional[dict], variant: dict):
    """gen_fgg's builder, then the presentation variants of this checker (none of them changes what the grammar means):
      variant["sparse"]   every terminal's weights are re-presented by sparsify() (same dense value, structural zeros /
                          one-hots / diagonals / stride-0 storage stated as a pattern)
      variant["extras"]   the grammar's tables get entries that NO RULE USES: a node label with a domain, three terminals
                          with factors (arity 0; over a used node label; over the unused and a used node label) and a
                          nonterminal without rules -- declared with add_domain / add_edge_label / new_finite_factor"""
    import torch
    import fggs
    fgg = G.build_fgg(recipe, sname, dtype, presentation)
    dt = torch.bool if sname == "Bool" else G._dtype(dtype)
    zero = G.make_semiring(sname, dtype).from_int(0).item()
    if variant.get("sparse"):
        for f in fgg.factors.values():
            f.weights = sparsify(f.weights.to_dense().clone(), zero)
    if variant.get("extras"):
        conv = lambda w: G.map_nested(lambda x: G.convert_weight(x, sname), w)
        nl0 = next(iter(fgg.node_labels()))
        d0 = fgg.domains[nl0.name].size()
        un = fggs.NodeLabel(EXTRA_LABELS[0])
        fgg.add_domain(un, fggs.FiniteDomain(["p", "q"]) if (presentation or {}).get("domains") == "finite" else fggs.RangeDomain(2))
        for name, typ, w in ((EXTRA_LABELS[1], [], 0.75), (EXTRA_LABELS[2], [nl0], [0.25, 1.5, 0.0][:d0]),
                             (EXTRA_LABELS[3], [un, nl0], [[0.5, 0.0, 2.0][:d0], [1.0, 0.125, 0.25][:d0]])):
            fgg.add_edge_label(fggs.EdgeLabel(name, typ, is_terminal=True))
            fgg.new_finite_factor(name, torch.tensor(conv(w), dtype=dt))
        fgg.add_edge_label(fggs.EdgeLabel(EXTRA_LABELS[4], [nl0], is_nonterminal=True))
    return fgg


def new_semirings() -> dict:
    """one semiring OBJECT per semiring name, to be passed to every query of a history"""
    return {s: G.make_semiring(s, "bool" if s == "Bool" else "float64") for s in G.SEMIRINGS}


def _sr(objs, sname: str, d: str):
    """the semiring object of a query: a new one per call, or -- in an object set with shared semirings -- THE object of
    that name (looked up at call time)"""
    srs = objs.get("semirings")
    return srs[sname] if srs is not None else G.make_semiring(sname, d)


def make_objects(recipe, requires_grad: bool, explicit: bool, variant: Optional[dict] = None) -> dict:
    variant = dict(variant or {})
    if not (variant.get("sparse") or variant.get("extras")):
        bld = lambda s, d, p: G.build_fgg(recipe, s, d, p)
    else:
        bld = lambda s, d, p: build_variant(recipe, s, d, p, variant)
    fgg = bld("Real", "float64", {"ids": "explicit"} if explicit else None)
    if requires_grad:
        for f in fgg.factors.values():
            f.weights.requires_grad_()
    objs = {"fgg": fgg, "fgg_bool": bld("Bool", "bool", None),
            "other": bld("Real", "float64", {"ids": "explicit", "domains": "finite"}),
            "recipe": recipe, "requires_grad": requires_grad, "variant": variant}
    if variant.get("shared_semirings"):
        objs["semirings"] = new_semirings()
    return objs


def known_ids(objs) -> set:
    ids = set()
    for name in ("fgg", "fgg_bool", "other"):
        for r in objs[name].all_rules():
            ids.update(n.id for n in r.rhs.nodes())
            ids.update(e.id for e in r.rhs.edges())
    return ids


def norm_tensor(t):
    import torch
    if t is None:
        return None
    t = t.detach()
    return ("tensor", str(t.dtype), tuple(t.shape), t.contiguous().numpy().tobytes())


def norm_pt(pt):
    return norm_tensor(pt.to_dense())


def norm_graph(g, known: set):
    nodes = list(g.nodes())
    pos = {n.id: i for i, n in enumerate(nodes)}
    return {"nodes": [(n.id if n.id in known else "<new>", n.label.name) for n in nodes],
            "edges": [(e.id if e.id in known else "<new>", _label(e.label)[:4], tuple(pos[n.id] for n in e.nodes)) for e in g.edges()],
            "ext": tuple(pos[n.id] for n in g.ext)}


def norm_rule(r, known: set):
    return (_label(r.lhs)[:4], norm_graph(r.rhs, known))


def norm_hrg(h, known: set):
    return {"start": _label(h.start)[:4], "node_labels": [(k, v.name) for k, v in h._node_labels.items()],
            "edge_labels": [(k, _label(v)[:4]) for k, v in h._edge_labels.items()],
            "rules": [norm_rule(r, known) for r in h.all_rules()],
            "factors": sorted(getattr(h, "factors", {})), "domains": sorted(getattr(h, "domains", {}))}


def norm_deriv(d, objs):
    rules = objs["fgg"].all_rules()
    ri = next((i for i, r in enumerate(rules) if r is d.rule), None)
    nodes = list(d.rule.rhs.nodes())
    edges = list(d.rule.rhs.edges())
    return (ri, tuple((n.id, d.asst.get(n)) for n in nodes),
            tuple((e.id, norm_deriv(d.children[e], objs)) for e in edges if e in d.children))


def norm_json_of_derived(j: dict) -> str:
    """fgg_to_json of an FGG that a query has just built: the writers list the nodes and edges of a rule in the order of
    str(id), and the ids of freshly built nodes and edges are object addresses, so two equal grammars built one after the
    other are written with their nodes / edges in different orders.  Compared are therefore, per rule, the lhs, the bag
    of node labels and the bag of edges (label, labels of the attached nodes); everything else literally."""
    j = json.loads(json.dumps(j))
    for r in j.get("grammar", {}).get("rules", []):
        rhs = r["rhs"]
        labs = [n["label"] for n in rhs["nodes"]]
        r["rhs"] = {"nodes": sorted(labs), "externals": [labs[i] for i in rhs["externals"]],
                    "edges": sorted([e["label"], [labs[i] for i in e["attachments"]]] for e in rhs["edges"])}
    return json.dumps(j, sort_keys=True)


def queries(objs) -> List[Tuple[str, Callable[[], Any]]]:
    import torch
    import fggs
    fgg, fb, other = objs["fgg"], objs["fgg_bool"], objs["other"]
    known = known_ids(objs)
    qs: List[Tuple[str, Callable[[], Any]]] = []
    def sp(sname, m):
        g = fb if sname == "Bool" else fgg
        d = "bool" if sname == "Bool" else "float64"
        return lambda: norm_pt(fggs.sum_product(g, method=m, semiring=_sr(objs, sname, d), kmax=KMAX))
    for sname in G.SEMIRINGS:
        for m in ("fixed-point", "newton"):
            qs.append((f"sum_product[{sname},{m}]", sp(sname, m)))
    qs.append(("sum_products", lambda: sorted((el.name, norm_pt(v)) for el, v in fggs.sum_products(
        fgg, method="fixed-point", semiring=_sr(objs, "Real", "float64"), kmax=KMAX).items())))
    asst = tuple(0 for _ in fgg.start.type)
    qs.append(("viterbi", lambda: norm_deriv(fggs.viterbi(fgg, asst, semiring=_sr(objs, "Viterbi", "float64"), kmax=KMAX), objs)))
    qs.append(("factorize_rule", lambda: [[norm_rule(x, known) for x in fggs.factorize_rule(r)] for r in fgg.all_rules()]))
    qs.append(("factorize_hrg", lambda: norm_hrg(fggs.factorize_hrg(fgg), known)))
    for meth in ("min_fill", "quickbb", "acb"):
        qs.append((f"factorize_fgg[{meth}]", (lambda meth: lambda: norm_hrg(fggs.factorize_fgg(fgg, method=meth), known))(meth)))
    qs.append(("conjoin_hrgs[self]", lambda: norm_hrg(fggs.conjoin_hrgs(fgg, fgg), known)))
    qs.append(("conjoin_hrgs[other]", lambda: norm_hrg(fggs.conjoin_hrgs(fgg, other), known)))
    qs.append(("fgg_to_json", lambda: json.dumps(fggs.fgg_to_json(fgg), sort_keys=True)))
    qs.append(("hrg_to_json", lambda: json.dumps(fggs.hrg_to_json(fgg), sort_keys=True)))
    if objs["requires_grad"]:
        def grad(sname, m):
            def f():
                z = fggs.sum_product(fgg, method=m, semiring=_sr(objs, sname, "float64"), kmax=KMAX).to_dense()
                mask = torch.isfinite(z)
                loss = z[mask].sum()
                ws = [fac.weights.physical for fac in fgg.factors.values()]
                if not loss.requires_grad or not ws:
                    return ("constant", norm_tensor(z))
                gs = torch.autograd.grad(loss, ws, allow_unused=True)
                return (norm_tensor(z), [norm_tensor(g) for g in gs])
            return f
        qs.append(("sum_product+backward[Real,newton]", grad("Real", "newton")))
        qs.append(("sum_product+backward[Log,fixed-point]", grad("Log", "fixed-point")))
    if objs.get("variant", {}).get("derived"):
        # more option combinations, and queries on a DERIVED object: factorize_fgg's result shares its factor and domain
        # tables with the input, so whatever a later query does to the result's tables it does to the caller's grammar
        qs.append(("sum_products[Log,newton]", lambda: sorted((el.name, norm_pt(v)) for el, v in fggs.sum_products(
            fgg, method="newton", semiring=_sr(objs, "Log", "float64"), kmax=KMAX).items())))
        qs.append(("sum_product[Real,linear]", sp("Real", "linear")))
        fz = lambda: fggs.factorize_fgg(fgg)
        qs.append(("sum_product[Real,newton]@factorize_fgg", lambda: norm_pt(fggs.sum_product(
            fz(), method="newton", semiring=_sr(objs, "Real", "float64"), kmax=KMAX))))
        qs.append(("sum_products[Real,fixed-point]@factorize_fgg", lambda: sorted((el.name, norm_pt(v)) for el, v in fggs.sum_products(
            fz(), method="fixed-point", semiring=_sr(objs, "Real", "float64"), kmax=KMAX).items())))
        qs.append(("fgg_to_json@factorize_fgg", lambda: norm_json_of_derived(fggs.fgg_to_json(fz()))))
        qs.append(("factorize_fgg@factorize_fgg", lambda: norm_hrg(fggs.factorize_fgg(fz(), method="quickbb"), known)))
        qs.append(("conjoin_hrgs@factorize_fgg", lambda: norm_hrg(fggs.conjoin_hrgs(fz(), other), known)))
    return qs


call_stats: Dict[str, int] = {}       # outcome counts of call() in this process (read and reset by the variant tasks)


def call(q: Callable[[], Any]):
    with warnings.catch_warnings():
        warnings.simplefilter("ignore")
        try:
            r = ("ok", q())
            call_stats["calls_ok"] = call_stats.get("calls_ok", 0) + 1
            return r
        except RecursionError:
            return ("exception", "RecursionError")
        except Exception as e:  # noqa
            k = "calls_raising:" + type(e).__name__
            call_stats[k] = call_stats.get(k, 0) + 1
            return ("exception", type(e).__name__)


def _short(r) -> str:
    s = repr(r)
    return s if len(s) < 500 else s[:500] + "..."


def _first_diff(a, b, path="") -> str:
    if type(a) != type(b):
        return f"{path}: {_short(a)} vs {_short(b)}"
    if isinstance(a, (list, tuple)):
        if len(a) != len(b):
            return f"{path}: length {len(a)} vs {len(b)}"
        for i, (x, y) in enumerate(zip(a, b)):
            if x != y:
                return _first_diff(x, y, f"{path}[{i}]")
    if isinstance(a, dict):
        for k in a:
            if k not in b or a[k] != b[k]:
                return _first_diff(a[k], b.get(k), f"{path}.{k}")
    if isinstance(a, bytes):
        return f"{path}: bytes {a.hex()[:64]} vs {b.hex()[:64]}"
    return f"{path}: {_short(a)} vs {_short(b)}"


def check_pair(objs, qs, i: int, j: int) -> List[dict]:
    """-> violation dicts for the ordered pair (qs[i], qs[j])"""
    out = []
    (n1, q1), (n2, q2) = qs[i], qs[j]
    s0 = snapshot(objs)
    r1 = call(q1)
    d = snap_diff(s0, snapshot(objs))
    if d:
        out.append({"clause": "frame.inputs_unchanged", "kind": "input-mutated", "key": f"mutation:{n1}:{field_class(d[0])}",
                    "detail": f"after {n1}: snapshot field {d[0]} changed: {d[1]}", "q1": n1, "q2": None})
        return out
    r2 = call(q2)
    d = snap_diff(s0, snapshot(objs))
    if d:
        out.append({"clause": "frame.inputs_unchanged", "kind": "input-mutated", "key": f"mutation:{n2}:{field_class(d[0])}",
                    "detail": f"after {n1} then {n2}: snapshot field {d[0]} changed: {d[1]}", "q1": n1, "q2": n2})
        return out
    r1b = call(q1)
    d = snap_diff(s0, snapshot(objs))
    if d:
        out.append({"clause": "frame.inputs_unchanged", "kind": "input-mutated", "key": f"mutation:{n1}:{field_class(d[0])}",
                    "detail": f"after {n1}, {n2}, {n1}: snapshot field {d[0]} changed: {d[1]}", "q1": n1, "q2": n2})
        return out
    if r1b != r1:
        out.append({"clause": "reproducible.same_result", "kind": "result-differs", "key": None,
                    "detail": f"{n1} before and after {n2}: {_first_diff(r1, r1b)}", "q1": n1, "q2": n2})
    return out


CORE = ("sum_product[Real,fixed-point]", "sum_products", "factorize_fgg[min_fill]", "conjoin_hrgs[other]", "fgg_to_json",
        "sum_product[Real,newton]@factorize_fgg")


def check_grammar(recipe, requires_grad: bool, explicit: bool, pairs=None, variant: Optional[dict] = None):
    """all ordered pairs (or the named ones; pairs == "self": every query paired with itself; "core": these and every
    ordered pair of the CORE queries).  -> (violations, number of pairs, number of queries)"""
    objs = make_objects(recipe, requires_grad, explicit, variant)
    qs = queries(objs)
    names = [n for n, _ in qs]
    fails: List[dict] = []
    n = 0
    if pairs == "core":
        pairs = [(a, a) for a in names] + [(a, b) for a in CORE for b in CORE if a != b]
    elif pairs == "self":
        pairs = [(a, a) for a in names]
    todo = [(i, j) for i in range(len(qs)) for j in range(len(qs))] if pairs is None else \
        [(names.index(a), names.index(b)) for a, b in pairs if a in names and b in names]
    self_irreproducible: Dict[str, bool] = {}
    for i, j in todo:
        n += 1
        fl = check_pair(objs, qs, i, j)
        if fl:
            for f in fl:
                if f["key"] is None:
                    n1 = f["q1"]
                    if n1 not in self_irreproducible:
                        fresh = make_objects(recipe, requires_grad, explicit, variant)
                        fq = dict(queries(fresh))[n1]
                        self_irreproducible[n1] = call(fq) != call(fq)
                    f["key"] = f"irreproducible:{n1}:" + ("by-itself" if self_irreproducible[n1] else f"after:{f['q2']}")
                f["case"] = {"part": "queries", "recipe": recipe, "requires_grad": requires_grad, "explicit_ids": explicit,
                             "q1": f["q1"], "q2": f["q2"] or f["q1"]}
                if variant:
                    f["case"]["variant"] = variant
            fails.extend(fl)
            if any(f["kind"] == "input-mutated" for f in fl):
                objs = make_objects(recipe, requires_grad, explicit, variant)      # do not let one mutation contaminate later pairs
                qs = queries(objs)
    return fails, n, len(qs)


def check_factorize_sequences(recipe, requires_grad: bool, explicit: bool, variant: Optional[dict] = None) -> Tuple[List[dict], int, int]:
    """Hidden state across calls (e.g. a mutable default argument for `labels`): factorize_rule(rule) WITHOUT the labels
    argument, three times in a row on the same rule, then once on every other rule, then again on the first rule --
    all results for one rule must be exactly equal, INCLUDING the names of the freshly introduced nonterminals; the same
    for factorize_hrg / factorize_fgg called three times in a row.  -> (violations, calls, calls that introduced a fresh nonterminal)"""
    import fggs
    objs = make_objects(recipe, requires_grad, explicit, variant)
    fgg = objs["fgg"]
    known = known_ids(objs)
    rules = fgg.all_rules()
    old_names = {el.name for el in fgg.edge_labels()}
    fails: List[dict] = []
    calls = fresh = 0
    s0 = snapshot(objs)
    def fr(r, **kw):
        nonlocal calls, fresh
        calls += 1
        res = fggs.factorize_rule(r, **kw)
        if any(x.lhs.name not in old_names for x in res):
            fresh += 1
        return [norm_rule(x, known) for x in res]
    def record(kind, key, detail, q):
        fails.append({"clause": "reproducible.same_result" if kind == "result-differs" else "frame.inputs_unchanged", "kind": kind,
                      "key": key, "detail": detail, "q1": q, "q2": q,
                      "case": dict({"part": "factorize-sequence", "recipe": recipe, "requires_grad": requires_grad, "explicit_ids": explicit},
                                   **({"variant": variant} if variant else {}))})
    for method in ("min_fill", "quickbb", "acb"):
        kw = {} if method == "min_fill" else {"method": method}
        for i, r in enumerate(rules):
            with warnings.catch_warnings():
                warnings.simplefilter("ignore")
                try:
                    seq = [fr(r, **kw), fr(r, **kw), fr(r, **kw)]
                    for j, r2 in enumerate(rules):
                        if j != i:
                            fr(r2, **kw)
                    seq.append(fr(r, **kw))
                except Exception as e:  # noqa
                    continue        # factorize_rule failing on this rule is C05's business, not a purity question
            for k in range(1, len(seq)):
                if seq[k] != seq[0]:
                    names = [[x[0][0] for x in res] for res in seq]
                    record("result-differs", f"irreproducible:factorize_rule[{method}]:call-sequence",
                           f"rule {i} ({r.lhs.name}), call {k + 1} of 4 (the last one after calls on the other rules) differs from the "
                           f"first: {_first_diff(seq[0], seq[k])}; lhs names per call {names}", "factorize_rule")
                    break
    for name, f in (("factorize_hrg", lambda: norm_hrg(fggs.factorize_hrg(fgg), known)),
                    ("factorize_fgg", lambda: norm_hrg(fggs.factorize_fgg(fgg), known))):
        seq = [call(f) for _ in range(3)]
        calls += 3
        if seq[1] != seq[0] or seq[2] != seq[0]:
            record("result-differs", f"irreproducible:{name}:call-sequence",
                   f"three calls in a row: {_first_diff(seq[0], seq[1] if seq[1] != seq[0] else seq[2])}", name)
    d = snap_diff(s0, snapshot(objs))
    if d:
        record("input-mutated", f"mutation:factorize-sequence:{field_class(d[0])}", f"after the factorize call sequences: field {d[0]} changed: {d[1]}",
               "factorize_rule")
    return fails, calls, fresh


# ------------------------------------------------------------------------------------------
# part 1c: histories with shared semiring objects (and whatever state hides behind them)
# ------------------------------------------------------------------------------------------

def _snap_value(v, depth: int = 0):
    """a comparable description of a piece of library-side state: tensors by dtype / size / stride / storage bytes,
    containers element-wise, plain values as they are, anything else by its type only"""
    import torch
    if isinstance(v, torch.Tensor):
        return ("tensor", str(v.dtype), tuple(v.size()), tuple(v.stride()), _tbytes(v))
    if v is None or isinstance(v, (bool, int, str)):
        return v
    if isinstance(v, float):
        return ("float", repr(v))
    if isinstance(v, (torch.dtype, torch.device)):
        return ("torch", str(v))
    if depth < 3 and isinstance(v, dict):
        return ("dict", tuple((repr(k), _snap_value(x, depth + 1)) for k, x in v.items()))
    if depth < 3 and isinstance(v, (list, tuple)):
        return ("seq", tuple(_snap_value(x, depth + 1) for x in v))
    return ("object", type(v).__name__)


def _holds_state(v, depth: int = 0) -> bool:
    import torch
    if isinstance(v, torch.Tensor):
        return True
    if depth < 3 and isinstance(v, dict):
        return any(_holds_state(x, depth + 1) for x in v.values())
    if depth < 3 and isinstance(v, (list, tuple, set)):
        return any(_holds_state(x, depth + 1) for x in v)
    return False


def snap_state(objs) -> dict:
    """State that outlives a query but is not one of the grammars: every attribute of every shared semiring object, and
    every tensor (or container of tensors) stored on a semiring CLASS or at module level in the solver modules."""
    import fggs
    out: Dict[str, Any] = {}
    for name, sr in (objs.get("semirings") or {}).items():
        out[f"semiring[{name}].id"] = id(sr)
        for k, v in vars(sr).items():
            out[f"semiring[{name}].{k}"] = _snap_value(v)
    import fggs.semirings, fggs.indices, fggs.multi, fggs.sum_product, fggs.viterbi, fggs.factorize   # noqa
    seen = set()
    for cls in (fggs.RealSemiring, fggs.LogSemiring, fggs.ViterbiSemiring, fggs.BoolSemiring):
        for c in cls.__mro__:
            if c in seen or not c.__module__.startswith("fggs"):
                continue
            seen.add(c)
            for k, v in vars(c).items():
                if _holds_state(v):
                    out[f"class[{c.__name__}].{k}"] = _snap_value(v)
    for mod in (fggs.semirings, fggs.indices, fggs.multi, fggs.sum_product, fggs.viterbi, fggs.factorize):
        for k, v in vars(mod).items():
            if not k.startswith("__") and _holds_state(v):
                out[f"module[{mod.__name__}].{k}"] = _snap_value(v)
    return out


def _stable(a, b) -> bool:
    """b may have been lazily initialised or extended since a, but nothing that a already held may have changed"""
    if a is None:
        return True
    if isinstance(a, tuple) and isinstance(b, tuple) and len(a) == 2 and len(b) == 2 and a[0] == b[0] == "dict":
        db = dict(b[1])
        return all(k in db and _stable(x, db[k]) for k, x in a[1])
    if isinstance(a, tuple) and isinstance(b, tuple) and len(a) == 2 and len(b) == 2 and a[0] == b[0] == "seq":
        return len(b[1]) >= len(a[1]) and all(_stable(x, y) for x, y in zip(a[1], b[1]))
    return a == b


def state_diff(a: dict, b: dict) -> Optional[Tuple[str, str]]:
    for k in a:
        if k not in b:
            return k, "disappeared"
        if not _stable(a[k], b[k]):
            va, vb = a[k], b[k]
            if isinstance(va, tuple) and va and va[0] == "tensor":
                va = va[:4] + (va[4].hex()[:64],)
            if isinstance(vb, tuple) and vb and vb[0] == "tensor":
                vb = vb[:4] + (vb[4].hex()[:64],)
            return k, f"before {va!r:.300} after {vb!r:.300}"
    return None


def history_names(names: List[str]) -> List[str]:
    """the queries of a shared-semiring history: everything that takes a semiring, and three that do not"""
    return [n for n in names if n.startswith(("sum_product", "viterbi")) or n in ("factorize_fgg[min_fill]", "fgg_to_json", "conjoin_hrgs[other]")]


def semiring_of(name: str) -> Optional[str]:
    """the semiring whose (shared) object the query receives; None for a query that takes no semiring"""
    if name == "viterbi":
        return "Viterbi"
    if name == "sum_products":
        return "Real"
    for s in G.SEMIRINGS:
        if f"[{s}," in name:
            return s
    return None


def default_histories(names: List[str], light_viterbi: bool = False) -> List[List[str]]:
    """For every query q0: q0 followed by every query that can see what q0 left behind in a semiring OBJECT -- the
    queries that receive the same semiring object as q0 (q0 itself included) and the ones that take none; for a q0 that
    takes no semiring: every query (viterbi excepted, it comes after the Viterbi queries).  Then the whole list twice
    (state at class or module level is visible to every later query).  light_viterbi (quick tier, recursive grammars,
    where viterbi mostly ends in a slow RecursionError): viterbi only follows itself and is in the doubled list."""
    out = []
    for q0 in names:
        s0 = semiring_of(q0)
        out.append([q0] + [n for n in names if (semiring_of(n) in (s0, None) if s0 is not None else n != "viterbi")
                           and not (light_viterbi and n == "viterbi" and q0 != "viterbi")])
    out.append(names + names)
    return out


def check_shared_histories(recipe, requires_grad: bool, variant: dict, histories: Optional[List[List[str]]] = None):
    """A program creates ONE semiring object per semiring and uses it for a sequence of queries on the same grammars.
    REF[q] = the result of q on a freshly built object set with a brand-new semiring object (one object set per query).
    Histories: default_histories() -- for every query q0 the sequence q0, then every query that receives the same
    semiring object or none, and once the whole list twice; every history starts with new semiring objects and runs on
    the same grammar objects as the histories before it.  After EVERY call:
      frame        the deep snapshot of the three grammars is unchanged;
      state        nothing that the semiring objects (or the semiring classes / solver modules) held before the call has
                   changed: an attribute may be initialised lazily (None -> value, new attribute, a container may grow),
                   but a tensor stored there keeps its bytes and a value once set stays;
      reproducible the result is exactly REF[q] (same comparison as part 1).
    Ids are explicit so that descriptions are comparable across object sets.  -> (violations, calls, histories)"""
    variant = dict(variant, shared_semirings=True)
    fresh_variant = {k: v for k, v in variant.items() if k != "shared_semirings"}      # (light_viterbi only selects histories)
    objs = make_objects(recipe, requires_grad, True, variant)
    qs = dict(queries(objs))
    names = history_names(list(qs))
    ref: Dict[str, Any] = {}
    def reference(name):
        if name not in ref:
            o = make_objects(recipe, requires_grad, True, fresh_variant)    # all three grammars stay alive during the call
            ref[name] = call(dict(queries(o))[name])                        # (implicit ids are object addresses)
            del o
        return ref[name]
    if histories is None:
        for n in names:
            reference(n)
        histories = default_histories(names, bool(variant.get("light_viterbi")) and G.is_recursive(recipe))
    fails: List[dict] = []
    calls = 0
    def record(clause, kind, key, detail, hist, q):
        fails.append({"clause": clause, "kind": kind, "key": key, "detail": detail, "q1": hist[0], "q2": q,
                      "case": {"part": "shared-history", "recipe": recipe, "requires_grad": requires_grad,
                               "variant": fresh_variant, "history": list(hist)}})
    for h in histories:
        if any(n not in qs for n in h):
            continue
        objs["semirings"] = new_semirings()
        s0, z0 = snapshot(objs), snap_state(objs)
        for step, name in enumerate(h):
            calls += 1
            r = call(qs[name])
            hist = h[:step + 1]
            bad = False
            d = snap_diff(s0, snapshot(objs))
            if d:
                record("frame.inputs_unchanged", "input-mutated", f"mutation:{name}:{field_class(d[0])}",
                       f"shared semirings, history {hist}: snapshot field {d[0]} changed: {d[1]}", hist, name)
                bad = True
            z1 = snap_state(objs)
            d = state_diff(z0, z1)
            if d and not bad:
                record("frame.semiring_state_stable", "state-mutated", f"state:{name}:{field_class('x.' + d[0])}",
                       f"history {hist} with one semiring object per semiring: {d[0]} changed during {name}: {d[1]}", hist, name)
                bad = True
            if not d:
                z0 = z1             # what was initialised during this call is pinned from now on
            if not bad and r != reference(name):
                record("reproducible.same_result", "result-differs", f"history-dependent:{name}:after:{h[0] if step else 'nothing'}",
                       f"history {hist} with one semiring object per semiring: the last call differs from the same query on "
                       f"fresh objects with a new semiring: {_first_diff(reference(name), r)}", hist, name)
                bad = True
            if bad:
                objs = make_objects(recipe, requires_grad, True, variant)      # leave no contaminated object behind
                qs = dict(queries(objs))
                break
    return fails, calls, len(histories)


def shorten_history(f: dict) -> dict:
    """a shorter history that shows the same failure (same key), if there is one: [first, last] / [last, last] / [last]"""
    c = f["case"]
    h = c["history"]
    for cand in ([h[-1]], [h[-1], h[-1]], [h[0], h[-1]], [h[0], h[-1], h[-1]]):
        if len(cand) >= len(h):
            continue
        fl, _, _ = check_shared_histories(c["recipe"], c["requires_grad"], c["variant"], [cand])
        for g in fl:
            if g["key"].split(":after:")[0] == f["key"].split(":after:")[0]:
                g["key"] = f["key"]
                g["detail"] += f"   [shortened from the history {h}]"
                return g
    return f


# ------------------------------------------------------------------------------------------
# part 2: clone independence
# ------------------------------------------------------------------------------------------

INPLACE = ("neg_", "abs_", "relu_", "log_", "log1p_", "nan_to_num_", "imul", "itruediv", "copy_")


def apply_inplace(c, op: str, other):
    if op == "imul":
        c *= 2.0
    elif op == "itruediv":
        c /= 2.0
    elif op == "copy_":
        c.copy_(other)
    else:
        getattr(c, op)()
    return c


def check_clone_pt(recipe, other_recipe, op: str, stats: Optional[dict] = None) -> Optional[dict]:
    from vf.bounded import gen_pt as T
    with warnings.catch_warnings():
        warnings.simplefilter("ignore")
        t = T.build_pt(recipe)
        other = T.build_pt(other_recipe)
        s0 = snap_pt(t)
        d0 = norm_tensor(t.to_dense())
        so = snap_pt(other)
        try:
            c = t.clone()
            apply_inplace(c, op, other)
        except Exception as e:  # noqa
            if stats is not None:       # raising is not a purity violation; the source must still be intact
                stats[f"raises:{op}:{type(e).__name__}"] = stats.get(f"raises:{op}:{type(e).__name__}", 0) + 1
        s1 = snap_pt(t)
        d = snap_diff(s0, s1)
        if d is None and norm_tensor(t.to_dense()) != d0:
            d = ("to_dense", "dense value changed")
        if d is None and op == "copy_":
            d2 = snap_diff(so, snap_pt(other))
            if d2:
                d = ("copy_.source." + d2[0], d2[1])
        if d:
            return {"clause": "clone.source_unchanged", "kind": "source-changed", "key": f"clone:{op}:{d[0]}",
                    "detail": f"after t.clone().{op}: field {d[0]} of the source changed: {d[1]}"}
    return None


def multitensor_cases(rng, n: int) -> List[dict]:
    """JSON recipes: blocks {key: pattern recipe} over shapes {x: (2,), y: (3,), z: ()}."""
    from vf.bounded import gen_pt as T
    shapes = {"x": (2,), "y": (3,), "z": ()}
    pats = {k: [p for p in T.patterns_for_shape(s, "quick") if all(x > 0 for x in p["pool"])] for k, s in shapes.items()}
    out = []
    for _ in range(n):
        keys = rng.sample(sorted(shapes), rng.randint(1, 3))
        blocks = {k: T.fill_data(rng.choice(pats[k]), rng, special=False, dtype="float64", default=0) for k in keys}
        keys2 = rng.sample(sorted(shapes), rng.randint(1, 3))
        blocks2 = {k: T.fill_data(rng.choice(pats[k]), rng, special=False, dtype="float64", default=0) for k in keys2}
        out.append({"shapes": {k: list(v) for k, v in shapes.items()}, "blocks": blocks, "other": blocks2})
    return out


ELEMENT_OPS = ("neg_", "abs_", "relu_", "log_", "log1p_", "nan_to_num_", "imul", "itruediv", "copy_")
MT_OPS = tuple(["copy_", "add_single", "iadd", "maximum_"] +
               [f"{where}:{op}" for where in ("clone-element", "add-result-element", "sub-result-element") for op in ELEMENT_OPS])


def check_clone_mt(case: dict, op: str, stats: Optional[dict] = None) -> Optional[dict]:
    """op: a whole-MultiTensor operation on m.clone() (copy_ / add_single / iadd / maximum_), or '<where>:<element op>' with
    where = clone-element (m2 = m.clone(); the in-place op on every m2[k]), add-result-element (r = m + b; op on every
    r[k]), sub-result-element (r = m - b).  The source m must keep every block (object identity, axes, default, physical
    storage bytes, version counter, dense value)."""
    import torch
    import fggs
    from fggs.multi import MultiTensor
    from vf.bounded import gen_pt as T
    stats = stats if stats is not None else {}
    sr = fggs.RealSemiring(dtype=torch.float64)
    shapes = {k: torch.Size(v) for k, v in case["shapes"].items()}
    def mk(blocks):
        m = MultiTensor(shapes, sr)
        for k, r in blocks.items():
            m[k] = T.build_pt(r)
        return m
    def snap(m):
        out = {"keys": list(m._dict), "dict.id": id(m._dict)}
        for k, v in m._dict.items():
            for kk, vv in snap_pt(v).items():
                out[f"block[{k}].{kk}"] = vv
            out[f"block[{k}].dense"] = norm_tensor(v.to_dense())
        return out
    with warnings.catch_warnings():
        warnings.simplefilter("ignore")
        src, oth = mk(case["blocks"]), mk(case["other"])
        s0, o0 = snap(src), snap(oth)
        try:
            if ":" not in op:
                c = src.clone()
                if op == "copy_":
                    c.copy_(oth)
                elif op == "add_single":
                    for k, v in oth.items():
                        c.add_single(k, v)
                elif op == "iadd":
                    c += oth
                elif op == "maximum_":
                    c.maximum_(oth)
                else:
                    raise ValueError(op)
            else:
                where, eop = op.split(":")
                if where == "clone-element":
                    c = src.clone()
                elif where == "add-result-element":
                    c = src + oth
                else:
                    c = src - oth
                for k in list(c):
                    arg = T.build_pt(case["blocks"][k] if k in case["blocks"] else case["other"][k])   # same shape as block k
                    if eop == "imul":
                        c[k] *= 2.0                 # __getitem__, PatternedTensor.__imul__, __setitem__
                    elif eop == "itruediv":
                        c[k] /= 2.0
                    else:
                        apply_inplace(c[k], eop, arg)
        except Exception as e:  # noqa
            # an operation that raises changes nothing that the property talks about -- but the source must still be intact
            stats[f"raises:{op.split(':')[-1] if ':' not in op else op}:{type(e).__name__}"] = \
                stats.get(f"raises:{op.split(':')[-1] if ':' not in op else op}:{type(e).__name__}", 0) + 1
        d = snap_diff(s0, snap(src))
        if d:
            return {"clause": "clone.source_unchanged", "kind": "source-changed", "key": f"multitensor:{op}:{field_class('m.' + d[0])}",
                    "detail": f"m = MultiTensor{sorted(case['blocks'])}; {op} (other = {sorted(case['other'])}): field {d[0]} of the source m changed: {d[1]}"}
        if snap_diff(o0, snap(oth)):
            # not part of the property's text (the right operand / argument is not "the source of a clone"): counted only
            stats[f"argument-shares-storage-with-result:{op}"] = stats.get(f"argument-shares-storage-with-result:{op}", 0) + 1
    return None


# ------------------------------------------------------------------------------------------
# workers and report
# ------------------------------------------------------------------------------------------

def _task(task):
    import torch
    torch.set_num_threads(1)
    kind = task[0]
    if kind == "grammar":
        _, recipe, rg, explicit = task
        fl, n, nq = check_grammar(recipe, rg, explicit)
        fl2, calls, fresh = check_factorize_sequences(recipe, rg, explicit)
        return kind, fl + fl2, n, {"queries": nq, "factorize_sequence_calls": calls, "factorize_calls_with_fresh_nonterminal": fresh}
    if kind == "variant":
        _, recipe, rg, explicit, variant, pairs, hist = task
        call_stats.clear()
        fl, n, nq = check_grammar(recipe, rg, explicit, pairs, variant) if pairs != [] else ([], 0, 0)
        st = {"variant_queries": nq, "variant_pairs": n}
        if variant.get("extras") and pairs != []:
            fl2, calls, fresh = check_factorize_sequences(recipe, rg, explicit, variant)
            fl = fl + fl2
            st["variant_factorize_sequence_calls"] = calls
        if hist:
            fl3, calls, nh = check_shared_histories(recipe, rg, variant)
            fl3 = [shorten_history(f) for f in fl3[:2]] + fl3[2:]
            fl = fl + fl3
            n += calls
            st["shared_history_calls"] = calls
            st["shared_histories"] = nh
        for r in set(call_stats):
            st["variant_" + r] = call_stats[r]
        call_stats.clear()
        return kind, fl, n, st
    if kind == "clone":
        fails = []
        n = 0
        st = {}
        for recipe, other in task[1]:
            for op in INPLACE:
                n += 1
                f = check_clone_pt(recipe, other, op, st)
                if f:
                    f["case"] = {"part": "clone", "recipe": recipe, "other": other, "op": op}
                    fails.append(f)
        return kind, fails, n, {"pt:" + k: v for k, v in st.items()}
    if kind == "mt":
        fails = []
        n = 0
        st: Dict[str, int] = {}
        for case in task[1]:
            for op in MT_OPS:
                n += 1
                f = check_clone_mt(case, op, st)
                if f:
                    f["case"] = {"part": "multitensor", "case": case, "op": op}
                    fails.append(f)
        return kind, fails, n, {"mt:" + k: v for k, v in st.items()}
    raise ValueError(kind)


def grammars(tier: str, rng) -> List[dict]:
    n_nonrec, n_rec = (6, 4) if tier == "quick" else (120, 80)
    from props import c03_bounded as C3
    # two chains (3 and 4 nodes in one rule): factorize_* must introduce fresh nonterminals on them
    out: List[dict] = [g for g in C3.handwritten() if g["meta"]["family"] in ("three-edges-private-first-node", "four-edges-edgeless-internal")
                       and g["node_labels"]["N0"] == 2]
    seen = {G.canonical(g) for g in out}
    n_nonrec += len(out)
    def ok(g):
        if not g["weights"] or not any(len(r["edges"]) >= 2 for r in g["rules"]):
            return False
        r = G.reference_sum_products(g, "Real", max_iter=2000)
        return r.status == "finite"
    for src, n in ((G.enum_nonrecursive(tier, rng), n_nonrec), (G.enum_recursive(tier, rng), n_rec)):
        cands = [g for g in src if ok(g)]
        rng.shuffle(cands)
        for g in cands:
            c = G.canonical(g)
            if c in seen:
                continue
            seen.add(c)
            out.append(g)
            if len([x for x in out if G.is_recursive(x) == G.is_recursive(g)]) >= n:
                break
    return out


def with_evidence(recipe, lhs: str, p: int, q: int, where: str, first: bool) -> Optional[dict]:
    """The recipe plus one rule for `lhs` that is conditioned on two pieces of evidence about ONE node n: unary one-hot
    terminals ev<p>(n) and ev<q>(n).  p != q is contradictory evidence -- the rule is STRUCTURALLY zero (einsum's
    unification of the two one-hot axes fails), so the meaning of the grammar is unchanged; p == q is consistent evidence.
    where = "internal": n is a new internal node, the external nodes of the new rule carry no edge;  "external": n is
    the first external node (lhs must have arity >= 1).  first: the new rule is listed before / after lhs's other rules."""
    g = json.loads(json.dumps(recipe))
    typ = g["edge_labels"][lhs]["type"]
    nodes = list(typ)
    if where == "external":
        if not typ or g["node_labels"][typ[0]] < 2:
            return None
        n, lab = 0, typ[0]
    else:
        lab = next((l for l, size in g["node_labels"].items() if size >= 2), None)
        if lab is None:
            return None
        n = len(nodes)
        nodes.append(lab)
    size = g["node_labels"][lab]
    if max(p, q) >= size:
        return None
    for i in {p, q}:
        name = f"ev{i}_{lab}"
        g["edge_labels"][name] = {"type": [lab], "terminal": True}
        g["weights"][name] = [1.0 if j == i else 0.0 for j in range(size)]
    rule = {"lhs": lhs, "nodes": nodes, "edges": [{"label": f"ev{p}_{lab}", "att": [n]}, {"label": f"ev{q}_{lab}", "att": [n]}],
            "ext": list(range(len(typ)))}
    k = next(i for i, r in enumerate(g["rules"]) if r["lhs"] == lhs) if first else \
        max(i for i, r in enumerate(g["rules"]) if r["lhs"] == lhs) + 1
    g["rules"].insert(k, rule)
    g["meta"] = dict(g.get("meta") or {})
    g["meta"]["family"] = (f"evidence[{'contradictory' if p != q else 'consistent'},{where},{'first' if first else 'last'} rule of {lhs}]:"
                           + str(g["meta"].get("family", "")))
    G.validate(g, bound=False)
    return g


def evidence_grammars(tier: str) -> List[dict]:
    """Recursive grammars conditioned on evidence: every convergent hand-written recursive family of G x every nonterminal
    X of a cyclic SCC x an evidence rule for X (contradictory / consistent; on a new internal node / on X's first external
    node; listed first / last).  With contradictory evidence listed first, the first thing a fixed-point iteration
    learns about X is a structural zero.  quick: one grammar per family and weight setting is kept for a third of the
    families and all placements are spread over them; thorough: everything."""
    bases = []
    seen_fam = set()
    for g in G.handwritten_recursive():
        meta = g.get("meta") or {}
        fam = meta.get("family", "")
        if meta.get("divergent_in") or meta.get("semirings") or meta.get("budgets") or not g["weights"]:
            continue
        stem = fam.rstrip("0123456789.-")
        if tier == "quick" and stem in seen_fam:
            continue
        if G.reference_sum_products(g, "Real", max_iter=2000).status != "finite":
            continue
        seen_fam.add(stem)
        bases.append(g)
    out: List[dict] = []
    seen = set()
    k = 0
    for g in bases:
        for comp in G.sccs(g):
            if not G.scc_is_cyclic(g, comp):
                continue
            for x in comp:
                placements = [(0, 1, "internal", True), (1, 0, "internal", False), (0, 0, "internal", True),
                              (0, 1, "external", True), (1, 1, "external", False)]
                # X has no base case of its own (each of its rules uses a nonterminal of its SCC): in the first iteration
                # the evidence rule is ALL that is known about X
                dependent = all(any(e["label"] in comp for e in r["edges"]) for r in g["rules"] if r["lhs"] == x)
                if tier == "quick":
                    # the contradictory-first placement always; contradictory-last too when X is dependent, else one of
                    # the others in turn
                    placements = [placements[0], placements[1] if dependent else placements[1 + k % 4]]
                    k += 1
                for (p, q, where, first) in placements:
                    e = with_evidence(g, x, p, q, where, first)
                    if e is None:
                        continue
                    e["meta"]["dependent_nonterminal"] = dependent
                    c = G.canonical(e)
                    if c not in seen:
                        seen.add(c)
                        out.append(e)
    if tier == "quick":     # the cap of variant_tasks keeps the dependent ones, and of the others every kind of placement in turn
        rank: Dict[str, int] = {}
        def turn(e):
            kind = e["meta"]["family"].split("]")[0].rsplit(" rule of", 1)[0]
            rank[kind] = rank.get(kind, 0) + 1
            return rank[kind]
        order = {id(e): (not e["meta"]["dependent_nonterminal"], 0 if e["meta"]["dependent_nonterminal"] else turn(e)) for e in out}
        out.sort(key=lambda e: order[id(e)])
    return out


def variant_tasks(tier: str, recipes: List[dict]) -> List[tuple]:
    """("variant", recipe, requires_grad, explicit, variant, pairs, histories?) -- see BOUND3"""
    tasks: List[tuple] = []
    both = tier != "quick"
    ev = evidence_grammars(tier)
    if tier == "quick":
        ev = ev[:22]
    for k, g in enumerate(ev):
        for rg in ((False, True) if both else (k % 2 == 1,)):
            tasks.append(("variant", g, rg, True, dict({"sparse": True, "derived": True}, **({} if both else {"light_viterbi": True})),
                          None if both else [], True))
    for k, g in enumerate(recipes):
        for rg in ((False, True) if both else (k % 2 == 0,)):
            tasks.append(("variant", g, rg, k % 2 == 1, {"extras": True, "derived": True}, None if both and k % 4 == 0 else "core", False))
            if both or k % 2 == 0:
                tasks.append(("variant", g, not rg if not both else rg, True,
                              dict({"extras": True, "sparse": True, "derived": True}, **({} if both else {"light_viterbi": True})), [], True))
    return tasks


def clone_cases(tier: str, rng) -> List[Tuple[dict, dict]]:
    from vf.bounded import gen_pt as T
    shapes = [(), (2,), (3,), (2, 2), (2, 3), (6,), (1, 2, 3)] if tier == "quick" else T.all_shapes(6, 3)
    out = []
    for shape in shapes:
        pats = [p for p in T.patterns_for_shape(shape, tier) if all(x > 0 for x in p["pool"])]
        for p in pats:
            for storage in ("contig", "expanded", "transposed"):
                if storage == "expanded" and not p["pool"]:
                    continue
                if storage == "transposed" and len(p["pool"]) < 2:
                    continue
                default = rng.choice(T.DEFAULTS)
                r = T.fill_data(p, rng, special=True, dtype="float64", default=default, storage=storage)
                o = T.fill_data(rng.choice(pats), rng, special=True, dtype="float64", default=rng.choice(T.DEFAULTS))
                out.append((r, o))
    return out


def _what(f: dict) -> str:
    c = f["case"]
    if c["part"] == "shared-history":
        fam = (c["recipe"].get("meta") or {}).get("family", "")
        return (f"{f['kind']} [{f['key']}] history {c['history']} with one semiring object per semiring on grammar {fam}, "
                f"requires_grad={c['requires_grad']}, variant {json.dumps(c['variant'], sort_keys=True)}")
    if c["part"] in ("queries", "factorize-sequence"):
        fam = (c["recipe"].get("meta") or {}).get("family", "")
        if c.get("variant"):
            fam += " variant " + json.dumps(c["variant"], sort_keys=True)
        return f"{f['kind']} [{f['key']}] pair ({c.get('q1', f.get('q1'))}, {c.get('q2', f.get('q2'))}) on grammar {fam}, requires_grad={c['requires_grad']}"
    if c["part"] == "clone":
        return f"{f['kind']} [{f['key']}] PatternedTensor pool {c['recipe']['pool']} vaxes {json.dumps(c['recipe']['vaxes'])} storage {c['recipe']['storage']}"
    return f"{f['kind']} [{f['key']}] MultiTensor blocks {sorted(c['case']['blocks'])} other {sorted(c['case']['other'])}"


def run_bounded(ctx: Ctx) -> Report:
    rep = Report(property_id=PID, level="exploration")
    rep.functions_under_contract = ["fggs.sum_product.sum_product", "fggs.sum_product.sum_products", "fggs.viterbi.viterbi",
                                    "fggs.factorize.factorize_rule", "fggs.factorize.factorize_hrg", "fggs.factorize.factorize_fgg",
                                    "fggs.conjunction.conjoin_hrgs", "fggs.formats.fgg_to_json", "fggs.formats.hrg_to_json",
                                    "fggs.sum_product.SumProduct.backward", "fggs.indices.PatternedTensor.clone",
                                    "fggs.multi.MultiTensor.clone"]
    recipes = grammars(ctx.tier, ctx.rng("c18-grammars"))
    tasks: List[tuple] = []
    for k, g in enumerate(recipes):
        for rg in (False, True):
            tasks.append(("grammar", g, rg, k % 2 == 0))
    vts = variant_tasks(ctx.tier, recipes)
    tasks.extend(vts)
    cc = clone_cases(ctx.tier, ctx.rng("c18-clone"))
    per = max(1, len(cc) // 48)
    for i in range(0, len(cc), per):
        tasks.append(("clone", cc[i:i + per]))
    mts = multitensor_cases(ctx.rng("c18-multitensor"), 60 if not ctx.thorough else 600)
    per = max(1, len(mts) // 16)
    for i in range(0, len(mts), per):
        tasks.append(("mt", mts[i:i + per]))
    jobs = max(1, min(ctx.jobs, len(tasks)))
    if jobs > 1:
        import torch
        import fggs  # noqa
        torch.set_num_threads(1)
        with mp.get_context("fork").Pool(jobs) as pool:
            results = list(pool.imap(_task, tasks, chunksize=1))
    else:
        results = [_task(t) for t in tasks]
    counts = {"grammar": 0, "clone": 0, "mt": 0, "variant": 0}
    fails: List[dict] = []
    nq = 0
    stats: Dict[str, int] = {}
    for kind, fl, n, st in results:
        counts[kind] += n
        fails.extend(fl)
        nq = max(nq, st.get("queries", 0))
        for k, v in st.items():
            if k not in ("queries", "variant_queries"):
                stats[k] = stats.get(k, 0) + v
    per_key: Dict[str, int] = {}
    for f in fails:
        per_key[f["key"]] = per_key.get(f["key"], 0) + 1
        if per_key[f["key"]] <= 3:
            rep.failures.append(Failure(obligation=f["clause"], what=_what(f), key=f["key"], detail=f["detail"],
                                        replay={"module": MODULE, "func": "replay_case", "case": f["case"]}))
    vk = dict(sorted(per_key.items()))
    rep.bounded.append(Bounded(
        function="sum_product / sum_products / viterbi / factorize_* / conjoin_hrgs / *_to_json / backward: frame + reproducibility",
        bound=BOUND1, cases=counts["grammar"], distinct_nontrivial=2 * len({G.canonical(g) for g in recipes}),
        rule=("a case is one ordered pair (q1, q2) of queries on one object set: snapshot, q1, snapshot, q2, snapshot, q1, snapshot, "
              "compare; distinct = distinct (canonical recipe, requires_grad) object sets; all are non-trivial (some rule has >= 2 "
              "edges, the reference sum-product is finite)"),
        samples=[{"recipe": g, "requires_grad": True} for g in recipes[:2]], exhaustive=False,
        extra={"grammars": len(recipes), "recursive": sum(1 for g in recipes if G.is_recursive(g)), "queries_per_object_set": nq,
               "factorize_sequence_calls": stats.get("factorize_sequence_calls", 0),
               "factorize_calls_with_fresh_nonterminal": stats.get("factorize_calls_with_fresh_nonterminal", 0),
               "violations_per_key": {k: v for k, v in vk.items() if not k.startswith(("clone", "multitensor"))}}))
    vrec = [t[1] for t in vts]
    rep.bounded.append(Bounded(
        function=("the same queries on presentation variants (patterned weights, table entries no rule uses, queries on factorize_fgg's "
                  "result) and in histories that pass ONE semiring object per semiring to every query"),
        bound=BOUND3, cases=counts["variant"], distinct_nontrivial=len({(G.canonical(t[1]), t[2], json.dumps(t[4], sort_keys=True)) for t in vts}),
        rule=("a case is one ordered pair of queries (as above) or one call of a shared-semiring history (snapshot of the grammars "
              "and of the semiring / class / module state, call, compare with the snapshot and with the result of the same query "
              "on freshly built objects); distinct = distinct (canonical recipe, requires_grad, variant) object sets"),
        samples=[{"recipe": t[1], "requires_grad": t[2], "variant": t[4]} for t in vts[:2]], exhaustive=False,
        extra={"object_sets": len(vts), "evidence_grammars": len({G.canonical(t[1]) for t in vts if t[4].get("sparse") and not t[4].get("extras")}),
               "pairs": stats.get("variant_pairs", 0), "shared_histories": stats.get("shared_histories", 0),
               "shared_history_calls": stats.get("shared_history_calls", 0),
               "factorize_sequence_calls": stats.get("variant_factorize_sequence_calls", 0),
               "call_outcomes": {k[len("variant_"):]: v for k, v in sorted(stats.items()) if k.startswith("variant_calls_")}}))
    del vrec
    rep.bounded.append(Bounded(
        function="PatternedTensor.clone / MultiTensor.clone: in-place operations on the clone never change the source",
        bound=BOUND2, cases=counts["clone"] + counts["mt"], distinct_nontrivial=len(cc) + len(mts),
        rule=("a case is one (tensor recipe, in-place operation) resp. (MultiTensor pair, operation); distinct = tensor recipes "
              "(pattern x storage layout, seeded data with special values) / block assignments; all patterns have no zero-size axis"),
        samples=[{"recipe": cc[0][0], "op": "neg_"}] if cc else [], exhaustive=False,
        extra={"patterned_tensor_cases": counts["clone"], "multitensor_cases": counts["mt"],
               "not_violations_but_recorded": {k: v for k, v in sorted(stats.items()) if k.startswith(("mt:", "pt:"))},
               "violations_per_key": {k: v for k, v in vk.items() if k.startswith(("clone", "multitensor"))}}))
    rep.extra["c18_bounded_violations_per_key"] = vk
    return rep


def replay_case(case: dict) -> bool:
    import torch
    torch.set_num_threads(1)
    part = case["part"]
    if part == "queries":
        fl, _, _ = check_grammar(case["recipe"], case["requires_grad"], case["explicit_ids"], [(case["q1"], case["q2"])], case.get("variant"))
    elif part == "factorize-sequence":
        fl, _, _ = check_factorize_sequences(case["recipe"], case["requires_grad"], case["explicit_ids"], case.get("variant"))
    elif part == "shared-history":
        fl, _, _ = check_shared_histories(case["recipe"], case["requires_grad"], case["variant"], [case["history"]])
    elif part == "clone":
        f = check_clone_pt(case["recipe"], case["other"], case["op"])
        fl = [f] if f else []
    else:
        f = check_clone_mt(case["case"], case["op"])
        fl = [f] if f else []
    print(f"C18 replay {part}: {'VIOLATION reproduces' if fl else 'no violation'}")
    for f in fl[:3]:
        print("  ", f["clause"], f["key"])
        print("  ", f["detail"][:1200])
    return bool(fl)


if __name__ == "__main__":
    tier = sys.argv[1] if len(sys.argv) > 1 else "quick"
    import time
    t0 = time.time()
    r = run_bounded(Ctx(PID, tier, 0))
    for b in r.bounded:
        print(json.dumps(b.extra, indent=1))
    print(len(r.failures), "failure records;", [b.cases for b in r.bounded], "cases;", round(time.time() - t0, 1), "s")
    for f in r.failures:
        print(f.obligation, "|", f.key, "|", f.detail[:300])
