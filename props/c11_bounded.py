"""C11 (bounded, relational): solver options change cost, never the answer.

For every grammar of the scope (finite sum-product, Kleene reference converging within 600 iterations so that
every iterative method reaches its tolerance) the library is run under the full cross product

    semiring {Real, Log, Viterbi, Bool} x method {fixed-point, newton, linear (linearly recursive grammars only)}
    x j_precompute {off, on} x dtype {float32, float64} (Bool: bool)

with solver tolerance tol = 1e-10 / kmax = 5000 (float64) and tol = 1e-6 / kmax = 5000 (float32): values, and for
Real / Log also the gradients of sum(Z) (Log: of the sum of the finite entries of log Z) w.r.t. every factor.

  same_answer     every configuration of a semiring agrees with that semiring's baseline (newton, j_precompute off,
                  float64 -- the defaults of bin/sum_product.py -d): values and gradients within
                  |a-b| <= atol + rtol max(|a|,|b|), rtol 1e-7 / atol 1e-9 between float64 runs, rtol 1e-3 / atol 1e-5
                  when a float32 run is involved; 0, +-inf positions identical; gradient entries w.r.t. a log-weight
                  of -inf are not compared.  A configuration that raises where the baseline returns, returns where
                  the baseline raises, or warns "maximum iteration exceeded" AND differs, violates the clause (a
                  warning with agreeing numbers is fine).  Only minimal deviating option sets are reported (a
                  deviation of {j_precompute, float32} is not repeated when {j_precompute} alone deviates).
  log_is_log_real Log baseline == log(Real baseline), -inf exactly where Real is 0 (rtol 1e-7 on the logarithm)
  bool_is_support Bool baseline == (Real baseline > 0) exactly
  viterbi_le_log  Viterbi baseline <= Log baseline + 1e-6, and -inf wherever Log is -inf
  interpreter     for a handful of grammars the whole cross product is recomputed in sub-processes
                  `python`, `python -O`, `python -OO` (same driver function, recipe as JSON on stdin): every number
                  must equal the in-process one within 1e-12 (inf/nan/None/exception identity included)
  cli             bin/sum_product.py <fgg.json> -d -G -m M [-j] -l 1e-10 -k 5000 under the three interpreter
                  levels prints the same Z and gradients as the library call (1e-12), and the three levels agree

Tolerances: float64 runs stop at a step <= 1e-10 with contraction <= ~0.95 in scope, so iteration error <= 2e-9
absolute on values of size 1e-3..10 -- below rtol 1e-7 only together with atol 1e-9; hence atol 1e-9 (values) and,
for gradients, the same bound times the conditioning (<= ~20 in scope) -- still inside 1e-7 relative + 1e-9 for the
gradient magnitudes met (>= 1e-2); float32 has eps 6e-8 and stops at 1e-6: 1e-3 / 1e-5 leaves a factor > 10.
"""
from __future__ import annotations
import itertools
import json
import math
import multiprocessing as mp
import os
import subprocess
import sys
import tempfile
import traceback
import warnings
from typing import Any, Dict, List, Optional, Tuple

from vf.core import Ctx, Report, Bounded, Failure
from vf.bounded import gen_fgg as G
from props import c03_bounded as C3

PID = "C11"
MODULE = "props.c11_bounded"
INF = math.inf
PY = "/verif/.venv/bin/python"
REPO = os.environ.get("FGGS_REPO", "/repo")      # as vf.core.REPO: the tree under test (a scratch copy when a patch is tried)
CLI = os.path.join(REPO, "bin", "sum_product.py")
SOLVER = {"float64": (1e-10, 5000), "float32": (1e-6, 5000), "bool": (0.0, 5000)}
CMP = {"float64": (1e-7, 1e-9), "float32": (1e-3, 1e-5)}
LEVELS = ("", "-O", "-OO")
SCOPE_ITER = 600
BOUND = ("grammars of C03's scope (G skeletons re-weighted in [0.05,0.6] with zeros + hand-written shapes: >= 3 edges with "
         "a node private to the first edges, edgeless nodes next to the differentiated edge, duplicated externals, "
         "shared / unreachable factors) whose Kleene reference converges within 600 iterations; x 4 semirings x "
         "{fixed-point, newton, linear} x j_precompute x {float32, float64}; values and Real/Log gradients; a handful "
         "re-run under python / -O / -OO and through bin/sum_product.py")


# ------------------------------------------------------------------------------------------
# one grammar, all configurations (also the body of the sub-process driver)
# ------------------------------------------------------------------------------------------

def config_ids(recipe) -> List[Tuple[str, str, bool, str]]:
    linear_ok = G.is_linearly_recursive(recipe)
    out = []
    for s in G.SEMIRINGS:
        for m in G.METHODS:
            if m == "linear" and not linear_ok:
                continue
            for jp in (False, True):
                for d in (("bool",) if s == "Bool" else ("float64", "float32")):
                    out.append((s, m, jp, d))
    return out


def cid(c) -> str:
    s, m, jp, d = c
    return f"{s}/{m}/jp{int(jp)}/{d}"


def _exc_site(e: BaseException) -> str:
    tb = traceback.extract_tb(e.__traceback__)
    for fr in reversed(tb):
        if "/fggs/" in fr.filename:
            return f"{os.path.basename(fr.filename)}:{fr.name}"
    return "?"


def run_config(recipe, s: str, m: str, jp: bool, d: str) -> dict:
    """{"status": ok|exception, "z": nested, "grads": {factor: nested|None}|None, "warned": bool, "exc": str, "phase": str}"""
    import torch
    import fggs
    tol, kmax = SOLVER[d]
    res: Dict[str, Any] = {"status": "ok", "z": None, "grads": None, "warned": False}
    with warnings.catch_warnings(record=True) as wl:
        warnings.simplefilter("always")
        try:
            fgg = G.build_fgg(recipe, s, d)
            want_grad = s in ("Real", "Log")
            if want_grad:
                for f in fgg.factors.values():
                    f.weights.requires_grad_()
            z = fggs.sum_product(fgg, method=m, semiring=G.make_semiring(s, d), j_precompute=jp, tol=tol, kmax=kmax)
            dense = z.to_dense()
            res["z"] = dense.tolist()
        except Exception as e:  # noqa
            res.update(status="exception", phase="forward", exc=f"{type(e).__name__}@{_exc_site(e)}: {str(e)[:160]}")
            res["warned"] = any("maximum iteration" in str(w.message) for w in wl)
            return res
        if want_grad:
            try:
                mask = torch.isfinite(dense) if s == "Log" else torch.ones_like(dense, dtype=torch.bool)
                loss = dense[mask].sum()
                if loss.requires_grad:
                    loss.backward()
                grads = {}
                for name, f in fgg.factors.items():
                    gr = f.weights.grad
                    grads[name] = None if gr is None else gr.to_dense().tolist()
                res["grads"] = grads
            except Exception as e:  # noqa
                res.update(status="exception", phase="backward", exc=f"{type(e).__name__}@{_exc_site(e)}: {str(e)[:160]}")
        res["warned"] = any("maximum iteration" in str(w.message) for w in wl)
    return res


def compute_all(recipe) -> Dict[str, dict]:
    return {cid(c): run_config(recipe, *c) for c in config_ids(recipe)}


def _run_cli_inproc(argv: List[str]) -> dict:
    """bin/sum_product.py as __main__ inside this interpreter (so at this interpreter's optimisation level)."""
    import contextlib
    import io
    import runpy
    so, se = io.StringIO(), io.StringIO()
    rec: Dict[str, Any] = {"exit": 0, "exc": None}
    old_argv = sys.argv
    sys.argv = [CLI] + list(argv)
    try:
        with contextlib.redirect_stdout(so), contextlib.redirect_stderr(se), warnings.catch_warnings():
            warnings.simplefilter("always")
            runpy.run_path(CLI, run_name="__main__")
    except SystemExit as e:
        rec["exit"] = e.code if isinstance(e.code, int) else (0 if e.code is None else 1)
    except BaseException as e:  # noqa
        rec["exit"] = 1
        rec["exc"] = f"{type(e).__name__}@{_exc_site(e)}: {str(e)[:160]}"
    finally:
        sys.argv = old_argv
    rec["stdout"], rec["stderr"] = so.getvalue(), se.getvalue()[-400:]
    return rec


def _driver_main():
    """sub-process entry: {"recipes": [...], "cli": [argv, ...]} on stdin -> compute_all per recipe and one
    bin/sum_product.py run per argv, as JSON on stdout."""
    import torch
    torch.set_num_threads(1)
    job = json.load(sys.stdin)
    out = [compute_all(r) for r in job.get("recipes", [])]
    cli = [_run_cli_inproc(a) for a in job.get("cli", [])]
    sys.__stdout__.write(json.dumps({"debug": __debug__, "doc": _driver_main.__doc__ is not None, "results": out, "cli": cli}))


# ------------------------------------------------------------------------------------------
# comparisons
# ------------------------------------------------------------------------------------------

def _flat(x):
    return G.flatten(x) if isinstance(x, list) else [x]


def num_differs(a, b, rtol: float, atol: float) -> bool:
    if a is None or b is None:
        return not (a is None and b is None)
    if isinstance(a, bool) or isinstance(b, bool):
        return bool(a) != bool(b)
    if a != a or b != b:
        return not (a != a and b != b)
    if a in (INF, -INF) or b in (INF, -INF):
        return a != b
    if (a == 0) != (b == 0) and atol == 0:
        return True
    return abs(a - b) > atol + rtol * max(abs(a), abs(b))


def nested_differs(a, b, rtol, atol, skip=None) -> Optional[Tuple[int, Any, Any]]:
    fa, fb = _flat(a), _flat(b)
    if len(fa) != len(fb):
        return (-1, len(fa), len(fb))
    for i, (x, y) in enumerate(zip(fa, fb)):
        if skip is not None and skip[i]:
            continue
        if num_differs(x, y, rtol, atol):
            return (i, x, y)
    return None


def _zero_exact(a, b) -> Optional[Tuple[int, Any, Any]]:
    """Real values: an exact 0 (no derivation) in one run and a non-zero in the other."""
    for i, (x, y) in enumerate(zip(_flat(a), _flat(b))):
        if (x == 0) != (y == 0):
            return (i, x, y)
    return None


def compare_results(recipe, s: str, base: dict, other: dict, d_other: str) -> Optional[Tuple[str, str]]:
    """-> None | (kind, detail)"""
    rtol, atol = CMP["float32" if d_other == "float32" else "float64"]
    if base["status"] != "ok" or other["status"] != "ok":
        if base["status"] == other["status"] and base.get("phase") == other.get("phase") and \
                base["exc"].split(":")[0].split("@")[0] == other["exc"].split(":")[0].split("@")[0]:
            return None
        if other["status"] != "ok":
            return (f"exception-{other['phase']}", f"observed {other['exc']}; baseline returned "
                    f"Z={json.dumps(base.get('z'))} grads={json.dumps(base.get('grads'))[:300]}")
        return ("returns-where-baseline-raises", f"observed Z={json.dumps(other['z'])}; baseline raised {base['exc']}")
    if s == "Bool":
        bad = nested_differs(base["z"], other["z"], 0, 0)
    else:
        bad = nested_differs(base["z"], other["z"], rtol, atol)
        if bad is None and s == "Real" and d_other != "float32":
            bad = _zero_exact(base["z"], other["z"])
    if bad is not None:
        kind = "warned-and-value-differs" if (other["warned"] or base["warned"]) else "value-differs"
        return (kind, f"entry {bad[0]}: observed {G.jnum(bad[2]) if not isinstance(bad[2], (bool, type(None))) else bad[2]} "
                      f"baseline {G.jnum(bad[1]) if not isinstance(bad[1], (bool, type(None))) else bad[1]}; observed Z="
                      f"{json.dumps(other['z'])} baseline Z={json.dumps(base['z'])}"
                      + ("; a 'maximum iteration exceeded' warning was issued" if other["warned"] else ""))
    if s in ("Real", "Log"):
        gb, go = base["grads"], other["grads"]
        ws = G.convert_weights(recipe, s)
        for t in G.terminals(recipe):
            skip = None
            if s == "Log":
                skip = [w == -INF for w in _flat(ws[t])]
            a, b = gb.get(t), go.get(t)
            n = len(_flat(ws[t]))
            if a is None:
                a = G.nested_from(G.shape_of(recipe, t), lambda idx: 0.0)
            if b is None:
                b = G.nested_from(G.shape_of(recipe, t), lambda idx: 0.0)
            bad = nested_differs(a, b, rtol, atol, skip)
            if bad is not None:
                kind = "gradient-missing" if (go.get(t) is None) != (gb.get(t) is None) else "gradient-differs"
                return (kind, f"factor {t} entry {bad[0]}: observed {bad[2]!r} baseline {bad[1]!r}; observed grad "
                              f"{json.dumps(go.get(t))} baseline grad {json.dumps(gb.get(t))}")
    return None


def _options(c) -> frozenset:
    s, m, jp, d = c
    o = set()
    if m != "newton":
        o.add(f"method={m}")
    if jp:
        o.add("j_precompute")
    if d == "float32":
        o.add("float32")
    return frozenset(o)


def relational(recipe, results: Dict[str, dict]) -> List[dict]:
    out: List[dict] = []
    for s in G.SEMIRINGS:
        dbase = "bool" if s == "Bool" else "float64"
        base_c = (s, "newton", False, dbase)
        base = results[cid(base_c)]
        dev: Dict[frozenset, Tuple[Any, str, str]] = {}
        for c in config_ids(recipe):
            if c[0] != s or c == base_c:
                continue
            r = compare_results(recipe, s, base, results[cid(c)], c[3])
            if r is not None:
                dev[_options(c)] = (c, r[0], r[1])
        for opts, (c, kind, detail) in sorted(dev.items(), key=lambda kv: (len(kv[0]), sorted(kv[0]))):
            if any(o < opts for o in dev):
                continue
            jp_only = c[2]
            cls = C3.input_class(recipe, s, jp_only, "missing-gradient" if kind == "gradient-missing" else
                                 ("exception" if kind.startswith("exception") else kind))
            out.append({"clause": "same_answer." + ("gradient" if "gradient" in kind or kind == "exception-backward" else "value"),
                        "kind": kind, "key": f"{s.lower()}:{'+'.join(sorted(opts))}:{kind}:{cls}",
                        "detail": f"{cid(c)} vs baseline {cid(base_c)}: {detail}",
                        "case": {"check": "relational", "recipe": recipe, "semiring": s, "config": list(c)}})
    # cross-semiring relations on the baselines
    real = results[cid(("Real", "newton", False, "float64"))]
    logr = results[cid(("Log", "newton", False, "float64"))]
    vit = results[cid(("Viterbi", "newton", False, "float64"))]
    boo = results[cid(("Bool", "newton", False, "bool"))]
    def cross(clause, kind, detail, sem):
        out.append({"clause": clause, "kind": kind, "key": f"{sem.lower()}:cross-semiring:{kind}:{C3._shape_tags(recipe)}",
                    "detail": detail, "case": {"check": "cross", "recipe": recipe, "semiring": sem}})
    if real["status"] == "ok":
        rz = _flat(real["z"])
        if logr["status"] == "ok":
            lz = _flat(logr["z"])
            for i, (x, l) in enumerate(zip(rz, lz)):
                ex = -INF if x == 0 else (INF if x == INF else math.log(x))
                if num_differs(l, ex, 1e-7, 1e-9):
                    cross("log_is_log_real", "log-not-log-of-real", f"entry {i}: Log {G.jnum(l)} log(Real) {G.jnum(ex)}; "
                          f"Log Z={json.dumps(logr['z'])} Real Z={json.dumps(real['z'])}", "Log")
                    break
            # gradients: for a scalar Z > 0, d log Z / d log w = (w / Z) dZ/dw  (entries with w = 0 or an infinite
            # Real gradient are left out: the chain rule is 0 x inf there)
            if (not isinstance(real["z"], list) and 0 < real["z"] < INF and real.get("grads") and logr.get("grads")
                    and not recipe.get("weights_log")):
                Z = real["z"]
                done = False
                for name, ws in recipe["weights"].items():
                    gr, gl = real["grads"].get(name), logr["grads"].get(name)
                    if gr is None or gl is None:
                        continue
                    for i, (w, a, b) in enumerate(zip(_flat(ws), _flat(gr), _flat(gl))):
                        w = G.num(w)
                        if w == 0 or w == INF or a != a or abs(a) == INF:
                            continue
                        ex = w * a / Z
                        if num_differs(b, ex, 1e-6, 1e-9):
                            cross("log_is_log_real", "log-gradient-not-chain-rule-of-real",
                                  f"factor {name} entry {i}: Log gradient {G.jnum(b)}; (w/Z) x Real gradient = {G.jnum(ex)} "
                                  f"(w={w}, dZ/dw={G.jnum(a)}, Z={Z})", "Log")
                            done = True
                            break
                    if done:
                        break
        elif logr["status"] != real["status"]:
            cross("log_is_log_real", "log-raises", f"Log baseline raised {logr['exc']}; Real Z={json.dumps(real['z'])}", "Log")
        if boo["status"] == "ok":
            bz = _flat(boo["z"])
            for i, (x, b) in enumerate(zip(rz, bz)):
                if bool(b) != (x > 0):
                    cross("bool_is_support", "bool-not-support", f"entry {i}: Bool {b} Real {x}; Bool Z={json.dumps(boo['z'])} "
                          f"Real Z={json.dumps(real['z'])}", "Bool")
                    break
        else:
            cross("bool_is_support", "bool-raises", f"Bool baseline raised {boo['exc']}; Real Z={json.dumps(real['z'])}", "Bool")
    if logr["status"] == "ok":
        if vit["status"] == "ok":
            for i, (v, l) in enumerate(zip(_flat(vit["z"]), _flat(logr["z"]))):
                if v != v or (l == -INF and v != -INF) or (l != -INF and v > l + 1e-6):
                    cross("viterbi_le_log", "viterbi-exceeds-log", f"entry {i}: Viterbi {G.jnum(v)} Log {G.jnum(l)}; Viterbi Z="
                          f"{json.dumps(vit['z'])} Log Z={json.dumps(logr['z'])}", "Viterbi")
                    break
        else:
            cross("viterbi_le_log", "viterbi-raises", f"Viterbi baseline raised {vit['exc']}; Log Z={json.dumps(logr['z'])}", "Viterbi")
    return out


# ------------------------------------------------------------------------------------------
# interpreter levels and the command-line tool
# ------------------------------------------------------------------------------------------

def _env():
    env = dict(os.environ)
    env["PYTHONPATH"] = f"{REPO}:/verif"
    env["FGGS_REPO"] = REPO
    env["OMP_NUM_THREADS"] = "1"
    return env


def run_level(recipes: List[dict], level: str, argvs: Optional[List[List[str]]] = None) -> Tuple[Optional[dict], str]:
    cmd = [PY] + ([level] if level else []) + ["-c", "import props.c11_bounded as m; m._driver_main()"]
    p = subprocess.run(cmd, input=json.dumps({"recipes": recipes, "cli": argvs or []}), capture_output=True, text=True,
                       env=_env(), cwd="/verif", timeout=1800)
    if p.returncode != 0:
        return None, f"exit {p.returncode}: {p.stderr[-400:]}"
    try:
        out = json.loads(p.stdout)
    except Exception as e:  # noqa
        return None, f"unparsable output ({e}): {p.stdout[:200]}"
    if (out["debug"] is not (level == "")) or ((level == "-OO") != (out["doc"] is False)):
        raise RuntimeError(f"sub-process did not run at level {level!r}: debug={out['debug']}, docstrings={out['doc']}")
    return out, ""


def same_result(a: dict, b: dict, tol: float = 1e-12) -> Optional[str]:
    if a["status"] != b["status"]:
        ok = a if a["status"] == "ok" else b
        return (f"status {a['status']} ({a.get('exc', '')}) vs {b['status']} ({b.get('exc', '')}); the run that returns gives "
                f"Z={json.dumps(ok['z'])} grads={json.dumps(ok['grads'])[:400]}")
    if a["status"] != "ok":
        # neither run returns a value: "the values and gradients returned are the same" holds vacuously, also
        # when the exception types differ (AssertionError with assertions on, a later RuntimeError with -O);
        # the caller counts these
        return None
    bad = nested_differs(a["z"], b["z"], tol, tol)
    if bad is not None:
        return f"Z entry {bad[0]}: {bad[1]!r} vs {bad[2]!r}"
    if (a["grads"] is None) != (b["grads"] is None):
        return "gradients present vs absent"
    for t in (a["grads"] or {}):
        x, y = a["grads"][t], b["grads"].get(t)
        if (x is None) != (y is None):
            return f"grad[{t}] {x} vs {y}"
        if x is not None:
            bad = nested_differs(x, y, tol, tol)
            if bad is not None:
                return f"grad[{t}] entry {bad[0]}: {bad[1]!r} vs {bad[2]!r}"
    if a["warned"] != b["warned"]:
        return f"warned {a['warned']} vs {b['warned']}"
    return None


def interpreter_check(recipes: List[dict], levels=LEVELS, stats: Optional[dict] = None, pre: Optional[dict] = None) -> Tuple[List[dict], int]:
    """whole cross product in-process vs `python`, `python -O`, `python -OO`."""
    inproc = [compute_all(r) for r in recipes]
    fails: List[dict] = []
    n = 0
    stats = stats if stats is not None else {}
    for level in levels:
        out, err = (pre, "") if pre is not None else run_level(recipes, level)
        if out is None:
            fails.append({"clause": "interpreter.driver_runs", "kind": "driver-crash", "key": f"interpreter:{level or 'plain'}:driver-crash",
                          "detail": err, "case": {"check": "interpreter", "recipes": recipes, "level": level}})
            continue
        for recipe, a, b in zip(recipes, inproc, out["results"]):
            for c in config_ids(recipe):
                n += 1
                why = same_result(a[cid(c)], b[cid(c)])
                if a[cid(c)]["status"] != "ok" and b[cid(c)]["status"] != "ok" and \
                        a[cid(c)]["exc"].split("@")[0] != b[cid(c)]["exc"].split("@")[0]:
                    stats["both-raise-different-exception-type"] = stats.get("both-raise-different-exception-type", 0) + 1
                if why:
                    s, m, jp, d = c
                    kind = ("raises-only-with-assertions-on" if a[cid(c)]["status"] != "ok" else "raises-only-with-assertions-off") \
                        if why.startswith("status") else "number-differs"
                    cls = C3.input_class(recipe, s, jp, "exception" if kind != "number-differs" else "wrong-derivative")
                    fails.append({"clause": "interpreter.same_numbers", "kind": kind,
                                  "key": f"interpreter:python{level or ''}:{s.lower()}{'-jprecompute' if jp else ''}:{kind}:{cls}",
                                  "detail": f"{cid(c)} in-process (assertions on) vs python {level}: {why}",
                                  "case": {"check": "interpreter", "recipes": [recipe], "level": level, "config": list(c)}})
    return fails, n


def _parse_cli(stdout: str):
    lines = [l for l in stdout.splitlines() if l.strip()]
    if not lines:
        return None, {}
    z = json.loads(lines[0])
    grads = {}
    for l in lines[1:]:
        if l.startswith("grad[") and "]: " in l:
            name, rest = l[5:].split("]: ", 1)
            grads[name] = json.loads(rest)
    return z, grads


def _cli_argv(path: str, method: str, jp: bool) -> List[str]:
    return [path, "-d", "-G", "-m", method, "-l", repr(SOLVER["float64"][0]), "-k", str(SOLVER["float64"][1])] + (["-j"] if jp else [])


def cli_files(items: List[Tuple[dict, str, bool]], td: str) -> List[List[str]]:
    import fggs
    argvs = []
    for i, (recipe, method, jp) in enumerate(items):
        path = os.path.join(td, f"g{i}.json")
        with open(path, "w") as f:
            # explicit ids: hrg_to_json writes nodes and edges sorted by str(id), and implicit ids are object
            # addresses -- with "r<i>e<k>" ids the file lists the edges in recipe order, the order the library run uses
            json.dump(fggs.fgg_to_json(G.build_fgg(recipe, "Real", "float64", {"ids": "explicit"})), f)
        argvs.append(_cli_argv(path, method, jp))
    return argvs


def cli_check(items: List[Tuple[dict, str, bool]], level: str, direct: bool = False, pre: Optional[Tuple[dict, List[List[str]]]] = None) -> Tuple[List[dict], int]:
    """items = [(recipe, method, j_precompute)]: bin/sum_product.py <fgg.json> -d -G -m M [-j] -l 1e-10 -k 5000 at the given
    interpreter level (all items in one sub-process, the script run as __main__ through runpy; direct=True: the first
    item also as a real `python <level> bin/sum_product.py ...` command, which must print exactly the same text)
    against the library call.  pre = (driver output, argvs) when the sub-process has already been run."""
    fails: List[dict] = []
    n = 0
    with tempfile.TemporaryDirectory(prefix="c11-") as td:
        if pre is None:
            argvs = cli_files(items, td)
            out, err = run_level([], level, argvs)
            if out is None:
                return [{"clause": "cli.driver_runs", "kind": "driver-crash", "key": f"cli:{level or 'plain'}:driver-crash", "detail": err,
                         "case": {"check": "cli", "items": [list(x) for x in items], "level": level}}], 0
        else:
            out, argvs = pre
        outs = {"results": out["cli"]}
        if direct:
            if pre is not None:
                argvs = cli_files(items[:1], td)
            env = _env()
            env["PYTHONPATH"] = REPO
            q = subprocess.run([PY] + ([level] if level else []) + [CLI] + argvs[0],
                               capture_output=True, text=True, env=env, timeout=600)
            n += 1
            r0 = outs["results"][0]
            if q.stdout != r0["stdout"] or (q.returncode != 0) != (r0["exit"] != 0):
                raise RuntimeError(f"runpy route and direct command disagree: {q.stdout!r} / {q.returncode} vs {r0['stdout']!r} / {r0['exit']}")
        for (recipe, method, jp), o in zip(items, outs["results"]):
            lib = run_config(recipe, "Real", method, jp, "float64")
            if lib["status"] == "ok" and any(g is None for g in lib["grads"].values()):
                continue    # some factor cannot influence Z: the script's unconditional backward() / grad.tolist() is
                            # not about solver options (it fails the same way at every level and for every method)
            n += 1
            why = None
            if o["exit"] != 0:
                what = o["exc"] or ("exit %s: %s" % (o["exit"], o["stderr"].strip().splitlines()[-1:] or ""))
                if lib["status"] == "ok":
                    why = f"library returns Z={json.dumps(lib['z'])} grads={json.dumps(lib['grads'])[:200]} vs cli fails: {what}"
                # both fail: nothing is returned on either side (the exception type may differ under -O)
            elif lib["status"] != "ok":
                why = f"library raises {lib['exc']} vs cli prints {o['stdout'][:300]!r}"
            else:
                z, grads = _parse_cli(o["stdout"])
                bad = nested_differs(lib["z"], z, 1e-12, 1e-12)
                if bad is not None:
                    why = f"Z entry {bad[0]}: library {bad[1]!r} cli {bad[2]!r}"
                else:
                    for t, g in lib["grads"].items():
                        if g is None:
                            continue
                        bad = nested_differs(g, grads.get(t), 1e-12, 1e-12) if t in grads else (-1, g, None)
                        if bad is not None:
                            why = f"grad[{t}] entry {bad[0]}: library {bad[1]!r} cli {bad[2]!r}"
                            break
            if why:
                kind = "cli-differs-from-library"
                cls = C3.input_class(recipe, "Real", jp, "exception" if "raises" in why or "fails" in why else "wrong-derivative")
                fails.append({"clause": "cli.same_as_library", "kind": kind,
                              "key": f"cli:real{'-jprecompute' if jp else ''}:python{level}:{kind}:{cls}",
                              "detail": f"bin/sum_product.py -d -G -m {method}{' -j' if jp else ''} under python {level or '(plain)'}: {why}",
                              "case": {"check": "cli", "items": [[recipe, method, jp]], "level": level}})
    return fails, n


# ------------------------------------------------------------------------------------------
# scope, workers, report
# ------------------------------------------------------------------------------------------

def in_scope(recipe) -> bool:
    ref = G.reference_sum_products(recipe, "Real", max_iter=SCOPE_ITER)
    if ref.status != "finite" or ref.has_inf():
        return False
    return all(abs(v) < 1e6 for x in ref.values() for v in G.flatten(x))


def grammars(tier: str, rng) -> List[dict]:
    n_nonrec, n_rec = (28, 24) if tier == "quick" else (380, 260)
    out = list(C3.handwritten())
    # rules that evaluate to nothing listed before / between productive ones (J_log pairs rules with posteriors)
    out += [g for g in C3.handwritten_extra() if g["meta"]["family"].startswith("unproductive") and "patterned" not in g]
    seen = {G.canonical(g) for g in out}
    for src, n, pz in ((G.enum_nonrecursive(tier, rng), n_nonrec, C3.P_ZERO), (G.enum_recursive(tier, rng), n_rec, 0.08)):
        k = 0
        for g in src:
            if not g["weights"] or g.get("weights_log"):
                continue
            # prefer the shapes the suite avoids: >= 2 edges per rule somewhere
            if not any(len(r["edges"]) >= 2 for r in g["rules"]):
                continue
            h = C3.reweight(g, rng, p_zero=pz)
            c = G.canonical(h)
            if c in seen:
                continue
            seen.add(c)
            out.append(h)
            k += 1
            if k >= n:
                break
    return out


def _task(task):
    import torch
    torch.set_num_threads(1)
    kind = task[0]
    if kind == "grammar":
        recipe = task[1]
        if not in_scope(recipe):
            return kind, [], 0, {"out-of-scope": 1}
        res = compute_all(recipe)
        st = {"in-scope": 1, "warned-configs": sum(1 for r in res.values() if r["warned"]),
              "exception-configs": sum(1 for r in res.values() if r["status"] != "ok")}
        return kind, relational(recipe, res), len(res), st
    if kind == "level":
        # one sub-process per (chunk, level): the whole cross product of the chunk's grammars and the cli items
        _, recipes, items, level, direct = task
        st: Dict[str, int] = {}
        with tempfile.TemporaryDirectory(prefix="c11-") as td:
            argvs = cli_files(items, td) if items else []
            out, err = run_level(recipes, level, argvs)
        if out is None:
            return "interpreter", [{"clause": "interpreter.driver_runs", "kind": "driver-crash", "key": f"interpreter:{level or 'plain'}:driver-crash",
                                    "detail": err, "case": {"check": "interpreter", "recipes": recipes, "level": level}}], 0, st
        fl, n = interpreter_check(recipes, (level,), st, pre=out)
        if items:
            fl2, n2 = cli_check(items, level, direct=direct, pre=(out, argvs))
            st["cli-runs"] = n2
            fl, n = fl + fl2, n + n2
        return "interpreter", fl, n, st
    raise ValueError(kind)


def _what(f: dict) -> str:
    c = f["case"]
    r = c.get("recipe") or (c.get("recipes") or [None])[0] or (c.get("items") or [[{}]])[0][0]
    fam = (r.get("meta") or {}).get("family", "")
    return f"{c['check']}: {f['kind']} [{f['key']}] on grammar {fam} ({C3._shape_tags(r) if r else ''})"


def run_bounded(ctx: Ctx) -> Report:
    rep = Report(property_id=PID, level="exploration")
    rep.functions_under_contract = ["fggs.sum_product.sum_product", "fggs.sum_product.SumProduct.backward",
                                    "fggs.sum_product.J_precompute_products", "fggs.sum_product.fixed_point",
                                    "fggs.sum_product.newton", "fggs.sum_product.linear", "bin/sum_product.py"]
    rng = ctx.rng("c11-grammars")
    recipes = grammars(ctx.tier, rng)
    scoped = [g for g in recipes if in_scope(g)]
    n_interp, n_cli = (6, 3) if not ctx.thorough else (40, 10)
    # the interpreter / cli samples: the hand-written shapes first (they are the ones with assertions on the path)
    pick = [g for g in scoped if not (g.get("meta") or {}).get("family", "").startswith("reweighted")]
    wanted = ["three-edges-private-first-node", "all-edges-on-externals", "shared-factor", "recursive-chain-three-edges",
              "nonlinear-arity1", "edgeless-ext-and-internal-arity2"]
    first = []
    for w in wanted:
        first += [g for g in pick if g["meta"]["family"] == w][:1]
    rest = [g for g in scoped if g not in first]
    rng2 = ctx.rng("c11-subprocess-sample")
    rng2.shuffle(rest)
    interp = (first + rest)[:n_interp]
    cli = [g for g in (first + rest) if not G.is_recursive(g) or True][:n_cli]
    tasks: List[tuple] = []
    per = 6 if not ctx.thorough else 8
    items = [(g, "newton", jp) for g in cli for jp in (False, True)] + [(cli[0], "fixed-point", False)]
    for level in LEVELS:
        for i in range(0, len(interp), per):
            # the first chunk of each level also carries the command-line runs; -OO is the script's own shebang level
            tasks.append(("level", interp[i:i + per], items if i == 0 else [], level, level == "-OO" and i == 0))
    tasks += [("grammar", g) for g in recipes]
    fails: List[dict] = []
    counts = {"grammar": 0, "interpreter": 0, "cli": 0}
    n_cli_runs = 0
    stats: Dict[str, int] = {}
    jobs = max(1, min(ctx.jobs, len(tasks)))
    if jobs > 1:
        import torch            # import once, before forking; no tensor op runs in the parent
        import fggs  # noqa
        torch.set_num_threads(1)
        with mp.get_context("fork").Pool(jobs) as pool:
            results = list(pool.imap(_task, tasks, chunksize=1))
    else:
        results = [_task(t) for t in tasks]
    for kind, fl, n, st in results:
        fails.extend(fl)
        counts[kind] += n
        n_cli_runs += st.pop("cli-runs", 0)
        for k, v in st.items():
            stats[k] = stats.get(k, 0) + v
    counts["cli"] = n_cli_runs
    counts["interpreter"] -= n_cli_runs
    per_key: Dict[str, int] = {}
    for f in fails:
        per_key[f["key"]] = per_key.get(f["key"], 0) + 1
        if per_key[f["key"]] <= 3:
            rep.failures.append(Failure(obligation=f["clause"], what=_what(f), key=f["key"], detail=f["detail"],
                                        replay={"module": MODULE, "func": "replay_case", "case": f["case"]}))
    vk = dict(sorted(per_key.items()))
    rep.bounded.append(Bounded(
        function="fggs.sum_product values+gradients across method x j_precompute x dtype x semiring (relational)",
        bound=BOUND, cases=counts["grammar"], distinct_nontrivial=stats.get("in-scope", 0),
        rule=("a case is one (grammar, semiring, method, j_precompute, dtype) run compared with the semiring's baseline run "
              "(newton, j_precompute off, float64) plus the three cross-semiring relations per grammar; distinct = canonical "
              "recipe in scope; all are non-trivial (>= 2 edges in some rule or a hand-written shape)"),
        samples=scoped[:3], exhaustive=False,
        extra={"grammars": len(recipes), "outcomes": dict(sorted(stats.items())), "solver": {k: list(v) for k, v in SOLVER.items()},
               "compare": {k: list(v) for k, v in CMP.items()},
               "violations_per_key": {k: v for k, v in vk.items() if not k.startswith(("interpreter", "cli"))}}))
    rep.bounded.append(Bounded(
        function="python / python -O / python -OO sub-processes (whole cross product) and bin/sum_product.py -d -G [-j]",
        bound=f"{len(interp)} grammars x all configurations x 3 interpreter levels; {len(cli)} grammars x j_precompute x 3 levels "
              f"through bin/sum_product.py run as __main__ (+ one fixed-point run, + one direct command line at -OO)",
        cases=counts["interpreter"] + counts["cli"], distinct_nontrivial=len({G.canonical(g) for g in interp + cli}),
        rule="a case is one configuration result compared with the in-process result (1e-12) / one command-line run compared "
             "with the library call; grammars: the hand-written shapes first, then a seeded sample of the scope",
        samples=interp[:2], exhaustive=False,
        extra={"interpreter_cases": counts["interpreter"], "cli_runs": counts["cli"],
               "violations_per_key": {k: v for k, v in vk.items() if k.startswith(("interpreter", "cli"))}}))
    rep.extra["c11_bounded_violations_per_key"] = vk
    return rep


def replay_case(case: dict) -> bool:
    import torch
    torch.set_num_threads(1)
    chk = case["check"]
    if chk in ("relational", "cross"):
        recipe = case["recipe"]
        fl = relational(recipe, compute_all(recipe))
        if chk == "relational":
            fl = [f for f in fl if f["case"]["check"] == "relational" and f["case"]["semiring"] == case["semiring"]]
            exact = [f for f in fl if f["case"]["config"] == case["config"]]
            fl = exact or fl
        else:
            fl = [f for f in fl if f["case"]["check"] == "cross" and f["case"]["semiring"] == case["semiring"]]
    elif chk == "interpreter":
        fl, _ = interpreter_check(case["recipes"], (case["level"],))
        fl = [f for f in fl if f["case"].get("level") == case["level"] and
              (case.get("config") is None or f["case"].get("config") == case.get("config"))]
    elif chk == "cli":
        fl, _ = cli_check([tuple(x) for x in case["items"]], case.get("level", ""))
    else:
        raise ValueError(chk)
    print(f"C11 replay {chk}: {'VIOLATION reproduces' if fl else 'no violation'}")
    for f in fl[:3]:
        print("  ", f["clause"], f["key"])
        print("  ", f["detail"][:1500])
    return bool(fl)


if __name__ == "__main__":
    tier = sys.argv[1] if len(sys.argv) > 1 else "quick"
    import time
    t0 = time.time()
    r = run_bounded(Ctx(PID, tier, 0))
    for b in r.bounded:
        print(json.dumps(b.extra, indent=1))
    print(len(r.failures), "failure records;", [b.cases for b in r.bounded], "cases;", round(time.time() - t0, 1), "s")
    for f in r.failures:
        print(f.obligation, "|", f.key, "|", f.detail[:300])
