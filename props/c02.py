"""C02 -- see props/_common.SPEC and DESIGN.md section 5."""
from props._common import make
run, run_obligations = make("C02")
