"""C15 (bounded): hyperedge replacement is typed, fresh and order-independent.

Three contracts, all on the real fggs.replace_edge / start_graph / FGGDerivation.derive:
  1. single replacement: exact post-state, freshness, frame, raise-iff (wrong type, edge not in graph) + unchanged;
  2. confluence: every derivation tree with <= 4 rule instances over a handful of HRGs x ALL linearisations
     (parents before children) gives pairwise isomorphic graphs, isomorphic to the graph of an own model of replacement;
  3. derive(): graph isomorphic to the model's, assignment total, factor-weight product = product over rule instances.

Graph recipe: {"nodes": [[name, label]], "edges": [[name, labelref, [node names]]], "ext": [names]};
a name starting with "_" gets an implicit id, any other name is the explicit id.  labelref "XN:AB" = nonterminal X of
type (A,B), "tT:A" = terminal t of type (A).
"""
from __future__ import annotations
import itertools, json, math, warnings
from collections import Counter
from typing import Any, Dict, List, Optional, Tuple

import torch
import fggs
from fggs import (Graph, HRG, FGG, HRGRule, Node, Edge, NodeLabel, EdgeLabel, FiniteDomain, FiniteFactor,
                  FGGDerivation, replace_edge, start_graph)
from vf.core import Ctx, Report, Bounded, Failure

MODULE = "props.c15_bounded"
PER_KEY_CAP = 3


def label(ref: str) -> EdgeLabel:
    head, typ = ref.split(":")
    name, kind = head[:-1], head[-1]
    return EdgeLabel(name, tuple(NodeLabel(c) for c in typ), is_terminal=(kind == "T"), is_nonterminal=(kind == "N"))


def label_ref(l: EdgeLabel) -> str:
    return f"{l.name}{'T' if l.is_terminal else 'N'}:{''.join(n.name for n in l.type)}"


def build_graph(rec) -> Tuple[Graph, Dict[str, Node], Dict[str, Edge]]:
    g = Graph()
    nodes: Dict[str, Node] = {}
    edges: Dict[str, Edge] = {}
    for name, lab in rec["nodes"]:
        nodes[name] = Node(NodeLabel(lab), id=None if name.startswith("_") else name)
        g.add_node(nodes[name])
    for name, lr, att in rec["edges"]:
        edges[name] = Edge(label(lr), [nodes[a] for a in att], id=None if name.startswith("_") else name)
        g.add_edge(edges[name])
    g.ext = [nodes[a] for a in rec.get("ext", [])]
    return g, nodes, edges


def rec_type(rec) -> str:
    lab = dict((n, l) for n, l in rec["nodes"])
    return "".join(lab[a] for a in rec.get("ext", []))


# ----------------------------------------------------------------------------------------
# abstract graphs and isomorphism (own, brute force with signature pruning)
# ----------------------------------------------------------------------------------------
def abstract(g: Graph):
    ns = list(g.nodes())
    pos = {n: i for i, n in enumerate(ns)}
    return ([n.label.name for n in ns],
            [(label_ref(e.label), tuple(pos[n] for n in e.nodes)) for e in g.edges()],
            [pos[n] for n in g.ext])


def isomorphic(a, b) -> bool:
    la, ea, xa = a
    lb, eb, xb = b
    if len(la) != len(lb) or len(ea) != len(eb) or len(xa) != len(xb):
        return False
    if Counter(l for l, _ in ea) != Counter(l for l, _ in eb):
        return False

    def sig(labels, edges, ext):
        s = [[labels[i]] for i in range(len(labels))]
        inc = [Counter() for _ in labels]
        for l, att in edges:
            for k, v in enumerate(att):
                inc[v][(l, k)] += 1
        for k, v in enumerate(ext):
            inc[v][("<ext>", k)] += 1
        return [(labels[i], tuple(sorted(inc[i].items()))) for i in range(len(labels))]
    sa, sb = sig(la, ea, xa), sig(lb, eb, xb)
    if Counter(sa) != Counter(sb):
        return False
    target = Counter(eb)
    n = len(la)
    cand = [[j for j in range(n) if sb[j] == sa[i]] for i in range(n)]
    order = sorted(range(n), key=lambda i: len(cand[i]))
    m: Dict[int, int] = {}
    used = set()

    def done():
        if [m[v] for v in xa] != list(xb):
            return False
        return Counter((l, tuple(m[v] for v in att)) for l, att in ea) == target

    def go(k):
        if k == n:
            return done()
        i = order[k]
        for j in cand[i]:
            if j in used:
                continue
            m[i] = j
            used.add(j)
            if go(k + 1):
                return True
            used.discard(j)
            del m[i]
        return False
    return go(0)


# ----------------------------------------------------------------------------------------
# own model of replacement on abstract graphs
# ----------------------------------------------------------------------------------------
class Model:
    """nodes: list of labels; edges: dict key -> (labelref, tuple of node indices); ext: list of indices."""
    def __init__(self):
        self.labels: List[str] = []
        self.edges: Dict[Any, Tuple[str, Tuple[int, ...]]] = {}
        self.ext: List[int] = []
        self.k = 0

    def add_node(self, lab) -> int:
        self.labels.append(lab)
        return len(self.labels) - 1

    def add_edge(self, lr, att):
        self.k += 1
        self.edges[self.k] = (lr, tuple(att))
        return self.k

    def replace(self, key, rec) -> Tuple[Dict[str, int], Dict[str, Any]]:
        lr, att = self.edges.pop(key)
        nm: Dict[str, int] = {}
        for x, host in zip(rec.get("ext", []), att):
            nm[x] = host
        for name, lab in rec["nodes"]:
            if name not in nm:
                nm[name] = self.add_node(lab)
        em = {}
        for name, elr, eatt in rec["edges"]:
            em[name] = self.add_edge(elr, [nm[a] for a in eatt])
        return nm, em

    def abstract(self):
        return (list(self.labels), [v for v in self.edges.values()], list(self.ext))


class Collector:
    def __init__(self):
        self.fails: List[dict] = []
        self.counts: Dict[str, int] = {}

    def add(self, obligation, key, what, case, detail=""):
        self.counts[key] = self.counts.get(key, 0) + 1
        if self.counts[key] <= PER_KEY_CAP:
            self.fails.append({"obligation": obligation, "key": key, "what": what, "case": case, "detail": detail})


# ----------------------------------------------------------------------------------------
# 1. single replacement
# ----------------------------------------------------------------------------------------
def snapshot(g: Graph):
    return (list(g.nodes()), list(g.edges()), tuple(g.ext))


def check_single(case, col: Collector) -> bool:
    """case = {"kind":"single","host":rec,"edge":name | {"foreign": [labelref, [node names], id]},"repl":rec}"""
    g, gn, ge = build_graph(case["host"])
    r, rn, re_ = build_graph(case["repl"])
    foreign = isinstance(case["edge"], dict)
    if foreign:
        lr, att, eid = case["edge"]["foreign"]
        e = Edge(label(lr), [gn[a] for a in att], id=eid)
        in_graph = any(x == e for x in g.edges())
    else:
        e = ge[case["edge"]]
        in_graph = True
    type_ok = (tuple(n.label for n in e.nodes) == tuple(n.label for n in r.ext))
    before, rbefore = snapshot(g), snapshot(r)
    old_nodes, old_edges = list(g.nodes()), list(g.edges())
    ok = True
    tag = "edge-in-graph" if in_graph else ("foreign-edge:" + case["edge"].get("why", "?"))

    def bad(clause, key, msg):
        nonlocal ok
        ok = False
        col.add(f"replace_edge.{clause}", f"replace_edge:{key}", f"replace_edge({json.dumps(case['host'])}, {json.dumps(case['edge'])}, {json.dumps(case['repl'])}): {msg}", case, msg)
    try:
        res = replace_edge(g, e, r)
        got = "ok"
    except ValueError as ex:
        got = "ValueError"
    except Exception as ex:
        got = f"{type(ex).__name__}"
    expect = "ok" if (type_ok and in_graph) else "ValueError"
    if got != expect:
        why = ("wrong-type" if not type_ok else "") + ("" if in_graph else "+" + tag)
        bad("raises", f"raises:expected-{expect}:got-{got}:{why.strip('+') or 'valid'}",
            f"observed {got}, expected {expect} (type_ok={type_ok}, edge in graph={in_graph}); edges before {[x.id for x in old_edges]} "
            f"after {[x.id if isinstance(x.id, str) else '<fresh>' for x in g.edges()]}")
    if snapshot(r) != rbefore:
        bad("frame.repl", "replacement-mutated", "the replacement graph was changed")
    if got != "ok":
        if snapshot(g) != before:
            bad("on_raise", f"on_raise:graph-changed:{'wrong-type' if not type_ok else tag}", f"raised {got} but the graph changed: edges {[str(x.id) for x in g.edges()]}")
        return ok
    if expect != "ok":
        return ok
    node_map, edge_map = res
    rnodes, redges = list(r.nodes()), list(r.edges())
    # totality
    if set(node_map.keys()) != set(rnodes):
        bad("maps", "node_map-not-total", f"node_map keys {len(node_map)} vs {len(rnodes)} replacement nodes")
        return ok
    if set(edge_map.keys()) != set(redges):
        bad("maps", "edge_map-not-total", "edge_map keys differ from replacement edges")
        return ok
    # externals identified in order
    for i, x in enumerate(r.ext):
        if node_map[x] != e.nodes[i]:
            bad("ext", "ext-not-identified-in-order", f"node_map[ext[{i}]] is {node_map[x].id!r}, expected attachment node {e.nodes[i].id!r}")
    # fresh copies of the other nodes
    fresh = [node_map[x] for x in rnodes if x not in r.ext]
    if len({f.id for f in fresh}) != len(fresh):
        bad("fresh", "fresh-nodes-not-distinct", "two internal nodes share one image")
    for x in rnodes:
        if x in r.ext:
            continue
        f = node_map[x]
        if f.id in {n.id for n in old_nodes} or f in old_nodes:
            bad("fresh", "node-not-fresh", f"image of internal node {x.id!r} has id {f.id!r} which is an id of the host graph")
        if f.id in {n.id for n in rnodes}:
            bad("fresh", "node-shared-with-replacement", f"image of internal node {x.id!r} is a node id of the replacement")
        if f.label != x.label:
            bad("fresh", "node-label-not-preserved", f"{x.label.name} -> {f.label.name}")
    new_nodes = list(g.nodes())
    if Counter(n.id for n in new_nodes) != Counter([n.id for n in old_nodes] + [f.id for f in fresh]):
        bad("nodes", "node-set", f"nodes after: {len(new_nodes)}, expected {len(old_nodes)} old + {len(fresh)} fresh")
    for n in old_nodes:
        if n not in new_nodes:
            bad("frame", "old-node-lost", f"{n.id!r}")
    # edges
    images = [edge_map[x] for x in redges]
    if len({im.id for im in images}) != len(images):
        bad("fresh", "fresh-edges-not-distinct", "")
    for x in redges:
        im = edge_map[x]
        if im.id in {o.id for o in old_edges} or im.id in {o.id for o in redges}:
            bad("fresh", "edge-not-fresh", f"image of edge {x.id!r} has id {im.id!r}")
        if im.label != x.label:
            bad("edges", "edge-label-not-preserved", f"{label_ref(x.label)} -> {label_ref(im.label)}")
        if tuple(im.nodes) != tuple(node_map[n] for n in x.nodes):
            bad("edges", "attachment-order-not-preserved", f"edge {x.id!r}")
    new_edges = list(g.edges())
    want = [o for o in old_edges if o != e] + images
    if Counter(x.id for x in new_edges) != Counter(x.id for x in want) or any(x not in new_edges for x in want):
        bad("edges", "edge-set", f"edges after {len(new_edges)}, expected {len(want)}")
    if e in new_edges:
        bad("edges", "edge-not-removed", "")
    if tuple(g.ext) != before[2]:
        bad("frame", "ext-changed", "")
    # well-formedness of the result (attachments are nodes of the graph)
    for x in new_edges:
        for n in x.nodes:
            if n not in new_nodes:
                bad("wf", "dangling-attachment", f"edge {x.id!r} -> {n.id!r}")
    return ok


def host_recipes(explicit: bool) -> List[dict]:
    p = "" if explicit else "_"
    out = []
    for labels in ([], ["A"], ["A", "A"], ["A", "B"], ["A", "B", "A"]):
        names = [f"{p}n{i}" for i in range(len(labels))]
        for k in range(3):
            for att in itertools.product(range(len(labels)), repeat=k):
                typ = "".join(labels[i] for i in att)
                x = [f"{p}e0", f"XN:{typ}", [names[i] for i in att]]
                others = [None]
                if labels:
                    others.append([f"{p}e1", f"tT:{''.join(labels[:2])}", names[:2]])
                    others.append([f"{p}e1", f"YN:{labels[-1]}", [names[-1]]])
                for o in others:
                    for ext in ([], names[:1]) if labels else ([],):
                        out.append({"nodes": [[n, l] for n, l in zip(names, labels)], "edges": [x] + ([o] if o else []), "ext": list(ext)})
    return out


def repl_recipes(explicit: bool) -> List[dict]:
    # explicit replacement ids deliberately COINCIDE with the host's (n0, e0, ...): freshness must not depend on names.
    # Edge-label NAMES are disjoint from the host's (host X, Y, t; replacement W, r, s): host and replacement come from one
    # grammar, so a name never denotes two labels (label re-use with equal types is exercised by the derivation part).
    p = "" if explicit else "_"
    out = []
    for labels in ([], ["A"], ["B"], ["A", "A"], ["A", "B"], ["A", "B", "A"]):
        names = [f"{p}n{i}" for i in range(len(labels))]
        for k in range(3):
            for ext in itertools.permutations(range(len(labels)), k):
                opts = [[]]
                if labels:
                    opts.append([[f"{p}e0", f"rT:{''.join(labels[:2])}", names[:2]]])
                    last = len(labels) - 1
                    opts.append([[f"{p}e0", f"WN:{labels[last]}", [names[last]]],
                                 [f"{p}e1", f"sT:{''.join(reversed(labels[:2]))}", list(reversed(names[:2]))]])
                else:
                    opts.append([[f"{p}e0", "WN:", []], [f"{p}e1", "sT:", []]])
                for es in opts:
                    out.append({"nodes": [[n, l] for n, l in zip(names, labels)], "edges": es, "ext": [names[i] for i in ext]})
    return out


def single_cases(thorough: bool) -> List[dict]:
    cases = []
    for explicit in (True, False):
        hosts, repls = host_recipes(explicit), repl_recipes(explicit)
        for h in hosts:
            htyp = h["edges"][0][1].split(":")[1]
            for r in repls:
                if rec_type(r) != htyp and not thorough and (len(rec_type(r)) != len(htyp)) and len(h["edges"]) > 1:
                    continue                      # quick tier: wrong-ARITY pairs only on the hosts without a second edge
                cases.append({"kind": "single", "host": h, "edge": h["edges"][0][0], "repl": r})
    # mixed: explicit host, implicit replacement and vice versa (type-matching only)
    for eh, er in ((True, False), (False, True)):
        for h in host_recipes(eh):
            htyp = h["edges"][0][1].split(":")[1]
            for r in repl_recipes(er):
                if rec_type(r) == htyp:
                    cases.append({"kind": "single", "host": h, "edge": h["edges"][0][0], "repl": r})
    # edge not in graph (explicit hosts, type-matching replacements)
    for h in host_recipes(True):
        name, lr, att = h["edges"][0]
        for r in repl_recipes(True):
            if rec_type(r) != lr.split(":")[1]:
                continue
            cases.append({"kind": "single", "host": h, "edge": {"foreign": [lr, att, "zz"], "why": "unknown-id"}, "repl": r})
            cases.append({"kind": "single", "host": h, "edge": {"foreign": ["Q" + lr[1:], att, name], "why": "same-id-other-label"}, "repl": r})
            if len(h["edges"]) > 1 and h["edges"][1][1].startswith("YN:") and lr.split(":")[1] == h["edges"][1][1].split(":")[1]:
                cases.append({"kind": "single", "host": h, "edge": {"foreign": [lr, h["edges"][1][2], h["edges"][1][0]], "why": "id-of-another-edge"}, "repl": r})
    return cases


def label_conflict_observation() -> dict:
    """Host and replacement that use one edge-label name with two types (impossible inside one grammar): recorded only."""
    host = {"nodes": [], "edges": [["e0", "XN:", []]], "ext": []}
    repl = {"nodes": [["n0", "A"]], "edges": [["f0", "XN:A", ["n0"]]], "ext": []}
    g, gn, ge = build_graph(host)
    r, _, _ = build_graph(repl)
    before = snapshot(g)
    try:
        replace_edge(g, ge["e0"], r)
        out = "no exception"
    except Exception as e:
        out = f"{type(e).__name__}: {e}"
    return {"host": host, "repl": repl, "observed": out, "graph_unchanged": snapshot(g) == before,
            "note": "outside the precondition (one label per name over host and replacement); the edge is removed and nodes are added before the raise"}


def repeated_ext_observations() -> List[dict]:
    """A replacement whose ext repeats a node is outside the precondition: record what the code does."""
    out = []
    for host, repl in [
        ({"nodes": [["a", "A"], ["b", "A"]], "edges": [["e0", "XN:AA", ["a", "b"]]], "ext": []},
         {"nodes": [["x", "A"]], "edges": [["f0", "tT:A", ["x"]]], "ext": ["x", "x"]}),
        ({"nodes": [["a", "A"]], "edges": [["e0", "XN:AA", ["a", "a"]]], "ext": []},
         {"nodes": [["x", "A"]], "edges": [["f0", "tT:A", ["x"]]], "ext": ["x", "x"]}),
    ]:
        g, gn, ge = build_graph(host)
        r, rn, re_ = build_graph(repl)
        try:
            nm, em = replace_edge(g, ge["e0"], r)
            outcome = {"raised": None, "ext_node_mapped_to": nm[rn["x"]].id,
                       "terminal_edge_attached_to": [n.id for n in em[re_["f0"]].nodes],
                       "nodes_after": [n.id for n in g.nodes()]}
        except Exception as e:
            outcome = {"raised": f"{type(e).__name__}: {e}"}
        out.append({"host": host, "repl": repl, "observed": outcome,
                    "note": "distinct attachment nodes cannot both be identified with one external node; the last position wins silently"})
    return out


# ----------------------------------------------------------------------------------------
# 2. derivation trees x all linearisations
# ----------------------------------------------------------------------------------------
HRGS: Dict[str, dict] = {
    "two-children": {"start": "SN:", "rules": [
        ["SN:", {"nodes": [["a", "A"]], "edges": [["e1", "XN:A", ["a"]], ["e2", "YN:A", ["a"]]], "ext": []}],
        ["XN:A", {"nodes": [["a", "A"]], "edges": [["e1", "tT:A", ["a"]]], "ext": ["a"]}],
        ["XN:A", {"nodes": [["a", "A"], ["b", "B"]], "edges": [["e1", "uT:AB", ["a", "b"]], ["e2", "YN:A", ["a"]]], "ext": ["a"]}],
        ["YN:A", {"nodes": [["a", "A"]], "edges": [["e1", "tT:A", ["a"]]], "ext": ["a"]}],
        ["YN:A", {"nodes": [["a", "A"], ["_c", "A"]], "edges": [["_e", "vT:AA", ["_c", "a"]]], "ext": ["a"]}]]},
    "chain": {"start": "SN:", "rules": [
        ["SN:", {"nodes": [["a", "A"]], "edges": [["e1", "XN:A", ["a"]]], "ext": []}],
        ["XN:A", {"nodes": [["a", "A"], ["b", "A"]], "edges": [["e1", "tT:AA", ["a", "b"]], ["e2", "XN:A", ["b"]]], "ext": ["a"]}],
        ["XN:A", {"nodes": [["a", "A"]], "edges": [["e1", "sT:A", ["a"]]], "ext": ["a"]}]]},
    "branching-arity0": {"start": "SN:", "rules": [
        ["SN:", {"nodes": [], "edges": [["e1", "XN:", []], ["e2", "XN:", []]], "ext": []}],
        ["XN:", {"nodes": [], "edges": [["e1", "XN:", []]], "ext": []}],
        ["XN:", {"nodes": [["a", "A"]], "edges": [["e1", "tT:A", ["a"]]], "ext": []}],
        ["XN:", {"nodes": [], "edges": [["e1", "cT:", []], ["e2", "XN:", []], ["e3", "XN:", []]], "ext": []}]]},
    "arity2-swapped": {"start": "SN:", "rules": [
        ["SN:", {"nodes": [["a", "A"], ["b", "B"]], "edges": [["e1", "XN:AB", ["a", "b"]], ["e2", "ZN:BA", ["b", "a"]]], "ext": []}],
        ["XN:AB", {"nodes": [["a", "A"], ["b", "B"], ["c", "A"]], "edges": [["e1", "tT:AB", ["a", "b"]], ["e2", "wT:AA", ["c", "a"]]], "ext": ["a", "b"]}],
        ["XN:AB", {"nodes": [["a", "A"], ["b", "B"]], "edges": [["e1", "ZN:BA", ["b", "a"]]], "ext": ["a", "b"]}],
        ["ZN:BA", {"nodes": [["a", "B"], ["b", "A"]], "edges": [["e1", "rT:BA", ["a", "b"]]], "ext": ["a", "b"]}],
        ["ZN:BA", {"nodes": [["x", "A"], ["y", "B"]], "edges": [["e1", "tT:AB", ["x", "y"]], ["e2", "XN:AB", ["x", "y"]]], "ext": ["y", "x"]}]]},
    "double-attachment": {"start": "SN:", "rules": [
        ["SN:", {"nodes": [["a", "A"]], "edges": [["e1", "XN:AA", ["a", "a"]], ["e2", "YN:A", ["a"]]], "ext": []}],
        ["XN:AA", {"nodes": [["a", "A"], ["b", "A"]], "edges": [["e1", "tT:AA", ["a", "b"]]], "ext": ["a", "b"]}],
        ["XN:AA", {"nodes": [["a", "A"], ["b", "A"]], "edges": [["e1", "YN:A", ["b"]], ["e2", "tT:AA", ["b", "a"]]], "ext": ["a", "b"]}],
        ["YN:A", {"nodes": [["a", "A"]], "edges": [["e1", "sT:A", ["a"]]], "ext": ["a"]}]]},
    "start-arity1": {"start": "XN:A", "rules": [
        ["XN:A", {"nodes": [["a", "A"]], "edges": [["e1", "tT:A", ["a"]], ["e2", "YN:A", ["a"]], ["e3", "YN:A", ["a"]]], "ext": ["a"]}],
        ["YN:A", {"nodes": [["a", "A"], ["b", "B"]], "edges": [["e1", "uT:AB", ["a", "b"]]], "ext": ["a"]}],
        ["YN:A", {"nodes": [["a", "A"]], "edges": [["e1", "XN:A", ["a"]]], "ext": ["a"]}],
        ["XN:A", {"nodes": [["a", "A"]], "edges": [], "ext": ["a"]}]]},
}


def build_hrg(rec, cls=HRG):
    h = cls(label(rec["start"]))
    built = []
    for lhs, rhs in rec["rules"]:
        g, n, e = build_graph(rhs)
        rule = HRGRule(label(lhs), g)
        h.add_rule(rule)
        built.append((rule, n, e))
    return h, built


def nt_edges(rhs) -> List[Tuple[str, str]]:
    return [(name, lr) for name, lr, att in rhs["edges"] if lr.split(":")[0].endswith("N")]


def trees(rec, lhs: str, budget: int):
    """All complete derivation trees rooted at a rule for `lhs` with at most `budget` rule instances.
    tree = [rule index, {nonterminal edge name: subtree}]"""
    for i, (l, rhs) in enumerate(rec["rules"]):
        if l != lhs:
            continue
        nts = nt_edges(rhs)
        if 1 + len(nts) > budget:
            continue

        def fill(k, remaining):
            if k == len(nts):
                yield {}, remaining
                return
            name, lr = nts[k]
            # each remaining child needs at least one instance
            for sub in trees(rec, lr, remaining - (len(nts) - k - 1)):
                sz = tree_size(sub)
                for rest, rem in fill(k + 1, remaining - sz):
                    d = {name: sub}
                    d.update(rest)
                    yield d, rem
        for ch, _ in fill(0, budget - 1):
            yield [i, ch]


def tree_size(t) -> int:
    return 1 + sum(tree_size(c) for c in t[1].values())


def tree_positions(t, path=()):
    yield path, t
    for name in t[1]:
        yield from tree_positions(t[1][name], path + (name,))


def linearisations(t) -> List[List[tuple]]:
    pos = [p for p, _ in tree_positions(t)]
    out = []

    def go(done, avail):
        if len(done) == len(pos):
            out.append(list(done))
            return
        for p in sorted(avail):
            nxt = [q for q in pos if len(q) == len(p) + 1 and q[:len(p)] == p]
            go(done + [p], (avail - {p}) | set(nxt))
    go([], {()})
    return out


def subtree(t, path):
    for name in path:
        t = t[1][name]
    return t


def run_linearisation(hrg, built, t, order) -> Graph:
    g = start_graph(hrg)
    (e0,) = list(g.edges())
    at = {(): e0}
    for p in order:
        st = subtree(t, p)
        rule, rn, re_ = built[st[0]]
        nm, em = replace_edge(g, at.pop(p), rule.rhs)
        for name in st[1]:
            at[p + (name,)] = em[re_[name]]
    return g


def model_derive(rec, t) -> Model:
    m = Model()
    typ = rec["start"].split(":")[1]
    k = m.add_edge(rec["start"], [m.add_node(c) for c in typ])

    def visit(st, key):
        nm, em = m.replace(key, rec["rules"][st[0]][1])
        for name in st[1]:
            visit(st[1][name], em[name])
    visit(t, k)
    return m


def check_confluence(case, col: Collector) -> bool:
    """case = {"kind":"confluence","hrg":name,"tree":tree}"""
    rec = HRGS[case["hrg"]]
    t = case["tree"]
    hrg, built = build_hrg(rec)
    before = [snapshot(r.rhs) for r, _, _ in built]
    want = model_derive(rec, t).abstract()
    ok = True
    first = None
    for order in linearisations(t):
        try:
            g = run_linearisation(hrg, built, t, order)
        except Exception as e:
            ok = False
            col.add("replace_edge.schedule", "schedule:raises", f"hrg {case['hrg']} tree {json.dumps(t)} order {order}: {e!r}", dict(case, order=[list(p) for p in order]))
            continue
        a = abstract(g)
        if first is None:
            first = a
            if not isomorphic(a, want):
                ok = False
                col.add("replace_edge.schedule.model", "schedule:not-isomorphic-to-model",
                        f"hrg {case['hrg']} tree {json.dumps(t)}: result of order {order} is not isomorphic to the model's derived graph",
                        dict(case, order=[list(p) for p in order]), detail=f"observed {a}; expected {want}")
        elif not isomorphic(first, a):
            ok = False
            col.add("replace_edge.confluence", "schedule:orders-not-isomorphic",
                    f"hrg {case['hrg']} tree {json.dumps(t)}: order {order} gives a graph not isomorphic to the first order's",
                    dict(case, order=[list(p) for p in order]), detail=f"{a} vs {first}")
        if any(e.label.is_nonterminal for e in g.edges()):
            ok = False
            col.add("replace_edge.schedule", "schedule:nonterminal-left", f"hrg {case['hrg']} tree {json.dumps(t)}", case)
    if [snapshot(r.rhs) for r, _, _ in built] != before:
        ok = False
        col.add("replace_edge.frame", "schedule:rule-mutated", f"hrg {case['hrg']}", case)
    return ok


def check_start_graph(name, col: Collector) -> bool:
    rec = HRGS[name]
    hrg, _ = build_hrg(rec)
    g = start_graph(hrg)
    typ = rec["start"].split(":")[1]
    a = abstract(g)
    ok = (len(a[1]) == 1 and a[1][0][0] == rec["start"] and [a[0][i] for i in a[1][0][1]] == list(typ)
          and len(a[0]) == len(typ) and len(set(a[1][0][1])) == len(typ) and a[2] == [])
    if not ok:
        col.add("start_graph", "start_graph", f"start_graph of {name}: {a}", {"kind": "start_graph", "hrg": name})
    return ok


def check_start_graph_type(typ: str, col: Collector) -> bool:
    """start_graph of a grammar whose start symbol has the given type (a string of node-label names, repeats allowed):
    one edge labelled by the start symbol on len(typ) pairwise different nodes with the labels of the type, in order;
    no other node; no externals."""
    s = EdgeLabel("S", [NodeLabel(c) for c in typ], is_nonterminal=True)
    g = start_graph(HRG(s))
    es, ns = list(g.edges()), list(g.nodes())
    ok = (len(es) == 1 and es[0].label == s and [n.label.name for n in es[0].nodes] == list(typ)
          and len({n.id for n in es[0].nodes}) == len(typ) and len(ns) == len(typ)
          and {n.id for n in ns} == {n.id for n in es[0].nodes} and len(g.ext) == 0)
    if not ok:
        col.add("start_graph", f"start_graph:type-{typ or 'empty'}",
                f"start_graph for a start symbol of type ({','.join(typ)}): edges {[(e.label.name, [str(n.id) for n in e.nodes]) for e in es]} "
                f"nodes {[(str(n.id), n.label.name) for n in ns]}", {"kind": "start_graph_type", "type": typ})
    return ok


# ----------------------------------------------------------------------------------------
# 3. FGGDerivation.derive
# ----------------------------------------------------------------------------------------
def terminal_labels(rec) -> List[str]:
    out = []
    for _, rhs in rec["rules"]:
        for _, lr, _ in rhs["edges"]:
            if lr.split(":")[0].endswith("T") and lr not in out:
                out.append(lr)
    return out


def build_fgg(rec, wseed: int):
    import random
    rnd = random.Random(wseed)
    fgg, built = build_hrg(rec, FGG)
    for c in "AB":
        fgg.add_domain(NodeLabel(c), FiniteDomain([f"{c.lower()}0", f"{c.lower()}1"]))
    weights = {}
    for lr in terminal_labels(rec):
        typ = lr.split(":")[1]

        def mk(k):
            return round(rnd.uniform(0.5, 2.0), 3) if k == 0 else [mk(k - 1) for _ in range(2)]
        w = mk(len(typ))
        weights[lr] = w
        fgg.new_finite_factor(label(lr).name, w)
    return fgg, built, weights


def check_derive(case, col: Collector) -> bool:
    """case = {"kind":"derive","hrg":name,"tree":tree,"wseed":int,"choices":[0/1 ...]} ; choices are consumed in preorder
    for the internal (non-external) nodes of each rule instance."""
    rec = HRGS[case["hrg"]]
    t = case["tree"]
    fgg, built, weights = build_fgg(rec, case["wseed"])
    it = iter(case["choices"])
    typ = rec["start"].split(":")[1]
    root_vals = [next(it) for _ in typ]
    expected_product = [1.0]
    n_instances = [0]

    def w_at(lr, idx):
        w = weights[lr]
        for i in idx:
            w = w[i]
        return w

    def dval(labname, i):
        return f"{labname.lower()}{i}"

    def mk(st, ext_vals) -> FGGDerivation:
        rule, rn, re_ = built[st[0]]
        rhs = rec["rules"][st[0]][1]
        lab = dict((n, l) for n, l in rhs["nodes"])
        val: Dict[str, int] = {}
        for x, v in zip(rhs["ext"], ext_vals):
            val[x] = v
        for n, l in rhs["nodes"]:
            if n not in val:
                val[n] = next(it)
        n_instances[0] += 1
        for name, lr, att in rhs["edges"]:
            if lr.split(":")[0].endswith("T"):
                expected_product[0] *= w_at(lr, [val[a] for a in att])
        children = {}
        for name, lr, att in rhs["edges"]:
            if name in st[1]:
                children[re_[name]] = mk(st[1][name], [val[a] for a in att])
        return FGGDerivation(fgg, rule, {rn[n]: dval(lab[n], v) for n, v in val.items()}, children)
    d = mk(t, root_vals)
    ok = True

    def bad(clause, key, msg, detail=""):
        nonlocal ok
        ok = False
        col.add(f"FGGDerivation.derive.{clause}", f"derive:{key}", f"hrg {case['hrg']} tree {json.dumps(t)} choices {case['choices']}: {msg}", case, detail)
    try:
        g, asst = d.derive()
    except Exception as e:
        bad("raises", "raises", repr(e))
        return ok
    want = model_derive(rec, t).abstract()
    a = abstract(g)
    if not isomorphic(a, want):
        bad("graph", "graph-not-isomorphic-to-model", "derived graph is not isomorphic to the model's", f"observed {a}; expected {want}")
    nodes = list(g.nodes())
    missing = [n.id for n in nodes if n not in asst]
    if missing:
        bad("assignment", "assignment-not-total", f"{len(missing)} of {len(nodes)} nodes of the derived graph have no value")
        return ok
    for n in nodes:
        if not fgg.domains[n.label.name].contains(asst[n]):
            bad("assignment", "assignment-value-outside-domain", f"{asst[n]!r} for a node labelled {n.label.name}")
    if any(e.label.is_nonterminal for e in g.edges()):
        bad("graph", "nonterminal-left", "")
        return ok
    prod = 1.0
    for e in g.edges():
        prod *= float(g.factors[e.label.name].apply([asst[n] for n in e.nodes]))
    exp = expected_product[0]
    if not math.isclose(prod, exp, rel_tol=1e-4, abs_tol=1e-9):
        bad("weight", "weight-product", f"product over the derived graph {prod!r}, product over rule instances {exp!r}")
    return ok


def n_choices(rec, t) -> int:
    n = len(rec["start"].split(":")[1])
    for _, st in tree_positions(t):
        rhs = rec["rules"][st[0]][1]
        n += len(rhs["nodes"]) - len(set(rhs["ext"]))
    return n


# ----------------------------------------------------------------------------------------
CHECKERS = {"single": check_single, "confluence": check_confluence, "derive": check_derive,
            "start_graph": lambda c, col: check_start_graph(c["hrg"], col),
            "start_graph_type": lambda c, col: check_start_graph_type(c["type"], col)}


def run_bounded(ctx: Ctx) -> Report:
    torch.set_num_threads(1)
    rep = Report(property_id="C15", level="exploration")
    rep.functions_under_contract = ["fggs.derivations.replace_edge", "fggs.derivations.start_graph", "fggs.derivations.FGGDerivation.derive"]
    col = Collector()
    with warnings.catch_warnings():
        warnings.simplefilter("ignore")
        # 1 ------------------------------------------------------------------------
        cases = single_cases(ctx.thorough)
        valid = 0
        for c in cases:
            check_single(c, col)
            if not isinstance(c["edge"], dict) and rec_type(c["repl"]) == c["host"]["edges"][0][1].split(":")[1]:
                valid += 1
        rep.bounded.append(Bounded(
            function="replace_edge (single replacement: post-state, freshness, frame, raise-iff, unchanged on raise)",
            bound="host graphs with <= 3 nodes / <= 2 edges (edge of arity 0-2 incl. repeated attachment nodes, optional second edge, optional external node) x "
                  "replacements with <= 3 nodes / <= 2 edges and distinct externals, explicit ids (coinciding with the host's) and implicit ids, "
                  "+ edge-not-in-graph calls (unknown id / id of the replaced edge with another label / id of another edge)",
            cases=len(cases), distinct_nontrivial=valid,
            rule="product of the host and replacement families" + ("" if ctx.thorough else " (quick: wrong-arity pairs only for single-edge hosts)") +
                 "; non-trivial = type-matching replacement of an edge of the graph (full postcondition evaluated); the rest are must-raise cases",
            samples=[cases[0], cases[len(cases) // 2], cases[-1]], exhaustive=True,
            extra={"must_raise_cases": len(cases) - valid}))
        # 2 ------------------------------------------------------------------------
        budget = 4 if not ctx.thorough else 6
        ccases = []
        n_orders = 0
        for typ in ("", "A", "AB", "AA", "ABA", "AAA", "ABBA"):      # start symbols of arity > 0, repeated node labels
            check_start_graph_type(typ, col)
        for name, rec in HRGS.items():
            check_start_graph(name, col)
            for t in trees(rec, rec["start"], budget):
                ccases.append({"kind": "confluence", "hrg": name, "tree": t})
        multi = 0
        for c in ccases:
            k = len(linearisations(c["tree"]))
            n_orders += k
            multi += (k > 1)
            check_confluence(c, col)
        rep.bounded.append(Bounded(
            function="replace_edge on start_graph: all linearisations of every derivation tree",
            bound=f"{len(HRGS)} HRGs ({', '.join(HRGS)}), every complete derivation tree with <= {budget} rule instances, ALL parent-before-child orders",
            cases=n_orders, distinct_nontrivial=multi,
            rule="a case is one (tree, linearisation); results compared pairwise (to the first) and to an own model of replacement by an own "
                 "isomorphism checker (labels, attachment order, ordered externals); distinct non-trivial = trees with more than one linearisation",
            samples=ccases[:1] + ccases[len(ccases) // 2:len(ccases) // 2 + 1] + ccases[-1:], exhaustive=True,
            extra={"trees": len(ccases)}))
        # 3 ------------------------------------------------------------------------
        dcases = []
        rng = ctx.rng("derive")
        per_tree = 6 if not ctx.thorough else 24
        for c in ccases:
            rec = HRGS[c["hrg"]]
            k = n_choices(rec, c["tree"])
            all_ch = list(itertools.product((0, 1), repeat=k))
            chosen = all_ch if len(all_ch) <= per_tree else rng.sample(all_ch, per_tree)
            for ch in chosen:
                dcases.append({"kind": "derive", "hrg": c["hrg"], "tree": c["tree"], "wseed": ctx.seed, "choices": list(ch)})
        for c in dcases:
            check_derive(c, col)
        rep.bounded.append(Bounded(
            function="FGGDerivation.derive (graph, total assignment, weight product)",
            bound=f"the same trees as FGG derivations (domains of size 2, seeded weights in [0.5,2]); <= {per_tree} consistent assignments per tree "
                  "(all of them when there are fewer)",
            cases=len(dcases), distinct_nontrivial=len({json.dumps(c, sort_keys=True) for c in dcases if tree_size(c["tree"]) > 1}),
            rule="assignments chosen top-down (external nodes inherit the parent's value), exhaustive when <= the cap else seeded sample; "
                 "non-trivial = derivations with more than one rule instance",
            samples=dcases[:1] + dcases[-1:], exhaustive=False))
        rep.extra["repeated_ext"] = repeated_ext_observations()
        rep.extra["label_conflict_between_host_and_replacement"] = label_conflict_observation()
    rep.extra["failure_counts_by_key"] = dict(sorted(col.counts.items()))
    rep.assumptions.append("replace_edge precondition: the replacement's external nodes are pairwise distinct (the repeated-ext behaviour is recorded, not judged)")
    for f in col.fails:
        rep.failures.append(Failure(obligation=f["obligation"], what=f["what"][:400], key=f["key"], detail=f["detail"][:1500],
                                    replay={"module": MODULE, "func": "replay_case", "case": f["case"]}))
    return rep


def replay_case(case: dict) -> bool:
    col = Collector()
    c = {k: v for k, v in case.items() if k != "order"}
    with warnings.catch_warnings():
        warnings.simplefilter("ignore")
        ok = CHECKERS[case["kind"]](c, col)
    for f in col.fails:
        print(f"[C15 replay] {f['obligation']} key={f['key']}\n   {f['what'][:500]}\n   {f['detail'][:500]}")
    if ok:
        print("[C15 replay] contract holds for", json.dumps(case)[:300])
    return not ok
