"""C16 -- graphs and grammars stay well formed under any sequence of API calls."""
from vf import core
from props._common import add_bounded, add_pyvc

FILES = ["graph.py"]


def run_obligations(ctx):
    rep = core.Report(property_id="C16", level="other")
    add_pyvc(rep, ctx, "C16", FILES)
    return rep


def run(ctx):
    rep = run_obligations(ctx)
    rep.explanation = ("Per-operation contracts (requires wf; ensures wf + exact update of the whole view + frame; "
                       "raises iff; state unchanged on raise) on the real methods of fggs/fggs.py, VCs generated from "
                       "the AST and discharged by z3 (unbounded: loops by invariant). Sequences of calls are covered "
                       "by induction over the per-operation contracts; a bounded breadth-first exploration of call "
                       "histories re-checks the same invariants natively and is reported separately.")
    add_bounded(rep, ctx, "C16")
    return rep
