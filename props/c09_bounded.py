"""C09 bounded contract checker -- semiring linear solvers return the least solution of x = A x + b.

Runs the real Semiring.solve, PatternedTensor.solve, fggs.multi.multi_solve (also transpose=True)
and fggs.multi.multi_mv on an enumerated scope and compares with an independent oracle.
BOUNDED, never counted as proved.

Oracle (exact, no iteration; independent of the code under test)
----------------------------------------------------------------
All matrix entries are *dyadic* real-domain values v in {0, 1/4, 1/2, 1, 2, inf}; the semiring
element is v (Real), ln v (Log), log2 v (Viterbi: an integer, so max-plus arithmetic is exact in
floats) or v > 0 (Bool).  The least solution  x = sum_n A^n b  is computed per column of b:
  support graph i -> j iff A_ij != zero;  reach = its reflexive-transitive closure;
  live(i)   iff i reaches some t with b_t != zero            (x_i != zero);
  hot(C)    for a strongly connected component C that contains a cycle:
            Real/Log: an infinite entry inside C or spectral radius(A_C) >= 1, decided exactly with
            Fractions (I - A_C is a nonsingular M-matrix iff all leading principal minors are > 0);
            Viterbi: an infinite entry inside C or a closed walk of positive weight of length <= |C|;
  source(j) iff b_j = inf, or A_jk = inf for a live k, or (hot(C_j) and live(j));
  x_i = inf iff i reaches a source;  x_i = zero iff not live(i);
  the remaining entries solve the finite system exactly: Gaussian elimination over Fractions
  (Real/Log), Bellman-Ford longest paths (Viterbi), reachability (Bool).
  0 x inf = 0 throughout.
A naive fixed-point iteration x <- A x + b cross-checks this oracle on a sample (self-test recorded
in the evidence).  Finite entries are compared with rtol 1e-6 (in the semiring's own domain, atol
1e-9 for Log), infinite and zero entries exactly.

Case recipes (JSON), values always in the real domain ("inf" for infinity):
  {"fn":"sr_solve","sr":..,"dtype":..,"a":[[..]],"b":[..] | [[..]]}
  {"fn":"pt_solve","sr":..,"dtype":..,"type":tau,"a":tensor recipe,"b":tensor recipe}
  {"fn":"multi_solve"|"multi_mv","sr":..,"transpose":bool,"shapes":[[name,[dims]],..],
   "a":[[x,y,tensor recipe],..],"b":[[x,tensor recipe],..]}          (insertion order = list order)
An optional "family" entry names the generator family of a case (informational; ignored when the case is run).
Tensor recipes are those of vf.bounded.gen_pt with real-domain data/default (dtype float64).
Patterned operands are well-typed (see props/c07_bounded.py): rows and columns of a and the rows
of b conform to one index type.

Input families added after seeded round 3 (same runners, same oracle):
  growth<k> (pt_solve)  index types that are products of sums of units ("tuples of digits"); the factors of the axes of a
                        and b are constants (one-hot) or possibly shared physical axes; (a, b) pairs are stratified by the
                        number k of steps in which supp(b + a b + a^2 b + ...) keeps growing (computed on bit masks), so
                        the pattern fixpoint loop of PatternedTensor.solve runs 0, 1, 2, 3, ... rounds and the projection
                        of a and b onto the final pattern is non-trivial.
  order (multi_solve / multi_mv)  3-5 block indices, block graphs with several components / sinks / sources / indices
                        without any block, every row as the row of the last-inserted block (the root of the DFS of
                        _order_nonterminals), seeded order of the shapes dict, b present on every index.
"""
from __future__ import annotations
import hashlib, itertools, json, math, random, time, warnings
from fractions import Fraction
from typing import Any, Dict, List, Optional, Sequence, Tuple

import torch

from vf.core import Ctx, Report, Bounded, Failure
from vf.bounded import gen_pt as G
from props.c07_bounded import (canon, make_semiring, close, conforming_patterns, any_patterns, types_of_size,
                               ty_size, SEMIRINGS, _warm)

MODULE = "props.c09_bounded"
MAX_FAIL_PER_KEY = 3
INF = math.inf
VALS = [0.0, 0.25, 0.5, 1.0, 2.0, INF]


# ============================================================================= domains
def to_dom(sr, v):
    """real-domain value -> element of the semiring's carrier (python scalar)"""
    if sr == "Bool": return v > 0
    if sr == "Real": return float(v)
    if v == 0: return -INF
    if v == INF: return INF
    return math.log(v) if sr == "Log" else math.log2(v)


def zero_of(sr):
    return to_dom(sr, 0.0)


def dom_dtype(sr, dtype):
    return "bool" if sr == "Bool" else dtype


def dom_tensor(sr, dtype, rows):
    """nested list of real-domain values -> torch tensor in the semiring's domain"""
    def rec(x):
        return [rec(y) for y in x] if isinstance(x, list) else to_dom(sr, G.dec(x))
    return torch.tensor(rec(rows), dtype=G.DTYPES[dom_dtype(sr, dtype)])


def dom_recipe(sr, dtype, r):
    q = dict(r)
    q["dtype"] = dom_dtype(sr, dtype)
    q["data"] = [G.enc(to_dom(sr, G.dec(v))) if sr != "Bool" else bool(G.dec(v) > 0) for v in r["data"]]
    d = to_dom(sr, G.dec(r["default"]))
    q["default"] = bool(d) if sr == "Bool" else G.enc(d)
    return q


def real_dense(r) -> List[Any]:
    """nested list of the real-domain values a recipe denotes"""
    q = dict(r); q["dtype"] = "float64"
    return G.dense_oracle(q).tolist()


def tolerances(sr, dtype):
    if dtype == "float32":
        return (1e-3, 1e-4)
    # Real/float64: an entry whose exact value is 0 may come out of the LU shortcut as rounding noise (~1e-16)
    return (1e-6, 1e-9 if sr == "Log" else (1e-12 if sr == "Real" else 0.0))


# ============================================================================= exact oracle
def _closure(edge, n):
    reach = [[(i == j) or edge[i][j] for j in range(n)] for i in range(n)]
    for k in range(n):
        for i in range(n):
            if reach[i][k]:
                rk = reach[k]; ri = reach[i]
                for j in range(n):
                    if rk[j]: ri[j] = True
    return reach


def _det(M):
    M = [row[:] for row in M]
    n = len(M); d = Fraction(1)
    for c in range(n):
        p = next((r for r in range(c, n) if M[r][c] != 0), None)
        if p is None: return Fraction(0)
        if p != c:
            M[c], M[p] = M[p], M[c]; d = -d
        d *= M[c][c]
        for r in range(c + 1, n):
            f = M[r][c] / M[c][c]
            if f:
                for k in range(c, n): M[r][k] -= f * M[c][k]
    return d


def _rho_ge_1(Bm) -> bool:
    """nonnegative rational matrix: spectral radius >= 1 (exact)"""
    m = len(Bm)
    Z = [[(Fraction(1) if i == j else Fraction(0)) - Bm[i][j] for j in range(m)] for i in range(m)]
    for k in range(1, m + 1):
        if _det([row[:k] for row in Z[:k]]) <= 0:
            return True
    return False


def rho_class(Bm) -> str:
    """nonnegative rational matrix: spectral radius '<1', '=1' or '>1' (exact: I - B is a nonsingular M-matrix iff all
       leading principal minors are > 0, a possibly singular M-matrix iff all principal minors are >= 0)"""
    if not _rho_ge_1(Bm): return "<1"
    m = len(Bm)
    Z = [[(Fraction(1) if i == j else Fraction(0)) - Bm[i][j] for j in range(m)] for i in range(m)]
    for k in range(1, m + 1):
        for idx in itertools.combinations(range(m), k):
            if _det([[Z[i][j] for j in idx] for i in idx]) < 0:
                return ">1"
    return "=1"


def _solve_frac(M, rhs):
    n = len(rhs)
    M = [row[:] + [rhs[i]] for i, row in enumerate(M)]
    for c in range(n):
        p = next(r for r in range(c, n) if M[r][c] != 0)
        M[c], M[p] = M[p], M[c]
        pv = M[c][c]
        M[c] = [v / pv for v in M[c]]
        for r in range(n):
            if r != c and M[r][c] != 0:
                f = M[r][c]
                M[r] = [a - f * b for a, b in zip(M[r], M[c])]
    return [M[i][n] for i in range(n)]


def lfp_column(sr, A, b) -> List[Any]:
    """least solution of x = A x + b; A (n x n) and b (n) hold real-domain values; the result
       holds real-domain values too (Viterbi: returned in the log2 domain)."""
    n = len(b)
    if n == 0: return []
    trop = sr == "Viterbi"
    if trop:
        A = [[to_dom("Viterbi", v) for v in row] for row in A]
        b = [to_dom("Viterbi", v) for v in b]
        zero = -INF
    else:
        zero = 0.0
    edge = [[A[i][j] != zero for j in range(n)] for i in range(n)]
    reach = _closure(edge, n)
    if sr == "Bool":
        return [1.0 if any(reach[i][t] and b[t] != 0 for t in range(n)) else 0.0 for i in range(n)]
    live = [any(reach[i][t] and b[t] != zero for t in range(n)) for i in range(n)]
    comp = [min(j for j in range(n) if reach[i][j] and reach[j][i]) for i in range(n)]
    hot: Dict[int, bool] = {}
    for c in set(comp):
        C = [i for i in range(n) if comp[i] == c]
        if len(C) == 1 and not edge[C[0]][C[0]]:
            hot[c] = False; continue
        if any(A[i][j] == INF for i in C for j in C):
            hot[c] = True; continue
        if trop:
            W = [[A[i][j] for j in C] for i in C]
            P = [row[:] for row in W]
            h = any(P[k][k] > 0 for k in range(len(C)))
            for _ in range(len(C) - 1):
                P = [[max((P[i][k] + W[k][j]) if (P[i][k] != -INF and W[k][j] != -INF) else -INF for k in range(len(C)))
                      for j in range(len(C))] for i in range(len(C))]
                h = h or any(P[k][k] > 0 for k in range(len(C)))
            hot[c] = h
        else:
            hot[c] = _rho_ge_1([[Fraction(A[i][j]) for j in C] for i in C])
    src = [(b[j] == INF) or any(A[j][k] == INF and live[k] for k in range(n)) or (hot[comp[j]] and live[j])
           for j in range(n)]
    isinf = [any(reach[i][j] and src[j] for j in range(n)) for i in range(n)]
    idx = [i for i in range(n) if live[i] and not isinf[i]]
    x: List[Any] = [INF if isinf[i] else zero for i in range(n)]
    if not idx: return x
    if trop:
        cur = {i: b[i] for i in idx}
        for _ in range(len(idx) + 1):
            nxt = {}
            for i in idx:
                v = b[i]
                for j in idx:
                    if A[i][j] != -INF and cur[j] != -INF:
                        v = max(v, A[i][j] + cur[j])
                nxt[i] = v
            cur = nxt
        for i in idx: x[i] = cur[i]
    else:
        M = [[(Fraction(1) if i == j else Fraction(0)) - Fraction(A[i][j]) for j in idx] for i in idx]
        sol = _solve_frac(M, [Fraction(b[i]) for i in idx])
        for i, v in zip(idx, sol): x[i] = float(v)
    return x


def lfp(sr, A, B) -> List[List[Any]]:
    """B: n x m nested list; returns n x m in the semiring's own domain (python scalars)"""
    n = len(A)
    m = len(B[0]) if n else 0
    cols = [lfp_column(sr, A, [B[i][c] for i in range(n)]) for c in range(m)]
    out = []
    for i in range(n):
        row = []
        for c in range(m):
            v = cols[c][i]
            row.append(v if sr == "Viterbi" else to_dom(sr, v))
        out.append(row)
    return out


def matvec(sr, A, b) -> List[Any]:
    """semiring matrix-vector product on real-domain values -> semiring domain"""
    out = []
    for row in A:
        if sr == "Bool":
            out.append(any((a > 0) and (x > 0) for a, x in zip(row, b)))
        elif sr == "Viterbi":
            best = -INF
            for a, x in zip(row, b):
                if a != 0 and x != 0:
                    best = max(best, to_dom(sr, a) + to_dom(sr, x))
            out.append(best)
        else:
            terms = [a * x for a, x in zip(row, b) if a != 0 and x != 0]
            out.append(to_dom(sr, INF if INF in terms else math.fsum(terms)))
    return out


def naive_iteration(sr, A, b, steps=400):
    """x <- A x + b from zero, real domain (Viterbi: log2 domain); used only to cross-check lfp_column"""
    n = len(b)
    if sr == "Viterbi":
        A = [[to_dom(sr, v) for v in r] for r in A]; b = [to_dom(sr, v) for v in b]
        x = [-INF] * n
        for _ in range(steps):
            x = [max([b[i]] + [A[i][j] + x[j] for j in range(n) if A[i][j] != -INF and x[j] != -INF]) for i in range(n)]
        return x
    x = [0.0] * n
    for _ in range(steps):
        y = []
        for i in range(n):
            v = b[i]
            for j in range(n):
                if A[i][j] != 0 and x[j] != 0:
                    v = v + A[i][j] * x[j]
            y.append(v)
        x = y
    return x


def oracle_selftest(rng: random.Random, k=300) -> Dict[str, int]:
    bad = n_checked = 0
    for _ in range(k):
        n = rng.choice((1, 2, 3, 4))
        A = [[rng.choice([0, 0, 0.25, 0.5, 1.0, 2.0, INF] if rng.random() < 0.5 else [0, 0.25, 0.25, 0.5]) for _ in range(n)] for _ in range(n)]
        b = [rng.choice([0, 0, 0.5, 1.0, INF]) for _ in range(n)]
        for sr in ("Real", "Viterbi"):
            want = lfp_column(sr, A, b)
            it = naive_iteration(sr, A, b)
            it2 = naive_iteration(sr, A, b, steps=800)
            for w, g, g2 in zip(want, it, it2):
                n_checked += 1
                if w == INF:
                    ok = (g2 == INF) or (g2 > g) or g2 > 1e12
                elif w in (0.0, -INF) and sr == "Real" or (w == -INF):
                    ok = g2 == w
                else:
                    ok = abs(g2 - w) <= 1e-6 * max(1.0, abs(w)) or (g2 <= w and g2 > g)   # slow convergence from below
                if not ok: bad += 1
    return {"entries": n_checked, "disagreements": bad}


# ============================================================================= comparing
def flat(x):
    if isinstance(x, list):
        out = []
        for y in x: out += flat(y)
        return out
    return [x]


def fmt(xs) -> str:
    xs = flat(xs)
    return "[" + ", ".join(("%.6g" % x) if isinstance(x, float) else str(x) for x in xs[:12]) + (", ..." if len(xs) > 12 else "") + "]"


def compare(sr, dtype, got: List[Any], want: List[Any]) -> Optional[Tuple[str, str]]:
    rtol, atol = tolerances(sr, dtype)
    if len(got) != len(want):
        return ("shape", f"observed {len(got)} entries; expected {len(want)}")
    z = zero_of(sr)
    for i, (g, w) in enumerate(zip(got, want)):
        if not close(g, w, rtol, atol):
            if sr == "Bool": kind = "bool"
            elif g != g: kind = "nan"
            elif w == INF: kind = "finite-for-inf"
            elif g == INF: kind = "inf-for-finite"
            elif w == z: kind = "nonzero-for-zero"
            elif g == z: kind = "zero-for-nonzero"
            else: kind = "finite"
            return ("value-" + kind, f"observed {fmt(got)}; expected {fmt(want)} (first differing entry {i}: {g!r} vs {w!r})")
    return None


# ============================================================================= snapshots (arguments unmodified)
def snap_tensor(t: torch.Tensor):
    return (t.detach().clone(), t._version, t.data_ptr(), tuple(t.size()), tuple(t.stride()))


def tensor_unchanged(t, s) -> Optional[str]:
    if not G.same(t.detach(), s[0]): return "values changed"
    if t._version != s[1]: return f"storage version {s[1]} -> {t._version} (written in place)"
    if t.data_ptr() != s[2] or tuple(t.size()) != s[3] or tuple(t.stride()) != s[4]: return "storage/view changed"
    return None


def snap_pt(t):
    return (snap_tensor(t.physical), t.physical, tuple(t.paxes), tuple(t.vaxes), t.default, t.to_dense().clone())


def pt_unchanged(t, s) -> Optional[str]:
    if t.physical is not s[1]: return "physical tensor object replaced"
    r = tensor_unchanged(t.physical, s[0])
    if r: return "physical: " + r
    if len(t.paxes) != len(s[2]) or any(a is not b for a, b in zip(t.paxes, s[2])): return "paxes changed"
    if len(t.vaxes) != len(s[3]) or any(a is not b and a != b for a, b in zip(t.vaxes, s[3])): return "vaxes changed"
    if not (t.default == s[4] or (t.default != t.default and s[4] != s[4])): return "default changed"
    if not G.same(t.to_dense(), s[5]): return "dense value changed"
    return None


def snap_multi(m):
    return (list(m.keys()), {k: (m._dict[k], snap_pt(m._dict[k])) for k in m.keys()}, m.shapes)


def multi_unchanged(m, s) -> Optional[str]:
    if list(m.keys()) != s[0]: return f"keys {s[0]} -> {list(m.keys())}"
    if m.shapes is not s[2] and m.shapes != s[2]: return "shapes changed"
    for k in s[0]:
        if m._dict[k] is not s[1][k][0]: return f"block {k} replaced"
        r = pt_unchanged(m._dict[k], s[1][k][1])
        if r: return f"block {k}: {r}"
    return None


# ============================================================================= running one case
class CaseTimeout(Exception):
    pass


CASE_TIMEOUT_S = 6.0


def _on_alarm(signum, frame):
    raise CaseTimeout(f"no result after {CASE_TIMEOUT_S:.0f} s (normal cases take milliseconds): does not terminate")


def _call(f):
    import signal
    with warnings.catch_warnings(record=True) as wl:
        warnings.simplefilter("always")
        old = signal.signal(signal.SIGALRM, _on_alarm)
        signal.setitimer(signal.ITIMER_REAL, CASE_TIMEOUT_S)
        try:
            res = f()
            exc = None
        except Exception as e:
            res, exc = None, e
        finally:
            signal.setitimer(signal.ITIMER_REAL, 0)
            signal.signal(signal.SIGALRM, old)
    mism = any("index type mismatch" in str(w.message) for w in wl)
    return res, exc, mism


def run_case(case) -> List[Tuple[str, str, str]]:
    fn = case["fn"]
    if fn == "sr_solve": return run_sr_solve(case)
    if fn == "pt_solve": return run_pt_solve(case)
    if fn in ("multi_solve", "multi_mv"): return run_multi(case)
    raise ValueError(fn)


def where_raised(exc) -> str:
    """innermost frame of the traceback that lies in fggs: 'file.py:function' (line number only in the detail)"""
    import traceback
    frames = [f for f in traceback.extract_tb(exc.__traceback__) if "/fggs/" in f.filename]
    if not frames: return "?", ""
    if isinstance(exc, CaseTimeout):
        # the interrupted frame is arbitrary: name the (at most two) outermost library frames instead
        chain = []
        for f in frames:
            if f.name in ("multi_solve", "multi_mv", "solve", "mv", "mm", "einsum", "solve_thunks") and f.name not in chain:
                chain.append(f.name)
        return ">".join(chain), " > ".join(f"{f.name}:{f.lineno}" for f in frames[:6])
    f = frames[-1]
    return f"{f.filename.split('/')[-1]}:{f.name}", f"{f.filename}:{f.lineno} `{(f.line or '').strip()[:80]}`"


def _raise_row(exc, want):
    msg = str(exc).splitlines()[0][:160] if str(exc) else ""
    fn, loc = where_raised(exc)
    return [("returns", f"raises-{type(exc).__name__}@{fn}",
             f"observed {type(exc).__name__}: {msg} at {loc}; expected {fmt(want)}")]


def run_sr_solve(case):
    sr, dtype = case["sr"], case["dtype"]
    S = make_semiring(sr, dtype)
    A = [[G.dec(v) for v in row] for row in case["a"]]
    braw = case["b"]
    vec = not (braw and isinstance(braw[0], list))
    B = [[G.dec(v)] for v in braw] if vec else [[G.dec(v) for v in row] for row in braw]
    a = dom_tensor(sr, dtype, case["a"])
    b = dom_tensor(sr, dtype, case["b"])
    sa, sb = snap_tensor(a), snap_tensor(b)
    want = flat(lfp(sr, A, B))
    res, exc, _ = _call(lambda: S.solve(a, b))
    if exc is not None: return _raise_row(exc, want)
    out = []
    for nm, t, s in (("a", a, sa), ("b", b, sb)):
        r = tensor_unchanged(t, s)
        if r: out.append(("frame", "argument-modified", f"argument {nm}: {r}"))
    if tuple(res.size()) != tuple(b.size()):
        return out + [("shape", "shape", f"observed shape {list(res.size())}; expected {list(b.size())}")]
    if res.dtype != a.dtype:
        out.append(("dtype", "dtype", f"observed {res.dtype}; expected {a.dtype}"))
    c = compare(sr, dtype, res.reshape(-1).tolist(), want)
    if c: out.append(("least_solution", c[0], c[1]))
    return out


def run_pt_solve(case):
    sr, dtype = case["sr"], case["dtype"]
    S = make_semiring(sr, dtype)
    A = real_dense(case["a"])
    Bd = G.dense_oracle(dict(case["b"], dtype="float64"))
    n = Bd.size(0)
    bshape = tuple(Bd.size())
    B = Bd.reshape(n, -1).tolist() if n else []
    want = flat(lfp(sr, A, B)) if n else []
    try:
        a = G.build_pt(dom_recipe(sr, dtype, case["a"]))
        b = G.build_pt(dom_recipe(sr, dtype, case["b"]))
    except Exception as e:
        return [("harness", "harness-build", f"{type(e).__name__}: {e}")]
    sa, sb = snap_pt(a), snap_pt(b)
    res, exc, mism = _call(lambda: a.solve(b, S).to_dense())
    if mism: return [("scope", "out-of-scope-type-mismatch", "")]
    if exc is not None: return _raise_row(exc, want)
    out = []
    for nm, t, s in (("a", a, sa), ("b", b, sb)):
        r = pt_unchanged(t, s)
        if r: out.append(("frame", "argument-modified", f"argument {nm}: {r}"))
    if tuple(res.size()) != bshape:
        return out + [("shape", "shape", f"observed shape {list(res.size())}; expected {list(bshape)}")]
    c = compare(sr, dtype, res.reshape(-1).tolist(), want)
    if c: out.append(("least_solution", c[0], c[1]))
    return out


def build_multi(case):
    from fggs.multi import MultiTensor
    sr, dtype = case["sr"], case.get("dtype", "float64")
    S = make_semiring(sr, dtype)
    shapes = {nm: torch.Size(sh) for nm, sh in case["shapes"]}
    a = MultiTensor((shapes, shapes), S)
    for x, y, r in case["a"]:
        a[x, y] = G.build_pt(dom_recipe(sr, dtype, r))
    b = MultiTensor(shapes, S)
    for x, r in case["b"]:
        b[x] = G.build_pt(dom_recipe(sr, dtype, r))
    return S, shapes, a, b


def assemble(case):
    """dense real-domain block matrix and vector, and the offsets of the blocks"""
    names = [nm for nm, _ in case["shapes"]]
    numel = {nm: int(torch.Size(sh).numel()) for nm, sh in case["shapes"]}
    off, o = {}, 0
    for nm in names:
        off[nm] = o; o += numel[nm]
    N = o
    A = [[0.0] * N for _ in range(N)]
    for x, y, r in case["a"]:
        d = G.dense_oracle(dict(r, dtype="float64")).reshape(numel[x], numel[y]).tolist()
        for i in range(numel[x]):
            for j in range(numel[y]):
                A[off[x] + i][off[y] + j] = d[i][j]
    b = [0.0] * N
    for x, r in case["b"]:
        d = G.dense_oracle(dict(r, dtype="float64")).reshape(-1).tolist()
        for i in range(numel[x]): b[off[x] + i] = d[i]
    return names, numel, off, A, b


def run_multi(case):
    from fggs.multi import multi_solve, multi_mv
    sr, dtype = case["sr"], case.get("dtype", "float64")
    tr = bool(case["transpose"])
    names, numel, off, A, bvec = assemble(case)
    At = [list(r) for r in zip(*A)] if (tr and A) else A
    if case["fn"] == "multi_solve":
        want_all = flat(lfp(sr, At, [[v] for v in bvec])) if bvec else []
    else:
        want_all = matvec(sr, At, bvec)
    try:
        S, shapes, a, b = build_multi(case)
    except Exception as e:
        return [("harness", "harness-build", f"{type(e).__name__}: {e}")]
    sa, sb = snap_multi(a), snap_multi(b)
    f = multi_solve if case["fn"] == "multi_solve" else multi_mv
    def go():
        res = f(a, b, transpose=tr)
        return res, {nm: res[nm].to_dense() for nm in names}
    r, exc, mism = _call(go)
    if mism: return [("scope", "out-of-scope-type-mismatch", "")]
    if exc is not None: return _raise_row(exc, want_all)
    res, dense = r
    out = []
    for nm, m, s in (("a", a, sa), ("b", b, sb)):
        u = multi_unchanged(m, s)
        if u: out.append(("frame", "argument-modified", f"argument {nm}: {u}"))
    extra = [k for k in res.keys() if k not in shapes]
    if extra:
        out.append(("keys", "result-keys", f"result has keys {extra} outside the shapes"))
    got_all = []
    for nm in names:
        d = dense[nm]
        if tuple(d.size()) != tuple(shapes[nm]):
            return out + [("shape", "shape", f"block {nm}: observed shape {list(d.size())}; expected {list(shapes[nm])}")]
        got_all += d.reshape(-1).tolist()
    c = compare(sr, dtype, got_all, want_all)
    if c:
        out.append(("least_solution" if case["fn"] == "multi_solve" else "product", c[0], c[1]))
    return out


# ============================================================================= generators
def jv(v):
    return G.enc(v)


REGIMES = {
    "sub":   [0.0, 0.0, 0.25, 0.25, 0.5],          # mostly spectral radius < 1
    "unit":  [0.0, 0.0, 1.0],                      # 0/1 matrices: permutations, identities (radius 1) or nilpotent
    "half":  [0.0, 0.5, 0.5],                      # row sums around 1
    "super": [0.0, 1.0, 2.0, 0.5],
    "quarter": [0.0, 0.25, 0.25, 0.5, 0.5],       # rows often sum to exactly 1 with inexact pivots
    "inf":   [0.0, 0.0, 0.5, 1.0, INF],
    "all":   VALS,
}
B_VALS = [0.0, 1.0, 0.5, INF]


def gen_sr_cases(ctx: Ctx):
    """Semiring.solve: n=1 and n=2 exhaustive over VALS (b over B_VALS), n=3 by regimes (sampled)"""
    th = ctx.thorough
    rng = ctx.rng("sr")
    for sr in SEMIRINGS:
        vals = [0.0, 1.0] if sr == "Bool" else VALS
        bvals = [0.0, 1.0] if sr == "Bool" else B_VALS
        dts = ["float64"] if sr in ("Bool", "Viterbi") else ["float64", "float32"]
        for dt in dts:
            # n = 1
            for a in vals:
                for b in bvals:
                    yield {"fn": "sr_solve", "sr": sr, "dtype": dt, "a": [[jv(a)]], "b": [jv(b)]}
                    yield {"fn": "sr_solve", "sr": sr, "dtype": dt, "a": [[jv(a)]], "b": [[jv(b), jv(bvals[-1 - bvals.index(b)])]]}
            # n = 2
            mats = list(itertools.product(vals, repeat=4))
            bs = list(itertools.product(bvals, repeat=2))
            if dt == "float32" or (not th and sr != "Bool"):
                # quick: every matrix with 2 seeded right-hand sides (vector and n x 2 matrix alternate)
                for i, m in enumerate(mats):
                    if dt == "float32" and i % 5: continue
                    for k in range(2):
                        bb = rng.choice(bs)
                        if (i + k) % 2:
                            b2 = rng.choice(bs)
                            b = [[jv(bb[0]), jv(b2[0])], [jv(bb[1]), jv(b2[1])]]
                        else:
                            b = [jv(bb[0]), jv(bb[1])]
                        yield {"fn": "sr_solve", "sr": sr, "dtype": dt, "a": [[jv(m[0]), jv(m[1])], [jv(m[2]), jv(m[3])]], "b": b}
            else:
                for m in mats:
                    for bb in bs:
                        yield {"fn": "sr_solve", "sr": sr, "dtype": dt, "a": [[jv(m[0]), jv(m[1])], [jv(m[2]), jv(m[3])]],
                               "b": [jv(bb[0]), jv(bb[1])]}
                    b2 = rng.choice(bs); bb = rng.choice(bs)
                    yield {"fn": "sr_solve", "sr": sr, "dtype": dt, "a": [[jv(m[0]), jv(m[1])], [jv(m[2]), jv(m[3])]],
                           "b": [[jv(bb[0]), jv(b2[0])], [jv(bb[1]), jv(b2[1])]]}
            # n = 3
            if dt == "float32": continue
            if sr == "Bool":
                for bits in range(512):
                    m = [[float(bits >> (3 * i + j) & 1) for j in range(3)] for i in range(3)]
                    for bb in (itertools.product(bvals, repeat=3) if th else [tuple(rng.choice(bvals) for _ in range(3))]):
                        yield {"fn": "sr_solve", "sr": sr, "dtype": dt, "a": m, "b": [jv(v) for v in bb]}
                continue
            perms = list(itertools.permutations(range(3)))
            for p in perms:                                   # permutation matrices scaled: radius <1, =1, >1
                for s in (0.5, 1.0, 2.0):
                    m = [[jv(s if p[i] == j else 0.0) for j in range(3)] for i in range(3)]
                    for bb in ([1.0, 0.0, 0.0], [0.0, 0.5, INF], [0.0, 0.0, 0.0], [1.0, 1.0, 1.0]):
                        yield {"fn": "sr_solve", "sr": sr, "dtype": dt, "a": m, "b": [jv(v) for v in bb]}
            # row-stochastic dyadic matrices: spectral radius exactly 1 (all 729 in thorough, every 6th in quick)
            srows = [r for r in itertools.product([0.0, 0.25, 0.5, 1.0], repeat=3) if sum(r) == 1.0]
            for k, m in enumerate(itertools.product(srows, repeat=3)):
                if not th and k % 6: continue
                bb = [[1.0, 1.0, 1.0], [1.0, 0.0, 0.0], [0.0, 0.0, 0.5]][k % 3]
                yield {"fn": "sr_solve", "sr": sr, "dtype": dt, "a": [[jv(v) for v in r] for r in m], "b": [jv(v) for v in bb]}
            nrand = 6000 if th else 700
            for k in range(nrand):
                reg = list(REGIMES)[k % len(REGIMES)]
                pool = REGIMES[reg]
                m = [[rng.choice(pool) for _ in range(3)] for _ in range(3)]
                if k % 7 == 0:                                # strictly upper triangular: nilpotent
                    m = [[(m[i][j] if j > i else 0.0) for j in range(3)] for i in range(3)]
                if k % 2:
                    b = [[jv(rng.choice(bvals)) for _ in range(2)] for _ in range(3)]
                else:
                    b = [jv(rng.choice(bvals)) for _ in range(3)]
                yield {"fn": "sr_solve", "sr": sr, "dtype": dt, "a": [[jv(v) for v in r] for r in m], "b": b}


def real_recipe(pat, rng, pool_vals, default):
    r = {"pool": list(pat["pool"]), "vaxes": json.loads(json.dumps(pat["vaxes"])),
         "storage": pat.get("storage", "contig"), "dtype": "float64", "default": jv(default)}
    if r["storage"] == "expanded" and not r["pool"]:
        r["storage"] = "contig"
    r["data"] = [jv(rng.choice(pool_vals)) for _ in range(G.data_len(r))]
    return r


def solve_types(n: int) -> List[Any]:
    ts = list(types_of_size(n)) if n <= 3 else []
    if n == 4:
        ts = [["n", 4], ["*", [["n", 2], ["n", 2]]], ["+", [["n", 2], ["n", 2]]], ["+", [["n", 1], ["n", 3]]],
              ["+", [["n", 3], ["n", 1]]], ["+", [["n", 1], ["n", 2], ["n", 1]]], ["+", [["n", 4]]]]
    return ts


def gen_pt_cases(ctx: Ctx):
    th = ctx.thorough
    tier = ctx.tier
    rng = ctx.rng("pt")
    reps = 6 if th else 2
    for tau, ap, bp in HAND_MADE:
        for sr in SEMIRINGS:
            for reg in (list(REGIMES) if th else ["sub"]):
                vals = [0.0, 1.0] if sr == "Bool" else REGIMES[reg]
                bvals = [0.0, 1.0] if sr == "Bool" else B_VALS
                yield {"fn": "pt_solve", "sr": sr, "dtype": "float64", "type": tau,
                       "a": real_recipe(ap, rng, vals, 0.0), "b": real_recipe(bp, rng, bvals, 0.0)}
    for n in (1, 2, 3, 4):
        for tau in solve_types(n):
            apats = conforming_patterns([tau, tau], tier)
            bshapes = [[tau], [tau, ["n", 2]], [tau, ["n", 1]], [tau, ["n", 1], ["n", 2]]]
            for sr in SEMIRINGS:
                for bt in bshapes:
                    bpats = conforming_patterns(bt, tier)
                    if not apats or not bpats: continue
                    na = len(apats) if (th or n <= 3) else min(len(apats), 40)
                    for ai in range(na):
                        ap = apats[ai] if na == len(apats) else rng.choice(apats)
                        for rep in range(reps if len(bt) <= 2 else 1):
                            reg = rng.choice(list(REGIMES))
                            vals = [0.0, 1.0] if sr == "Bool" else REGIMES[reg]
                            bvals = [0.0, 1.0] if sr == "Bool" else B_VALS
                            u = rng.random()
                            if u < 0.75:
                                da, db, bp = 0.0, 0.0, rng.choice(bpats)
                            elif u < 0.9:
                                da, db, bp = rng.choice(vals), rng.choice(bvals), rng.choice(bpats)
                            else:                              # non-zero defaults: any pattern is well-typed
                                da, db = rng.choice([1.0, 0.5]), rng.choice([1.0, 0.5])
                                ap2 = rng.choice(any_patterns((n, n), tier))
                                bp = rng.choice(any_patterns(tuple(ty_size(t) for t in bt), tier))
                                yield {"fn": "pt_solve", "sr": sr, "dtype": "float64", "type": tau,
                                       "a": real_recipe(ap2, rng, vals, da), "b": real_recipe(bp, rng, bvals, db)}
                                continue
                            yield {"fn": "pt_solve", "sr": sr, "dtype": "float64", "type": tau,
                                   "a": real_recipe(ap, rng, vals, da), "b": real_recipe(bp, rng, bvals, db)}


U_ = ["*", []]
S1_ = ["+", 0, U_, 0]                       # SumAxis(0, unitAxis, 0): the one-summand sum of size 1
# (type, pattern of a, pattern of b): row axes that are products with a size-1 sum factor, exactly what
# PatternedTensor.flatten()/reshape produce from a (1,2)-shaped block whose first axis is SumAxis(0,unit,0)
HAND_MADE = [
    (["*", [["+", [["n", 1]]], ["n", 2]]],
     {"pool": [2], "vaxes": [["P", 0], ["P", 0]], "storage": "contig"},
     {"pool": [2], "vaxes": [["*", [S1_, ["P", 0]]]], "storage": "contig"}),
    (["*", [["+", [["n", 1]]], ["n", 2]]],
     {"pool": [2, 2], "vaxes": [["P", 0], ["P", 1]], "storage": "contig"},
     {"pool": [2], "vaxes": [["*", [S1_, ["P", 0]]]], "storage": "contig"}),
    (["*", [["+", [["n", 1]]], ["n", 2]]],
     {"pool": [2], "vaxes": [["*", [S1_, ["P", 0]]], ["*", [S1_, ["P", 0]]]], "storage": "contig"},
     {"pool": [2], "vaxes": [["*", [S1_, ["P", 0]]]], "storage": "contig"}),
    (["*", [["n", 2], ["+", [["n", 1]]]]],
     {"pool": [2], "vaxes": [["P", 0], ["P", 0]], "storage": "contig"},
     {"pool": [2, 2], "vaxes": [["*", [["P", 0], S1_]], ["P", 1]], "storage": "contig"}),
]


BLOCK_SHAPES = [[], [2], [1, 2], [2, 2]]
NAMES = ["X", "Y", "Z"]


def dim_types(shape, rng):
    ts = []
    for d in shape:
        c = types_of_size(d)
        ts.append(c[0] if rng.random() < 0.5 else rng.choice(c))
    return ts


def gen_multi_cases(ctx: Ctx):
    th = ctx.thorough
    tier = ctx.tier
    rng = ctx.rng("multi")
    for nidx in ((1, 2, 3) if th else (1, 2)):
        names = NAMES[:nidx]
        pairs = [(x, y) for x in names for y in names]
        structures = list(range(1 << len(pairs)))
        sampled = False
        for fn in ("multi_solve", "multi_mv"):
            for st in structures:
                present = [p for k, p in enumerate(pairs) if st >> k & 1]
                bsubs = list(range(1 << nidx))
                if nidx == 3:
                    bsubs = [7, rng.randrange(1, 8), rng.randrange(0, 8)] if fn == "multi_solve" else [rng.randrange(1, 8)]
                    sampled = True
                for bs in bsubs:
                    bpresent = [nm for k, nm in enumerate(names) if bs >> k & 1]
                    for sr in SEMIRINGS:
                        for tr in (False, True):
                            nrep = (3 if nidx == 3 else 6) if th else (3 if fn == "multi_solve" else 1)
                            for rep in range(nrep):
                                shapes = [[nm, rng.choice(BLOCK_SHAPES)] for nm in names]
                                types = {nm: dim_types(sh, rng) for nm, sh in shapes}
                                reg = rng.choice(list(REGIMES))
                                vals = [0.0, 1.0] if sr == "Bool" else REGIMES[reg]
                                bvals = [0.0, 1.0] if sr == "Bool" else B_VALS
                                order = list(present)
                                if rep % 2: rng.shuffle(order)
                                a = []
                                for x, y in order:
                                    pats = conforming_patterns(types[x] + types[y], tier)
                                    a.append([x, y, real_recipe(rng.choice(pats), rng, vals, 0.0)])
                                b = []
                                for x in (bpresent if rep % 2 == 0 else bpresent[::-1]):
                                    pats = conforming_patterns(types[x], tier)
                                    b.append([x, real_recipe(rng.choice(pats), rng, bvals, 0.0)])
                                yield {"fn": fn, "sr": sr, "dtype": "float64", "transpose": tr, "shapes": shapes,
                                       "a": a, "b": b}


# ============================================================================= family: solution patterns that grow in steps
# PatternedTensor.solve computes the sparsity pattern of the solution by iterating e := lgg(e, a*e) from the pattern of b
# until nothing changes.  The patterns of vf.bounded.gen_pt for an (n,n) matrix with n <= 4 are closed after at most one
# step, so the iteration itself (its stopping test, the projection of a and b onto the final pattern) was not exercised.
# This family enumerates *relational* patterns over index types that are products of small sums ("tuples of digits"):
# every factor ("slot") of the row axis and of the column axis of a, and of the row axis of b, is either a constant
# (one-hot SumAxis(i, unit, d-1-i)) or a variable (a physical axis), and variables may be shared between slots of equal
# size (within one axis: diagonal; between the row and the column axis: "copy"/"shift"/"swap" relations).  For each
# (a, b) pair the number of steps in which the support of b + a b + a^2 b + ... keeps growing is computed on plain
# bit masks (independent of fggs) and the selection prefers pairs that grow for two or more steps.
def digits_type(dims):
    return ["*", [["+", [["n", 1] for _ in range(d)]] for d in dims]]


def slot_labellings(sizes: Sequence[int]) -> List[List[Tuple[str, int]]]:
    """every labelling of the slots by a constant ('c', i) (i < size of the slot) or a variable ('v', j); variables are
       numbered in order of first occurrence and shared only between slots of equal size"""
    out: List[List[Tuple[str, int]]] = []
    def rec(k, acc, vsizes):
        if k == len(sizes):
            out.append(acc); return
        d = sizes[k]
        for i in range(d):
            rec(k + 1, acc + [("c", i)], vsizes)
        for j, s in enumerate(vsizes):
            if s == d: rec(k + 1, acc + [("v", j)], vsizes)
        rec(k + 1, acc + [("v", len(vsizes))], vsizes + [d])
    rec(0, [], [])
    return out


def _slot_axis(lab, d):
    return ["+", lab[1], U_, d - 1 - lab[1]] if lab[0] == "c" else ["P", lab[1]]


def labelling_pool(sizes, labs) -> List[int]:
    pool: List[int] = []
    for d, (k, j) in zip(sizes, labs):
        if k == "v" and j == len(pool): pool.append(d)
    return pool


def relational_pattern(dims, labs, nrow_axes: int, extra: Sequence[int] = ()) -> Dict[str, Any]:
    """pattern with `nrow_axes` virtual axes that are products of len(dims) slots each (labelled by `labs`, in order),
       followed by one dense axis per entry of `extra`"""
    k = len(dims)
    sizes = list(dims) * nrow_axes
    pool = labelling_pool(sizes, labs)
    vaxes = [["*", [_slot_axis(labs[r * k + i], dims[i]) for i in range(k)]] for r in range(nrow_axes)]
    for n in extra:
        if n == 1: vaxes.append(U_)
        else:
            vaxes.append(["P", len(pool)]); pool.append(n)
    return {"pool": pool, "vaxes": vaxes, "storage": "contig"}


def _slot_index_sets(dims, labs, nrow_axes):
    """for every assignment of the variables: the tuple of virtual indices of the nrow_axes product axes"""
    k = len(dims)
    sizes = list(dims) * nrow_axes
    pool = labelling_pool(sizes, labs)
    out = []
    for p in itertools.product(*[range(n) for n in pool]):
        idx = []
        for r in range(nrow_axes):
            v = 0
            for i in range(k):
                kind, j = labs[r * k + i]
                v = v * dims[i] + (j if kind == "c" else p[j])
            idx.append(v)
        out.append(tuple(idx))
    return out


def growth_steps(arows: Sequence[int], bmask: int) -> int:
    """number of steps in which supp(b + a b + ... + a^m b) strictly grows; arows[i] = bit mask of the columns backed in
       row i of a, bmask = bit mask of the rows backed in b (x_i is fed by x_j iff a_ij is backed)"""
    s, steps = bmask, 0
    while True:
        t = s
        for i, r in enumerate(arows):
            if r & s: t |= 1 << i
        if t == s: return steps
        s = t; steps += 1


def a_row_masks(dims, labs) -> List[int]:
    n = 1
    for d in dims: n *= d
    rows = [0] * n
    for i, j in _slot_index_sets(dims, labs, 2):
        rows[i] |= 1 << j
    return rows


def b_row_mask(dims, labs) -> int:
    m = 0
    for (i,) in _slot_index_sets(dims, labs, 1):
        m |= 1 << i
    return m


GROWTH_A_POOLS = [[0.25], [0.25, 0.25, 0.5], [0.5, 1.0], [1.0], [0.0, 0.25, 0.5], [0.25, 0.5, INF], [2.0, 0.5], [0.25, 0.5, 1.0, 2.0]]
GROWTH_B_POOLS = [[1.0], [1.0, 0.5], [0.0, 1.0, 0.5], [INF, 1.0], [0.5]]
# (dims, number of a-labellings sampled (None: all), pairs kept that grow >= 2 steps (None: all), pairs kept that do not)
GROWTH_PLAN = {
    "quick":    [((2, 2), None, None, 60), ((2, 2, 2), 500, 260, 30)],
    "thorough": [((2, 2), None, None, 400), ((2, 2, 2), None, 2400, 200), ((3, 2), 1500, 500, 50), ((2, 3), 1500, 500, 50),
                 ((2, 2, 2, 2), 3000, 150, 10)],
}


def growth_pairs(dims, n_a, n_grow, n_flat, rng):
    """selected (a-labelling, b-labelling, steps), stratified by the number of growth steps"""
    alabs = slot_labellings(list(dims) * 2)
    blabs = slot_labellings(list(dims))
    if n_a is not None and n_a < len(alabs):
        alabs = rng.sample(alabs, n_a)
    bm = [(bl, b_row_mask(dims, bl)) for bl in blabs]
    by_steps: Dict[int, List[Any]] = {}
    for al in alabs:
        rows = a_row_masks(dims, al)
        for bl, m in bm:
            by_steps.setdefault(growth_steps(rows, m), []).append((al, bl))
    chosen = []
    flat_ = [(al, bl, s) for s in (0, 1) for al, bl in by_steps.get(s, [])]
    chosen += flat_ if len(flat_) <= n_flat else rng.sample(flat_, n_flat)
    deep = sorted(s for s in by_steps if s >= 2)
    if n_grow is None:
        for s in deep: chosen += [(al, bl, s) for al, bl in by_steps[s]]
    elif deep:
        share = max(1, n_grow // len(deep))                   # equal share per depth, the rest to the shallower ones
        left = n_grow
        for s in reversed(deep):
            xs = by_steps[s]
            take = xs if len(xs) <= share else rng.sample(xs, share)
            chosen += [(al, bl, s) for al, bl in take]; left -= len(take)
        if left > 0:
            xs = by_steps[deep[0]]
            chosen += [(al, bl, deep[0]) for al, bl in rng.sample(xs, min(left, len(xs)))]
    return chosen


def gen_pt_growth_cases(ctx: Ctx):
    rng = ctx.rng("pt-growth")
    th = ctx.thorough
    k = 0
    for dims, n_a, n_grow, n_flat in GROWTH_PLAN["thorough" if th else "quick"]:
        tau = digits_type(dims)
        for al, bl, steps in growth_pairs(dims, n_a, n_grow, n_flat, rng):
            for sr in SEMIRINGS:
                for rep in range(2 if th and len(dims) <= 3 else 1):
                    k += 1
                    extra = rng.choice([(), (), (), (2,), (1,)])
                    ap = relational_pattern(dims, al, 2)
                    bp = relational_pattern(dims, bl, 1, extra)
                    if len(ap["pool"]) >= 2 and rng.random() < 0.25: ap["storage"] = "transposed"
                    if sr == "Bool":
                        avals = [1.0] if rng.random() < 0.6 else [0.0, 1.0, 1.0]
                        bvals = [1.0] if rng.random() < 0.5 else [0.0, 1.0]
                    else:
                        avals = GROWTH_A_POOLS[(k // len(SEMIRINGS)) % len(GROWTH_A_POOLS)]
                        bvals = rng.choice(GROWTH_B_POOLS)
                    yield {"fn": "pt_solve", "sr": sr, "dtype": "float64", "type": tau, "family": f"growth{steps}",
                           "a": real_recipe(ap, rng, avals, 0.0), "b": real_recipe(bp, rng, bvals, 0.0)}


# ============================================================================= family: elimination orders of multi_solve
# multi_solve eliminates the block indices in the order computed by _order_nonterminals: a depth-first search of the
# block graph that starts at the row of the block inserted LAST, then "linking" indices first.  Whether every index is
# eliminated / back-substituted therefore depends on the block graph (components, sinks, sources, cycles), on the
# insertion order and on which indices have no block at all.  The family fixes small dense blocks (cheap) and
# enumerates block graphs x DFS start rows x transpose, with b present everywhere (so a dropped contribution shows).
ORDER_SHAPES = [[], [2], [], [2]]
ORDER_A_POOLS = [[0.25, 0.5], [0.25, 0.25, 0.5], [0.5, 1.0], [0.0, 0.25, 0.5], [1.0, 2.0], [0.25, 0.5, INF]]
ORDER_NAMES = ["X", "Y", "Z", "W", "V"]


def dense_pattern(shape) -> Dict[str, Any]:
    pool, vaxes = [], []
    for n in shape:
        if n == 1: vaxes.append(U_)
        else:
            vaxes.append(["P", len(pool)]); pool.append(n)
    return {"pool": pool, "vaxes": vaxes, "storage": "contig"}


def singular_component(A) -> bool:
    """some strongly connected component C of the support graph of A (real-domain values, finite inside C) has
       det(I - A_C) = 0, i.e. 1 is an eigenvalue of A: the systems on which the LU shortcut of RealSemiring.solve meets a
       singular matrix in floating point (known finding real-solve-spectral-radius-one; exercised by the other families)"""
    n = len(A)
    edge = [[A[i][j] != 0 for j in range(n)] for i in range(n)]
    reach = _closure(edge, n)
    seen = set()
    for i in range(n):
        if i in seen: continue
        C = [j for j in range(n) if reach[i][j] and reach[j][i]]
        seen.update(C)
        if len(C) == 1 and not edge[i][i]: continue
        if any(A[p][q] == INF for p in C for q in C): continue
        Z = [[(Fraction(1) if p == q else Fraction(0)) - Fraction(A[p][q]) for q in C] for p in C]
        if _det(Z) == 0: return True
    return False


def order_structures(nidx: int, rng, th: bool):
    """block graphs on nidx indices as lists of (row, column) positions"""
    pairs = [(i, j) for i in range(nidx) for j in range(nidx)]
    if nidx <= 3:
        for st in range(1, 1 << len(pairs)):
            yield [p for k, p in enumerate(pairs) if st >> k & 1]
        return
    # disjoint unions of two smaller graphs (every graph on {0,1} x every graph on the rest for nidx = 4)
    left = [(i, j) for i in range(2) for j in range(2)]
    right = [(i, j) for i in range(2, nidx) for j in range(2, nidx)]
    nl, nr = 1 << len(left), 1 << len(right)
    for sl in range(1, nl):
        for sr_ in (range(1, nr) if nidx == 4 else [rng.randrange(1, nr) for _ in range(6 if th else 2)]):
            yield [p for k, p in enumerate(left) if sl >> k & 1] + [p for k, p in enumerate(right) if sr_ >> k & 1]
    # sparse graphs: chains, trees, few cycles
    for _ in range((3000 if th else 240) if nidx == 4 else (1500 if th else 120)):
        m = rng.randrange(2, nidx + 3)
        yield sorted(set(rng.choice(pairs) for _ in range(m)))


def gen_multi_order_cases(ctx: Ctx):
    rng = ctx.rng("multi-order")
    th = ctx.thorough
    tier = ctx.tier
    k = 0
    for nidx in ((3, 4, 5) if th else (3, 4)):
        names = ORDER_NAMES[:nidx]
        for present in order_structures(nidx, rng, th):
            rows = sorted(set(i for i, _ in present))
            for start in rows:                                 # the row of the block inserted last = root of the DFS
                k += 1
                for t, tr in enumerate((False, True)):
                    if th and nidx <= 4: srs = list(SEMIRINGS)
                    else:
                        srs = [SEMIRINGS[(k + t) % 4]]         # every (semiring, transpose) combination comes up in turn
                        if srs[0] != "Real" and rng.random() < 0.25: srs.append("Real")
                    for sr in srs:
                        nm_order = list(names)
                        if rng.random() < 0.4: rng.shuffle(nm_order)   # order of the shapes dict = order of the linking indices
                        shapes = [[nm, rng.choice(ORDER_SHAPES)] for nm in nm_order]
                        shp = dict((nm, sh) for nm, sh in shapes)
                        if sr == "Bool":
                            vals = [1.0] if rng.random() < 0.5 else [0.0, 1.0, 1.0]
                            bvals = [1.0]
                        else:
                            vals = rng.choice(ORDER_A_POOLS)
                            bvals = [1.0, 0.5]
                        last = rng.choice([p for p in present if p[0] == start])
                        order = [p for p in present if p != last]
                        rng.shuffle(order)
                        order.append(last)
                        a = []
                        patterned = rng.random() < 0.2
                        for i, j in order:
                            x, y = names[i], names[j]
                            if patterned:
                                types = [["n", d] for d in shp[x] + shp[y]]
                                pat = rng.choice(conforming_patterns(types, tier))
                            else:
                                pat = dense_pattern(tuple(shp[x] + shp[y]))
                            a.append([x, y, real_recipe(pat, rng, vals, 0.0)])
                        bnames = list(names)
                        if rng.random() < 0.15:                # some b blocks absent
                            bnames = [nm for nm in names if rng.random() < 0.6]
                        rng.shuffle(bnames)
                        b = [[x, real_recipe(dense_pattern(tuple(shp[x])), rng, bvals, 0.0)] for x in bnames]
                        fn = "multi_mv" if rng.random() < 1 / 6 else "multi_solve"
                        case = {"fn": fn, "sr": sr, "dtype": "float64", "transpose": tr,
                                "shapes": shapes, "family": "order", "a": a, "b": b}
                        if sr in ("Real", "Log") and case["fn"] == "multi_solve":
                            # this family varies the elimination order, not the conditioning: redraw the entries while
                            # 1 is an eigenvalue of the block matrix
                            for _ in range(4):
                                if not singular_component(assemble(case)[3]): break
                                for blk in a:
                                    blk[2]["data"] = [jv(rng.choice(vals)) for _ in blk[2]["data"]]
                            else:
                                if singular_component(assemble(case)[3]): continue
                        yield case


def nontrivial(case) -> bool:
    """the system has a non-zero right-hand side and a non-zero matrix"""
    if case["fn"] == "sr_solve":
        return any(G.dec(v) != 0 for v in flat(case["a"])) and any(G.dec(v) != 0 for v in flat(case["b"]))
    if case["fn"] == "pt_solve":
        return any(v != 0 for v in flat(real_dense(case["a"]))) and any(v != 0 for v in flat(real_dense(case["b"])))
    return bool(case["a"]) and bool(case["b"]) and \
        any(v != 0 for _, _, r in case["a"] for v in flat(real_dense(r))) and \
        any(v != 0 for _, r in case["b"] for v in flat(real_dense(r)))


# ============================================================================= classification of failing inputs
def regime_of(case) -> str:
    """class of the failing system used in keys: which of the hard features it has"""
    try:
        if case["fn"] == "sr_solve":
            A = [[G.dec(v) for v in r] for r in case["a"]]
        elif case["fn"] == "pt_solve":
            A = real_dense(case["a"])
        else:
            A = assemble(case)[3]
    except Exception:
        return "?"
    f = []
    if any(v == INF for v in flat(A)): f.append("inf-entry")
    n = len(A)
    fin = [[Fraction(v) if v != INF else Fraction(0) for v in r] for r in A]
    if n and case["sr"] in ("Real", "Log"):
        f.append("rho" + rho_class(fin))
    return "+".join(f) or "plain"


def fail_key(f) -> str:
    c = f["case"]
    if f["keyclass"].startswith("raises"):
        return f"{c['fn']}:{f['keyclass']}".replace("raises-CaseTimeout", "hangs")
    k = f"{c['fn']}:{c['sr']}:{f['keyclass']}"
    if f["keyclass"].startswith("value"):
        k += ":" + regime_of(c)
    return k


def fail_what(f) -> str:
    c = f["case"]
    if c["fn"] == "sr_solve":
        return f"Semiring.solve {c['sr']}/{c['dtype']} a={c['a']} b={c['b']}"[:400]
    if c["fn"] == "pt_solve":
        return (f"PatternedTensor.solve {c['sr']} a={real_dense(c['a'])} as {c['a']['vaxes']}/pool{c['a']['pool']}/default={c['a']['default']} "
                f"b={real_dense(c['b'])} as {c['b']['vaxes']}/pool{c['b']['pool']}/default={c['b']['default']}")[:400]
    return (f"{c['fn']} {c['sr']} transpose={int(c['transpose'])} shapes={c['shapes']} "
            f"a={[(x, y, real_dense(r)) for x, y, r in c['a']]} b={[(x, real_dense(r)) for x, r in c['b']]}")[:400]


FNNAME = {"sr_solve": "fggs.semirings.Semiring.solve", "pt_solve": "fggs.indices.PatternedTensor.solve",
          "multi_solve": "fggs.multi.multi_solve", "multi_mv": "fggs.multi.multi_mv"}


# ============================================================================= workers / driver
def _worker(cases):
    torch.set_num_threads(1)
    out = {"n": {}, "fcount": {}, "digests": [], "fails": [], "oos": 0, "oos_samples": [], "samples": []}
    for case in cases:
        try:
            res = run_case(case)
        except Exception as e:
            res = [("harness", "harness-exception", f"{type(e).__name__}: {e}")]
        if res and res[0][1] == "out-of-scope-type-mismatch":
            out["oos"] += 1
            if len(out["oos_samples"]) < 2: out["oos_samples"].append(case)
            continue
        fn = case["fn"]
        out["n"][fn] = out["n"].get(fn, 0) + 1
        if nontrivial(case):
            out["digests"].append((fn, hashlib.md5(canon(case).encode()).digest()[:8]))
            if len(out["samples"]) < 1: out["samples"].append(case)
        for clause, kc, detail in res:
            f = {"case": case, "clause": clause, "keyclass": kc, "detail": detail}
            k = fail_key(f)
            out["fcount"][k] = out["fcount"].get(k, 0) + 1
            if out["fcount"][k] <= 2 * MAX_FAIL_PER_KEY:
                out["fails"].append(f)
    return out


def probe_multitensor_copy() -> Dict[str, Any]:
    """side probe (not part of the C09 property text): MultiTensor.copy_ with a key to delete"""
    from fggs.multi import MultiTensor
    from fggs.indices import PatternedTensor
    S = make_semiring("Real", "float64")
    sh = {"X": torch.Size([]), "Y": torch.Size([2])}
    src = MultiTensor(sh, S); dst = MultiTensor(sh, S)
    src["X"] = PatternedTensor(torch.tensor(1.0, dtype=torch.float64))
    dst["Y"] = PatternedTensor(torch.tensor([1.0, 2.0], dtype=torch.float64))
    try:
        dst.copy_(src)
        return {"MultiTensor.copy_ (destination has a key the source lacks)": "ok", "keys": list(dst.keys())}
    except Exception as e:
        return {"MultiTensor.copy_ (destination has a key the source lacks)": f"raises {type(e).__name__}: {e}"}


def run_bounded(ctx: Ctx) -> Report:
    import multiprocessing as mp, gc
    t0 = time.time()
    rep = Report(property_id="C09", level="exploration")
    jobs = max(1, ctx.jobs)
    need = set()
    for k in (1, 2, 3, 4):
        need |= {(k, k), (k,), (k, 2), (k, 1), (k, 1, 2)}
    for sx in BLOCK_SHAPES:
        need.add(tuple(sx))
        for sy in BLOCK_SHAPES: need.add(tuple(sx) + tuple(sy))
    shapes = sorted(need)
    todo = [(s, ctx.tier) for s in shapes if (s, ctx.tier) not in G._PFS_CACHE]
    if jobs > 1 and todo:
        with mp.get_context("fork").Pool(jobs) as pool:
            for key, pats in zip(todo, pool.map(_warm, todo, chunksize=1)):
                G._PFS_CACHE[key] = pats
    selftest = oracle_selftest(ctx.rng("oracle"), 400 if ctx.thorough else 150)
    cases: List[Any] = []
    gens = {"sr_solve": gen_sr_cases, "pt_solve": gen_pt_cases, "multi": gen_multi_cases,
            "pt_solve_growth": gen_pt_growth_cases, "multi_order": gen_multi_order_cases}
    gen_counts = {}
    for nm, g in gens.items():
        before = len(cases)
        cases += list(g(ctx))
        gen_counts[nm] = len(cases) - before
    t_gen = time.time() - t0
    nchunks = jobs * 8
    chunks = [cases[i::nchunks] for i in range(nchunks)]
    chunks = [c for c in chunks if c]
    gc.collect(); gc.freeze()
    if jobs > 1:
        with mp.get_context("fork").Pool(jobs) as pool:
            results = pool.map(_worker, chunks, chunksize=1)
    else:
        results = [_worker(c) for c in chunks]
    n: Dict[str, int] = {}
    dig: Dict[str, set] = {}
    fails, samples, oos, oos_samples = [], {}, 0, []
    for r in results:
        for k, v in r["n"].items(): n[k] = n.get(k, 0) + v
        for fn, d in r["digests"]: dig.setdefault(fn, set()).add(d)
        fails += r["fails"]; oos += r["oos"]; oos_samples += r["oos_samples"]
        for s in r["samples"]: samples.setdefault(s["fn"], []).append(s)
    three = "1-3 block indices: all 2 / 16 structures for 1 / 2 indices, all 512 structures for 3 indices with 3 subsets of b-blocks (all blocks + 2 sampled)" \
        if ctx.thorough else "1-2 block indices: all 2 / 16 structures x every subset of b-blocks"
    order_fam = ("3 block indices: all 511 non-empty block graphs; 4 indices: all 225 disjoint unions of two non-empty 2-index "
                 "graphs + seeded sparse graphs" + ("; 5 indices: seeded unions and sparse graphs" if ctx.thorough else "") +
                 "; x every row as the row of the last-inserted block (root of the ordering DFS) x transpose; seeded order of the "
                 "shapes dict; blocks of shape () / (2,), dense (every 5th case: seeded well-typed patterns), b on all indices "
                 "(every 7th case: seeded subset); semirings rotate (thorough: all 4); Real/Log systems in which 1 is an "
                 "eigenvalue of the block matrix are redrawn (known finding real-solve-spectral-radius-one)")
    bounds = {
        "sr_solve": "n=1,2: every matrix over {0,1/4,1/2,1,2,inf} (b over {0,1,1/2,inf}, vector and n x 2; quick: 2 seeded b per matrix); "
                    "n=3: scaled permutation matrices and seeded matrices by regime (nilpotent, radius <1, =1, >1, inf entries); "
                    "4 semirings; float64 (+ float32 subset for Real/Log); Bool n<=3 exhaustive",
        "pt_solve": "n in 1..4, every index type of size n (atomic, sums, 2x2 product), every conforming pattern of a from "
                    "patterns_for_shape((n,n)) x seeded conforming b of shape (n,), (n,2), (n,1), (n,1,2); defaults zero / non-zero; "
                    "4 semirings; entries by regime; PLUS growth family: index types that are products of 2-3 (thorough: up to 4) "
                    "sums of units, relational patterns (every factor of the row/column axis of a and of the row axis of b a "
                    "constant or a possibly shared physical axis: all for 2x2, seeded sample otherwise), (a,b) pairs "
                    "stratified by the number of steps in which supp(sum_n a^n b) grows (0..4+; mostly >= 2)",
        "multi_solve": three + "; block shapes from {(), (2,), (1,2), (2,2)}; blocks = seeded well-typed patterns; entries by regime; "
                       "4 semirings x transpose; arguments snapshot before/after; PLUS elimination-order family: " + order_fam,
        "multi_mv": three + "; same blocks; 4 semirings x transpose; arguments snapshot before/after; PLUS every 6th case of the "
                    "elimination-order family",
    }
    rules = {
        "sr_solve": "enumeration as in the bound; non-trivial iff A and b both have a non-zero entry; distinct canonical JSON recipes",
        "pt_solve": "enumeration of (type, pattern of a) x seeded b pattern, regime and data; non-trivial iff dense A and dense b are non-zero",
        "multi_solve": "enumeration of block structures x subsets of b x semiring x transpose, seeded shapes/types/patterns/data; "
                       "non-trivial iff some present block of a and some block of b is non-zero",
        "multi_mv": "as multi_solve",
    }
    for fn in ("sr_solve", "pt_solve", "multi_solve", "multi_mv"):
        rep.bounded.append(Bounded(function=FNNAME[fn], bound=bounds[fn], cases=n.get(fn, 0),
                                   distinct_nontrivial=len(dig.get(fn, ())), rule=rules[fn],
                                   samples=samples.get(fn, [])[:3],
                                   exhaustive=False))
    fails.sort(key=lambda f: (fail_key(f), len(canon(f["case"])), canon(f["case"])))
    count: Dict[str, int] = {}
    for r in results:
        for k, v in r["fcount"].items(): count[k] = count.get(k, 0) + v
    kept: Dict[str, int] = {}
    for f in fails:
        k = fail_key(f)
        kept[k] = kept.get(k, 0) + 1
        if kept[k] > MAX_FAIL_PER_KEY: continue
        c = f["case"]
        rep.failures.append(Failure(obligation=f"{FNNAME[c['fn']]}.{f['clause']}", what=fail_what(f),
                                    replay={"module": MODULE, "func": "replay_case", "case": c},
                                    detail=f["detail"], key=k))
    fam: Dict[str, int] = {}
    for c in cases:
        if "family" in c: fam[c["family"]] = fam.get(c["family"], 0) + 1
    rep.extra["c09_bounded"] = {"cases": sum(n.values()), "generated": gen_counts, "families": dict(sorted(fam.items())),
                                "failures_by_key": count,
                                "oracle_selftest_vs_naive_iteration": selftest,
                                "out_of_scope(library warned index type mismatch)": oos,
                                "out_of_scope_samples": oos_samples[:2],
                                "side_probe": probe_multitensor_copy(),
                                "generation_s": round(t_gen, 1), "wall_s": round(time.time() - t0, 1)}
    rep.assumptions.append("C09 bounded: matrix entries are dyadic ({0,1/4,1/2,1,2,inf}); the oracle decides divergence exactly "
                           "(rational arithmetic), so spectral radius exactly 1 is in scope but near-1 rounding cases are not")
    rep.functions_under_contract += list(FNNAME.values())
    return rep


def replay_case(case) -> bool:
    torch.set_num_threads(1)
    res = run_case(case)
    print("case:", canon(case)[:1500])
    if not res:
        print("contract holds on this case")
        return False
    for clause, kc, detail in res:
        print(f"VIOLATED {FNNAME[case['fn']]}.{clause} [{kc}]: {detail}")
    return any(not kc.startswith("harness") and not kc.startswith("out-of-scope") for _, kc, _ in res)


if __name__ == "__main__":
    import sys
    tier = sys.argv[1] if len(sys.argv) > 1 else "quick"
    t = time.time()
    r = run_bounded(Ctx("C09", tier, 0))
    print("wall", round(time.time() - t, 1))
    for b in r.bounded: print(b.function, b.cases, b.distinct_nontrivial)
    print(json.dumps(r.extra, indent=1, default=str)[:4000])
    for f in r.failures: print(f.obligation, "|", f.key, "|", f.what[:260], "|", f.detail[:200])
