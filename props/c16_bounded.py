"""C16 (bounded): graphs and grammars stay well formed under any sequence of API calls.

Breadth-first exploration of call histories on the REAL classes Graph, HRG, FGG and
FactorGraph (public API only; private dicts are only *read* by the well-formedness
oracle, as the property is about them).  After every call:

  (i)   wf         -- the invariant of the property text (written here, independently);
  (ii)  on_raise   -- a call that raised left every public view unchanged;
  (iii) copy       -- copy == original, both sides independent, tables/domains/factors equal;
  (iv)  eq         -- reflexive, symmetric, transitive on the objects at hand, and
                      `a == b` implies equal nodes/edges/ext (rules/start).

A state that violates wf is reported and NOT expanded (the contracts require wf(old)).
States are deduplicated by a canonical form (implicit ids renamed, dict order ignored).

Recipes: a history is a JSON list of calls with symbolic arguments from the universe
(see `Universe`); `replay_case` rebuilds the object by replaying the history.
"""
from __future__ import annotations
import hashlib, itertools, json, multiprocessing, time, warnings
from typing import Any, Dict, List, Optional, Tuple

import torch
import fggs
from fggs import (Graph, HRG, FGG, FactorGraph, Node, Edge, NodeLabel, EdgeLabel, HRGRule,
                  FiniteDomain, RangeDomain, FiniteFactor)
from vf.core import Ctx, Report, Bounded, Failure

MODULE = "props.c16_bounded"
PER_KEY_CAP = 3

# ----------------------------------------------------------------------------------------
# universe: symbolic names -> immutable library values
# ----------------------------------------------------------------------------------------
NL = {"A": NodeLabel("A"), "B": NodeLabel("B")}
# explicit ids x labels (the SAME id with a DIFFERENT label exists), plus implicit-id nodes.
NODES: Dict[str, Node] = {
    "n1A": Node(NL["A"], "n1"), "n1B": Node(NL["B"], "n1"),
    "n2A": Node(NL["A"], "n2"), "n2B": Node(NL["B"], "n2"),
    "iA": Node(NL["A"]), "iB": Node(NL["B"]),
    "zzA": Node(NL["A"], "zz"),      # only used by the copy-independence probe
}
IMPLICIT_NAME = {NODES["iA"].id: "iA", NODES["iB"].id: "iB"}


def label(ref: str) -> EdgeLabel:
    """'fT:AB' -> terminal f of type (A,B); 'XN:' -> nonterminal X of arity 0."""
    head, typ = ref.split(":")
    name, kind = head[:-1], head[-1]
    return EdgeLabel(name, tuple(NL[c] for c in typ), is_terminal=(kind == "T"), is_nonterminal=(kind == "N"))


def label_ref(l: EdgeLabel) -> str:
    return f"{l.name}{'T' if l.is_terminal else 'N'}:{''.join(n.name for n in l.type)}"


def edge(rec) -> Edge:
    lab, nodes, eid = rec
    return Edge(label(lab), [NODES[n] for n in nodes], id=eid)


class Universe:
    """The finite set of calls offered in every state."""
    def __init__(self, name, nodes, labels, edge_ids, new_edge_ids, ext_max, remove_edges, max_att=2):
        self.name = name
        self.nodes = nodes
        self.labels = labels
        A = [n for n in nodes if NODES[n].label.name == "A"]
        B = [n for n in nodes if NODES[n].label.name == "B"]
        by = {"A": A, "B": B}
        calls: List[list] = []
        for n in nodes:
            calls.append(["add_node", n])
        for n in nodes:
            calls.append(["remove_node", n])
        for lab in ("A", "B"):
            for nid in sorted({NODES[n].id for n in nodes if isinstance(NODES[n].id, str)}) + [None]:
                calls.append(["new_node", lab, nid])
        edges = []
        for lr in labels:
            typ = lr.split(":")[1]
            for tup in itertools.product(*[by[c] for c in typ]):
                edges.append((lr, list(tup)))
        self.edges = edges
        for lr, tup in edges:
            for eid in edge_ids:
                calls.append(["add_edge", [lr, tup, eid]])
        seen = set()
        for lr, tup in edges:
            head = lr.split(":")[0]
            k = (head, tuple(tup))
            if k in seen:
                continue
            seen.add(k)
            for eid in new_edge_ids:
                calls.append(["new_edge", head[:-1], tup, head[-1], eid])
        calls.append(["new_edge", "f", [], "-", "e1"])        # neither terminal nor nonterminal: must fail
        for rec in remove_edges:
            calls.append(["remove_edge", rec])
        for k in range(ext_max + 1):
            for tup in itertools.product(nodes, repeat=k):
                calls.append(["ext", list(tup)])
        calls.append(["copy"])
        for lab in ("A", "B"):
            calls.append(["add_node_label", lab])
        for lr in labels:
            calls.append(["add_edge_label", lr])
        self.calls = calls


def all_label_refs():
    out = []
    for name in ("f", "g"):
        for kind in ("T", "N"):
            for k in range(3):
                for typ in itertools.product("AB", repeat=k):
                    out.append(f"{name}{kind}:{''.join(typ)}")
    return out


def universe(which: str) -> Universe:
    if which == "wide":      # the universe of the task text, complete
        return Universe("wide", ["n1A", "n1B", "n2A", "n2B", "iA", "iB"], all_label_refs(),
                        edge_ids=["e1", "e2"], new_edge_ids=["e1", None], ext_max=2,
                        remove_edges=[["fT:", [], "e1"], ["gN:A", ["n1A"], "e1"], ["fT:", [], "e2"]])
    if which == "deep":      # a sub-universe keeping every confusion (same id/other label, same name/other type or terminality)
        return Universe("deep", ["n1A", "n1B", "n2A", "iA"],
                        ["fT:A", "fN:A", "fT:B", "gT:AA", "gT:AB", "gN:"],
                        edge_ids=["e1", "e2"], new_edge_ids=["e1"], ext_max=2,
                        remove_edges=[["fT:A", ["n1A"], "e1"], ["gN:", [], "e1"], ["gN:", [], "e2"]])
    if which == "core":      # smallest universe for the longest histories
        return Universe("core", ["n1A", "n1B", "n2A"],
                        ["fT:A", "fN:A", "fT:B", "gT:AB"],
                        edge_ids=["e1", "e2"], new_edge_ids=[], ext_max=1,
                        remove_edges=[["fT:A", ["n1A"], "e1"]])
    raise KeyError(which)


# ----------------------------------------------------------------------------------------
# views, canonical forms, well-formedness oracle (independent of the code under test)
# ----------------------------------------------------------------------------------------
def observe_graph(g) -> tuple:
    """Everything a client can see through the public API (ordered)."""
    o = (list(g.nodes()), list(g.edges()), tuple(g.ext), list(g.node_labels()), list(g.edge_labels()))
    if isinstance(g, FactorGraph):
        o = o + (observe_interp(g),)
    return o


def observe_interp(x) -> tuple:
    doms = [(k, type(d).__name__, list(d.values) if isinstance(d, FiniteDomain) else d.size()) for k, d in x.domains.items()]
    facs = []
    for k, f in x.factors.items():
        facs.append((k, [(type(d).__name__, list(d.values) if isinstance(d, FiniteDomain) else d.size()) for d in f.domains],
                     f.weights.to_dense().tolist() if isinstance(f, FiniteFactor) else f.weight))
    return (doms, facs)


def observe_hrg(h) -> tuple:
    o = (getattr(h, "_start", "<unset>"), list(h.node_labels()), list(h.edge_labels()),
         [(r.lhs, observe_graph(r.rhs)) for r in h.all_rules()])
    if isinstance(h, FGG):
        o = o + (observe_interp(h),)
    return o


def view_graph(g) -> tuple:
    """Abstract view for the == oracle: nodes, edges, externals by id (ids are real, not renamed)."""
    nodes = sorted(((repr(n.id), n.label.name) for n in g.nodes()))
    edges = sorted(((repr(e.id), label_ref(e.label), tuple((repr(n.id), n.label.name) for n in e.nodes)) for e in g.edges()))
    ext = tuple((repr(n.id), n.label.name) for n in g.ext)
    return (nodes, edges, ext)


def view_hrg(h) -> tuple:
    s = getattr(h, "_start", None)
    return (label_ref(s) if s is not None else None,
            [(label_ref(r.lhs), view_graph(r.rhs)) for r in h.all_rules()])


class Renamer:
    def __init__(self):
        self.m = dict(IMPLICIT_NAME)
        self.k = 0
    def __call__(self, i):
        if isinstance(i, str):
            return i
        if i not in self.m:
            self.m[i] = f"~{self.k}"
            self.k += 1
        return self.m[i]


def canon_graph(g, rn: Optional[Renamer] = None) -> list:
    """Raw state (also of ill-formed graphs), implicit ids renamed, dict order ignored."""
    rn = rn or Renamer()
    nd = lambda n: [rn(n.id), n.label.name]
    nodes = [[rn(k)] + nd(n) for k, n in g._nodes.items()]
    edges = [[rn(k), rn(e.id), label_ref(e.label), [nd(n) for n in e.nodes]] for k, e in g._edges.items()]
    c = [sorted(nodes), sorted(edges, key=lambda x: x[0]), [nd(n) for n in g._ext],
         sorted([k, v.name] for k, v in g._node_labels.items()),
         sorted([k, label_ref(v)] for k, v in g._edge_labels.items())]
    if isinstance(g, FactorGraph):
        c.append(canon_interp(g))
    return c


def canon_interp(x) -> list:
    doms, facs = observe_interp(x)
    return [sorted(([k, t, v] for k, t, v in doms), key=json.dumps), sorted(([k, d, w] for k, d, w in facs), key=json.dumps)]


def canon_hrg(h) -> list:
    rn = Renamer()
    s = getattr(h, "_start", None)
    c = [label_ref(s) if s is not None else None,
         sorted([k, v.name] for k, v in h._node_labels.items()),
         sorted([k, label_ref(v)] for k, v in h._edge_labels.items()),
         [[label_ref(r.lhs), canon_graph(r.rhs, rn)] for r in h.all_rules()]]
    if isinstance(h, FGG):
        c.append(canon_interp(h))
    return c


def wf_graph(g, tables: bool = True) -> List[str]:
    """The invariant of the property text.  Returns the list of violated clauses."""
    bad = []
    for k, n in g._nodes.items():
        if k != n.id:
            bad.append(f"ids-unique: node stored under key {k!r} has id {n.id!r}")
    for k, e in g._edges.items():
        if k != e.id:
            bad.append(f"ids-unique: edge stored under key {k!r} has id {e.id!r}")
    ids = [n.id for n in g.nodes()]
    if len(set(ids)) != len(ids):
        bad.append("ids-unique: two nodes with one id")
    for e in g.edges():
        for n in e.nodes:
            if n.id not in g._nodes:
                bad.append(f"attachment-is-node: edge {e.id!r} attaches to {n.id!r}:{n.label.name}, no node with that id in the graph")
            elif g._nodes[n.id] != n:
                bad.append(f"attachment-is-node: edge {e.id!r} attaches to {n.id!r}:{n.label.name} but the graph's node {n.id!r} is :{g._nodes[n.id].label.name}")
        if e.label.type != tuple(n.label for n in e.nodes):
            bad.append(f"edge-type: edge {e.id!r} label type != labels of its nodes")
        if tables:
            if e.label.name not in g._edge_labels:
                bad.append(f"one-label-per-name: label {label_ref(e.label)} of edge {e.id!r} is not in the edge-label table")
            elif g._edge_labels[e.label.name] != e.label:
                bad.append(f"one-label-per-name: edge {e.id!r} has label {label_ref(e.label)} but the table says {label_ref(g._edge_labels[e.label.name])}")
    byname: Dict[str, EdgeLabel] = {}
    for e in g.edges():
        if byname.setdefault(e.label.name, e.label) != e.label:
            bad.append(f"one-label-per-name: two edges use name {e.label.name!r} with different labels")
    for n in g.ext:
        if n.id not in g._nodes:
            bad.append(f"ext-is-node: external {n.id!r}:{n.label.name}, no node with that id in the graph")
        elif g._nodes[n.id] != n:
            bad.append(f"ext-is-node: external {n.id!r}:{n.label.name} but the graph's node {n.id!r} is :{g._nodes[n.id].label.name}")
    for k, l in g._edge_labels.items():
        if k != l.name:
            bad.append(f"one-label-per-name: table key {k!r} holds label named {l.name!r}")
    for k, l in g._node_labels.items():
        if k != l.name:
            bad.append(f"one-label-per-name: node-label table key {k!r} holds label named {l.name!r}")
    if isinstance(g, FactorGraph):
        bad += wf_interp(g)
    return bad


def wf_interp(x) -> List[str]:
    bad = []
    for name, fac in x.factors.items():
        if name not in x._edge_labels:
            continue                      # covered by the label-table clauses of copy(); not part of the property's invariant
        el = x._edge_labels[name]
        if el.is_nonterminal:
            bad.append(f"interp: factor bound to nonterminal {name!r}")
        if fac.arity != el.arity:
            bad.append(f"interp: factor of {name!r} has arity {fac.arity}, label has {el.arity}")
            continue
        for nl, d in zip(el.type, fac.domains):
            if nl.name not in x.domains:
                bad.append(f"interp: factor of {name!r}: node label {nl.name} has no domain")
            elif not (x.domains[nl.name] == d):
                bad.append(f"interp: factor of {name!r}: domain differs from the domain of {nl.name}")
    return bad


def wf_hrg(h, rhs_tables: bool = True) -> List[str]:
    bad = []
    for k, l in h._edge_labels.items():
        if k != l.name:
            bad.append(f"one-label-per-name: table key {k!r} holds label named {l.name!r}")

    def covered(l: EdgeLabel, where: str):
        if l.name not in h._edge_labels:
            bad.append(f"labels-cover: {label_ref(l)} ({where}) is not in the grammar's edge-label table")
        elif h._edge_labels[l.name] != l:
            bad.append(f"one-label-per-name: {label_ref(l)} ({where}) but the table says {label_ref(h._edge_labels[l.name])}")
    s = getattr(h, "_start", "<unset>")
    if s == "<unset>":
        bad.append("start: attribute not set")
    elif s is not None:
        if s.is_terminal:
            bad.append("start: terminal")
        covered(s, "start")
    for lhs, rs in h._rules.items():
        for r in rs:
            if r.lhs != lhs:
                bad.append(f"rules-index: rule with lhs {label_ref(r.lhs)} stored under {label_ref(lhs)}")
    for i, r in enumerate(h.all_rules()):
        if r.lhs.is_terminal:
            bad.append(f"rule-lhs: rule {i} has a terminal lhs")
        if r.lhs.type != tuple(n.label for n in r.rhs.ext):
            bad.append(f"rule-type: rule {i} lhs {label_ref(r.lhs)} but rhs type ({','.join(n.label.name for n in r.rhs.ext)})")
        covered(r.lhs, f"lhs of rule {i}")
        for n in r.rhs.nodes():
            if h._node_labels.get(n.label.name) != n.label:
                bad.append(f"labels-cover: node label {n.label.name} (rule {i}) is not in the grammar's node-label table")
        for e in r.rhs.edges():
            covered(e.label, f"edge {e.id!r} of rule {i}")
        for b in wf_graph(r.rhs, tables=rhs_tables):
            bad.append(f"rhs of rule {i}: {b}")
    if isinstance(h, FGG):
        bad += wf_interp(h)
    return bad


ID_FEATS = ("same-id-other-label", "-one-id")


def make_key(cls_name, op, clause, kp, feats) -> str:
    """Stable key naming the failing call pattern: class.op : clause [: sub-case] : features of the call that matter."""
    if clause.startswith("wf.attachment") or clause.startswith("wf.ext") or clause.startswith("wf.rhs.attachment") or clause.startswith("wf.rhs.ext"):
        fs = [f for f in feats if f.endswith(ID_FEATS)]
    elif clause == "on_raise":
        fs = [f for f in feats if not f.endswith(ID_FEATS) and not f.endswith("-absent")] or feats
    elif clause.startswith(("copy", "eq")):
        fs = []
    else:
        fs = feats
    key = f"{cls_name}.{op}:{clause}"
    if clause.startswith(("copy", "eq")):
        key += ":" + kp
    if fs:
        key += ":" + "+".join(fs)
    return key


def clause_of(msg: str) -> str:
    m = msg
    if m.startswith("rhs of rule"):
        m = m.split(": ", 1)[1]
        return "rhs." + m.split(":")[0]
    return m.split(":")[0]


# ----------------------------------------------------------------------------------------
# Graph histories
# ----------------------------------------------------------------------------------------
def apply_graph_call(g, call):
    """Returns ('ok', result) or ('raise', exc).  Only the public API is used."""
    op = call[0]
    try:
        if op == "add_node":
            return "ok", g.add_node(NODES[call[1]])
        if op == "new_node":
            return "ok", g.new_node(call[1], id=call[2])
        if op == "remove_node":
            return "ok", g.remove_node(NODES[call[1]])
        if op == "add_edge":
            return "ok", g.add_edge(edge(call[1]))
        if op == "new_edge":
            _, name, nodes, kind, eid = call
            return "ok", g.new_edge(name, [NODES[n] for n in nodes], is_terminal=(kind == "T"),
                                    is_nonterminal=(kind == "N"), id=eid)
        if op == "remove_edge":
            return "ok", g.remove_edge(edge(call[1]))
        if op == "ext":
            g.ext = [NODES[n] for n in call[1]]
            return "ok", None
        if op == "copy":
            return "ok", g.copy()
        if op == "add_node_label":
            return "ok", g.add_node_label(NL[call[1]])
        if op == "add_edge_label":
            return "ok", g.add_edge_label(label(call[1]))
        if op == "add_domain":
            return "ok", g.add_domain(NL[call[1]], make_domain(call[2]))
        if op == "add_factor":
            return "ok", g.add_factor(label(call[1]), make_factor(call[2]))
        if op == "new_finite_factor":
            return "ok", g.new_finite_factor(call[1], call[2])
        if op == "new_finite_domain":
            return "ok", g.new_finite_domain(call[1], call[2])
    except Exception as e:            # noqa: the contract is about *any* raise
        return "raise", e
    raise KeyError(op)


def replay_graph(history, cls=Graph):
    g = cls()
    for c in history:
        apply_graph_call(g, c)
    return g


def call_features(g, call) -> List[str]:
    """Features of a call relative to the pre-state; they make the failure key."""
    op = call[0]
    feats = []

    def node_feats(names, role):
        seen = {}
        for n in names:
            nd = NODES[n]
            if g.has_node_id(nd.id):
                if g._nodes[nd.id] != nd:
                    feats.append(f"{role}-same-id-other-label")
            else:
                feats.append(f"{role}-absent")
            if nd.id in seen and seen[nd.id] != nd:
                feats.append(f"two-{role}s-one-id")
            seen[nd.id] = nd
    if op in ("add_node", "remove_node"):
        node_feats([call[1]], "node")
    elif op == "new_node":
        if call[2] is not None and g.has_node_id(call[2]):
            feats.append("id-taken")
    elif op in ("add_edge", "new_edge", "remove_edge"):
        if op == "new_edge":
            _, name, nodes, kind, eid = call
            if kind == "-":
                return ["neither-terminal-nor-nonterminal"]
            lr = f"{name}{kind}:{''.join(NODES[n].label.name for n in nodes)}"
        else:
            lr, nodes, eid = call[1]
        if op != "remove_edge":
            node_feats(nodes, "attachment")
            l = label(lr)
            if g.has_edge_label_name(l.name) and g.get_edge_label(l.name) != l:
                feats.append("label-name-conflict")
        if eid is not None and g.has_edge_id(eid):
            feats.append("edge-id-taken" if op != "remove_edge" else
                         ("same-edge" if g._edges[eid] == edge(call[1]) else "same-id-other-edge"))
        elif op == "remove_edge":
            feats.append("edge-absent")
    elif op == "ext":
        node_feats(call[1], "ext")
    elif op == "add_edge_label":
        l = label(call[1])
        if g.has_edge_label_name(l.name) and g.get_edge_label(l.name) != l:
            feats.append("label-name-conflict")
    return sorted(set(feats))


def fresh_probe_node(g) -> Node:
    return NODES["zzA"]


def check_copy_graph(g, c) -> List[Tuple[str, str, str]]:
    """(clause, keypart, detail) for the copy contract.  g is rebuilt by the caller afterwards."""
    out = []
    if not (c == g) or (c != g):
        out.append(("copy.equal", "copy-not-equal", f"copy == original is {c == g}"))
    if view_graph(c) != view_graph(g):
        out.append(("copy.equal", "copy-view-differs", f"{view_graph(c)} vs {view_graph(g)}"))
    if type(c) is not type(g):
        out.append(("copy.equal", "copy-class-differs", f"{type(c).__name__} vs {type(g).__name__}"))
    if list(c.node_labels()) != list(g.node_labels()) or list(c.edge_labels()) != list(g.edge_labels()):
        out.append(("copy.labels", "label-tables-not-copied",
                    f"observed copy tables nodes={[l.name for l in c.node_labels()]} edges={[label_ref(l) for l in c.edge_labels()]}; "
                    f"expected nodes={[l.name for l in g.node_labels()]} edges={[label_ref(l) for l in g.edge_labels()]}"))
    if isinstance(g, FactorGraph) and observe_interp(g) != observe_interp(c):
        out.append(("copy.interp", "domains-factors-differ", f"{observe_interp(c)} vs {observe_interp(g)}"))
    # independence, both directions
    before_g, before_c = observe_graph(g), observe_graph(c)
    try:
        c.add_node(fresh_probe_node(c))
    except Exception as e:
        out.append(("copy.independent", "probe-add_node-on-copy-raised", repr(e)))
    if observe_graph(g) != before_g:
        out.append(("copy.independent", "mutating-copy-changed-original", ""))
    before_c = observe_graph(c)
    try:
        g.add_node_label(NodeLabel("Zprobe"))
        g.add_node(Node(NodeLabel("Zprobe"), "zz2"))
    except Exception as e:
        out.append(("copy.independent", "probe-add_node-on-original-raised", repr(e)))
    if observe_graph(c) != before_c:
        out.append(("copy.independent", "mutating-original-changed-copy", ""))
    if isinstance(g, FactorGraph):
        out += check_interp_independent(g, c)
    return out


def check_interp_independent(orig, cp) -> List[Tuple[str, str, str]]:
    out = []
    before = observe_interp(orig)
    for name, f in cp.factors.items():
        if isinstance(f, FiniteFactor) and f.weights.physical.numel() > 0:
            f.weights.physical.add_(1.0)
    for name, d in cp.domains.items():
        if isinstance(d, FiniteDomain):
            d.values.append("probe")
    cp.domains["Zp"] = RangeDomain(1)
    cp.factors["Zp"] = None
    if observe_interp(orig) != before:
        out.append(("copy.independent", "mutating-copy-weights-or-domains-changed-original",
                    f"observed {observe_interp(orig)} expected {before}"))
    return out


def check_eq_graph(objs, view, who="Graph") -> List[Tuple[str, str, str]]:
    out = []
    for a in objs:
        if not (a == a) or (a != a):
            out.append(("eq.reflexive", "not-reflexive", ""))
    for a, b in itertools.combinations(objs, 2):
        ab, ba = (a == b), (b == a)
        if ab != ba:
            out.append(("eq.symmetric", "not-symmetric", f"a==b {ab}, b==a {ba}"))
        if (a != b) == ab:
            out.append(("eq.ne", "ne-is-not-negation", ""))
        if ab and view(a) != view(b):
            out.append(("eq.distinguishes", "equal-but-different-view", f"{view(a)} vs {view(b)}"))
    if len(objs) >= 3:
        for a, b, c in itertools.permutations(objs, 3):
            if a == b and b == c and not (a == c):
                out.append(("eq.transitive", "not-transitive", ""))
    return out


def expand_graph_state(history, calls, cls_name="Graph"):
    """Apply every call of the universe to the state reached by `history`.
    Returns (transitions, raised, successors [(canon_json, call)], failures [dict])."""
    cls = Graph if cls_name == "Graph" else FactorGraph
    ref = replay_graph(history, cls)                  # never mutated: comparison partner for ==
    fails, succ = [], []
    raised = 0
    for call in calls:
        g = replay_graph(history, cls)
        pre = observe_graph(g)
        kind, res = apply_graph_call(g, call)
        probs: List[Tuple[str, str, str]] = []
        if kind == "raise":
            raised += 1
            post = observe_graph(g)
            if post != pre:
                diff = [nm for nm, a, b in zip(("nodes", "edges", "ext", "node_labels", "edge_labels", "interp"), pre, post) if a != b]
                probs.append(("on_raise", "changed-" + "+".join(diff),
                              f"raised {type(res).__name__}: {res}; changed views: {diff}; observed after: "
                              f"{json.dumps(canon_graph(g))}; expected the state before: {json.dumps(canon_graph(ref))}"))
        bad = wf_graph(g)
        for b in bad:
            probs.append(("wf." + clause_of(b), clause_of(b), b))
        if call[0] == "copy" and kind == "ok":
            c = res
            for b in wf_graph(c):
                probs.append(("copy.wf." + clause_of(b), "copy-" + clause_of(b), b))
            probs += check_copy_graph(g, c)
            g = replay_graph(history, cls)            # the probes mutated g
            probs += check_eq_graph([g, ref, g.copy()], view_graph)
        else:
            probs += check_eq_graph([g, ref], view_graph)
        if probs:
            feats = (fg_features if cls_name == "FactorGraph" else call_features)(ref, call)
            seen = set()
            for clause, kp, detail in probs:
                key = make_key(cls_name, call[0], clause, kp, feats)
                if key in seen:
                    continue
                seen.add(key)
                fails.append({"key": key, "obligation": f"{cls_name}.{call[0]}.{clause}",
                              "what": f"{cls_name} history {json.dumps(history + [call])}: {clause} violated ({kp})",
                              "detail": detail, "case": {"kind": cls_name, "history": history + [call], "clause": clause, "keypart": kp},
                              "depth": len(history) + 1})
        if not bad and call[0] != "copy":
            succ.append((json.dumps(canon_graph(g), sort_keys=True), call))
    return len(calls), raised, succ, fails


def _cap(out, fails, kc, idx):
    """Keep the first PER_KEY_CAP records per key (in BFS order inside the chunk) and count the rest."""
    for j, f in enumerate(fails):
        k = f["key"]
        kc[k] = kc.get(k, 0) + 1
        if kc[k] <= PER_KEY_CAP:
            f["order"] = (f["depth"], idx, j)
            f["count"] = 1
            out.append(f)
        else:
            for g in reversed(out):
                if g["key"] == k:
                    g["count"] += 1
                    break


def _merge(fails):
    """BFS order (depth, index of the state in its frontier, call index); total count per key."""
    fails.sort(key=lambda f: f["order"])
    return fails


def _graph_worker(args):
    histories, calls, cls_name, last = args
    out_fail, out_succ = [], []
    n = r = 0
    kc: Dict[str, int] = {}
    local_seen: set = set()
    with warnings.catch_warnings():
        warnings.simplefilter("ignore")
        for idx, h in histories:
            t, rr, succ, fails = expand_graph_state(h, calls, cls_name)
            n += t; r += rr
            _cap(out_fail, fails, kc, idx)
            if last:
                for s, _ in succ:
                    local_seen.add(hashlib.blake2b(s.encode(), digest_size=8).digest())
            else:
                for s, c in succ:
                    if s not in local_seen:
                        local_seen.add(s)
                        out_succ.append((s, h + [c]))
    if last:
        out_succ = b"".join(sorted(local_seen))          # one blob of 8-byte digests instead of a list of objects
    return n, r, out_succ, out_fail, kc


def bfs_graph(calls, depth, jobs, cls_name="Graph", init_history=None, pool=None):
    """Returns dict(stats), failures (BFS order)."""
    start = init_history or []
    cls = Graph if cls_name == "Graph" else FactorGraph
    seen = {json.dumps(canon_graph(replay_graph(start, cls)), sort_keys=True)}
    frontier = [start]
    fails: List[dict] = []
    keycount: Dict[str, int] = {}
    transitions = raised = 0
    per_depth = []
    last_hashes = set()
    own_pool = pool is None and jobs > 1
    if own_pool:
        pool = multiprocessing.get_context("fork").Pool(jobs)
    try:
        for d in range(1, depth + 1):
            last = (d == depth)
            nchunks = max(1, min(len(frontier), jobs * 4))
            fr = list(enumerate(frontier))
            chunks = [fr[i::nchunks] for i in range(nchunks)]
            args = [(ch, calls, cls_name, last) for ch in chunks]
            results = pool.map(_graph_worker, args) if (pool and len(frontier) > 4) else [_graph_worker(a) for a in args]
            new = []
            for n, r, succ, fl, kc in results:
                transitions += n; raised += r
                fails += fl
                for k, v in kc.items():
                    keycount[k] = keycount.get(k, 0) + v
                if last:
                    last_hashes.update(succ[i:i + 8] for i in range(0, len(succ), 8))
                else:
                    for s, h in succ:
                        if s not in seen:
                            seen.add(s)
                            new.append(h)
            per_depth.append({"depth": d, "expanded_states": len(frontier), "new_states": len(new) if not last else None})
            frontier = new
            if not frontier:
                break
    finally:
        if own_pool:
            pool.close(); pool.join()
    _merge(fails)
    return {"transitions": transitions, "raised": raised, "distinct_wf_states_expanded": len(seen),
            "distinct_states_at_last_depth": len(last_hashes), "per_depth": per_depth,
            "failing_transitions_by_key": dict(sorted(keycount.items()))}, fails


# ----------------------------------------------------------------------------------------
# HRG / FGG histories
# ----------------------------------------------------------------------------------------
RHS: Dict[str, dict] = {
    "R0": {"nodes": [], "edges": [], "ext": []},
    "R1": {"nodes": ["n1A"], "edges": [["fT:A", ["n1A"], "e1"]], "ext": []},
    "R2": {"nodes": ["n1A"], "edges": [["XN:A", ["n1A"], "e1"]], "ext": ["n1A"]},
    "R3": {"nodes": ["n1A", "n2B"], "edges": [["gT:AB", ["n1A", "n2B"], "e1"]], "ext": ["n1A"]},
    "R4": {"nodes": ["n1A"], "edges": [["fN:A", ["n1A"], "e1"]], "ext": []},
    "R5": {"nodes": ["n1A", "n2B"], "edges": [["gT:AB", ["n1A", "n2B"], "e1"], ["fN:A", ["n1A"], "e2"]], "ext": []},
    "R6": {"nodes": ["iA"], "edges": [["XN:", [], None], ["fT:A", ["iA"], None]], "ext": []},
}


def build_rhs(ref: str) -> Graph:
    """A FRESH graph per use (the rule owns it; no outside alias).  Built with the public API."""
    r = RHS[ref]
    g = Graph()
    for n in r["nodes"]:
        g.add_node(NODES[n])
    for e in r["edges"]:
        g.add_edge(edge(e))
    g.ext = [NODES[n] for n in r["ext"]]
    return g


DOMS = {"D2": ["finite", [0, 1]], "D2b": ["finite", ["a", "b"]], "D3": ["finite", [0, 1, 2]], "R2": ["range", 2]}
FACS = {"F2": [["D2"], [1.0, 2.0]], "F2x": [["D2"], [3.0, 4.0]], "F3": [["D3"], [1.0, 2.0, 3.0]],
        "F22": [["D2", "D2"], [[1.0, 2.0], [3.0, 4.0]]], "F0": [[], 5.0], "FR2": [["R2"], [1.0, 2.0]]}


def make_domain(ref):
    k, v = DOMS[ref]
    return FiniteDomain(list(v)) if k == "finite" else RangeDomain(v)


def make_factor(ref):
    doms, w = FACS[ref]
    return FiniteFactor([make_domain(d) for d in doms], w)


def start_arg(ref):
    if ref is None:
        return None
    k, v = ref.split("=", 1)
    return v if k == "str" else label(v)


def apply_hrg_call(h, call):
    op = call[0]
    try:
        if op == "new_rule":
            return "ok", h.new_rule(call[1], build_rhs(call[2]))
        if op == "add_rule":
            try:
                rule = HRGRule(label(call[1]), build_rhs(call[2]))
            except Exception as e:
                return "ctor-raise", e
            return "ok", h.add_rule(rule)
        if op == "start":
            h.start = start_arg(call[1])
            return "ok", None
        if op == "copy":
            return "ok", h.copy()
        if op == "add_node_label":
            return "ok", h.add_node_label(NL[call[1]])
        if op == "add_edge_label":
            return "ok", h.add_edge_label(label(call[1]))
        if op == "add_domain":
            return "ok", h.add_domain(NL[call[1]], make_domain(call[2]))
        if op == "add_factor":
            return "ok", h.add_factor(label(call[1]), make_factor(call[2]))
        if op == "new_finite_factor":
            return "ok", h.new_finite_factor(call[1], call[2])
        if op == "new_finite_domain":
            return "ok", h.new_finite_domain(call[1], call[2])
    except Exception as e:
        return "raise", e
    raise KeyError(op)


def construct(ctor):
    cls = {"HRG": HRG, "FGG": FGG}[ctor[0]]
    return cls(start_arg(ctor[1]))


def replay_hrg(history):
    h = construct(history[0])
    for c in history[1:]:
        apply_hrg_call(h, c)
    return h


HRG_LABELS = ["SN:", "XN:A", "XN:", "fT:A", "fN:A", "gT:AB", "ST:"]


def hrg_calls(fgg: bool) -> List[list]:
    calls = []
    rhs_refs = list(RHS) if not fgg else ["R0", "R1", "R3", "R5"]
    for lhs in ("S", "X", "f"):
        for r in rhs_refs:
            calls.append(["new_rule", lhs, r])
    for lhs in (["SN:", "XN:A", "fN:A", "fT:A"] if not fgg else ["SN:", "XN:A"]):
        for r in rhs_refs:
            calls.append(["add_rule", lhs, r])
    for s in ["str=S", "str=X", "str=f", "str=new", "lab=XN:A", "lab=XN:", "lab=fT:A", "lab=SN:"]:
        calls.append(["start", s])
    for l in HRG_LABELS:
        calls.append(["add_edge_label", l])
    calls.append(["add_node_label", "A"])
    calls.append(["copy"])
    if fgg:
        calls += [["add_domain", "A", "D2"], ["add_domain", "A", "D3"], ["add_domain", "B", "D2"],
                  ["add_factor", "fT:A", "F2"], ["add_factor", "fT:A", "F2x"], ["add_factor", "fT:A", "F3"],
                  ["add_factor", "fT:A", "F22"], ["add_factor", "fN:A", "F2"], ["add_factor", "gT:AB", "F22"],
                  ["add_factor", "fT:B", "F2"],
                  ["new_finite_factor", "f", [7.0, 8.0]], ["new_finite_factor", "nope", [7.0, 8.0]],
                  ["new_finite_domain", "A", [0, 1]]]
    return calls


def hrg_features(h, call) -> List[str]:
    op = call[0]
    feats = []

    def conflict(l: EdgeLabel):
        return h.has_edge_label_name(l.name) and h.get_edge_label(l.name) != l
    if op in ("new_rule", "add_rule"):
        rhs = build_rhs(call[2])
        lhs = label(call[1]) if op == "add_rule" else EdgeLabel(call[1], [n.label for n in rhs.ext], is_nonterminal=True)
        if lhs.is_terminal:
            feats.append("terminal-lhs")
        elif lhs.type != rhs.type:
            feats.append("lhs-type-mismatch")
        if conflict(lhs):
            feats.append("lhs-name-conflict")
        if any(conflict(e.label) for e in rhs.edges()):
            feats.append("rhs-label-name-conflict")
        if any(e.label.name == lhs.name and e.label != lhs for e in rhs.edges()):
            feats.append("rhs-label-conflicts-with-lhs")
    elif op == "start":
        a = start_arg(call[1])
        if isinstance(a, str):
            feats.append("str-known" if h.has_edge_label_name(a) else "str-new")
            if h.has_edge_label_name(a) and h.get_edge_label(a).is_terminal:
                feats.append("terminal")
        else:
            if a.is_terminal:
                feats.append("terminal")
            if conflict(a):
                feats.append("label-name-conflict")
    elif op == "add_edge_label":
        if conflict(label(call[1])):
            feats.append("label-name-conflict")
    elif op == "add_domain":
        if call[1] in h.domains:
            feats.append("already-mapped")
    elif op == "add_factor":
        l, f = label(call[1]), make_factor(call[2])
        if l.is_nonterminal:
            feats.append("nonterminal")
        if conflict(l):
            feats.append("label-name-conflict")
        if l.name in h.factors:
            feats.append("already-bound")
        if f.arity != l.arity:
            feats.append("arity-mismatch")
        else:
            if any(nl.name not in h.domains for nl in l.type):
                feats.append("node-label-without-domain")
            elif any(h.domains[nl.name] != d for nl, d in zip(l.type, f.domains)):
                feats.append("domain-mismatch")
    elif op == "new_finite_factor":
        if not h.has_edge_label_name(call[1]):
            feats.append("unknown-label")
        elif call[1] in h.factors:
            feats.append("already-bound")
    elif op == "new_finite_domain":
        if call[1] in h.domains:
            feats.append("already-mapped")
    return feats


def check_copy_hrg(h, c) -> List[Tuple[str, str, str]]:
    out = []
    if not (c == h) or (c != h):
        out.append(("copy.equal", "copy-not-equal", f"copy == original is {c == h}"))
    if view_hrg(c) != view_hrg(h):
        out.append(("copy.equal", "copy-view-differs", f"{view_hrg(c)} vs {view_hrg(h)}"))
    if type(c) is not type(h):
        out.append(("copy.equal", "copy-class-differs", ""))
    if list(c.node_labels()) != list(h.node_labels()) or list(c.edge_labels()) != list(h.edge_labels()):
        out.append(("copy.labels", "label-tables-not-copied", ""))
    for i, (rc, rh) in enumerate(zip(c.all_rules(), h.all_rules())):
        if rc.rhs is rh.rhs:
            out.append(("copy.independent", "rule-rhs-shared", f"rule {i}"))
        if list(rc.rhs.node_labels()) != list(rh.rhs.node_labels()) or list(rc.rhs.edge_labels()) != list(rh.rhs.edge_labels()):
            out.append(("copy.labels", "rhs-label-tables-not-copied",
                        f"rule {i}: observed copy's rhs tables edges={[label_ref(l) for l in rc.rhs.edge_labels()]}, "
                        f"expected {[label_ref(l) for l in rh.rhs.edge_labels()]}"))
            break
    if isinstance(h, FGG) and observe_interp(h) != observe_interp(c):
        out.append(("copy.interp", "domains-factors-differ", f"{observe_interp(c)} vs {observe_interp(h)}"))
    # independence: add a rule to the copy, mutate a rule's rhs in the copy; then the other way round
    before = observe_hrg(h)
    try:
        c.new_rule("Zc", build_rhs("R0"))
        for r in c.all_rules():
            r.rhs.add_node(NODES["zzA"])
            break
    except Exception as e:
        out.append(("copy.independent", "probe-on-copy-raised", repr(e)))
    if isinstance(h, FGG):
        out += check_interp_independent(h, c)
    if observe_hrg(h) != before:
        out.append(("copy.independent", "mutating-copy-changed-original", ""))
    c2 = h.copy()
    before = observe_hrg(c2)
    try:
        h.new_rule("Zh", build_rhs("R0"))
        for r in h.all_rules():
            r.rhs.add_node(Node(NL["A"], "zz3"))
            break
    except Exception as e:
        out.append(("copy.independent", "probe-on-original-raised", repr(e)))
    if observe_hrg(c2) != before:
        out.append(("copy.independent", "mutating-original-changed-copy", ""))
    return out


def expand_hrg_state(history, calls):
    ref = replay_hrg(history)
    cls_name = history[0][0]
    fails, succ = [], []
    raised = 0
    for call in calls:
        h = replay_hrg(history)
        pre = observe_hrg(h)
        kind, res = apply_hrg_call(h, call)
        probs: List[Tuple[str, str, str]] = []
        if kind in ("raise", "ctor-raise"):
            raised += 1
            post = observe_hrg(h)
            if post != pre:
                names = ("start", "node_labels", "edge_labels", "rules", "interp")
                diff = [nm for nm, a, b in zip(names, pre, post) if a != b]
                probs.append(("on_raise", "changed-" + "+".join(diff),
                              f"raised {type(res).__name__}: {res}; changed views {diff}; observed after: {json.dumps(canon_hrg(h))}; "
                              f"expected the state before: {json.dumps(canon_hrg(ref))}"))
        # the rhs of a rule is handed over as built by the public API, with its own label tables
        bad = wf_hrg(h)
        for b in bad:
            probs.append(("wf." + clause_of(b), clause_of(b), b))
        if call[0] == "copy" and kind == "ok":
            c = res
            for b in wf_hrg(c, rhs_tables=False):
                probs.append(("copy.wf." + clause_of(b), "copy-" + clause_of(b), b))
            probs += check_copy_hrg(h, c)
            h = replay_hrg(history)
            probs += check_eq_graph([h, ref, h.copy()], view_hrg)
        else:
            probs += check_eq_graph([h, ref], view_hrg)
        if probs:
            feats = hrg_features(ref, call)
            seen = set()
            for clause, kp, detail in probs:
                key = make_key(cls_name, call[0], clause, kp, feats)
                if key in seen:
                    continue
                seen.add(key)
                fails.append({"key": key, "obligation": f"{cls_name}.{call[0]}.{clause}",
                              "what": f"{cls_name} history {json.dumps(history + [call])}: {clause} violated ({kp})",
                              "detail": detail, "case": {"kind": cls_name, "history": history + [call], "clause": clause, "keypart": kp},
                              "depth": len(history)})
        if not bad and call[0] != "copy":
            succ.append((json.dumps(canon_hrg(h), sort_keys=True), call))
    return len(calls), raised, succ, fails


def _hrg_worker(args):
    histories, calls, last = args
    out_fail, out_succ = [], []
    n = r = 0
    kc: Dict[str, int] = {}
    local_seen: set = set()
    with warnings.catch_warnings():
        warnings.simplefilter("ignore")
        for idx, h in histories:
            t, rr, succ, fails = expand_hrg_state(h, calls)
            n += t; r += rr
            _cap(out_fail, fails, kc, idx)
            if last:
                for s, _ in succ:
                    local_seen.add(hashlib.blake2b(s.encode(), digest_size=8).digest())
            else:
                for s, c in succ:
                    if s not in local_seen:
                        local_seen.add(s)
                        out_succ.append((s, h + [c]))
    if last:
        out_succ = b"".join(sorted(local_seen))
    return n, r, out_succ, out_fail, kc


def bfs_hrg(ctor, calls, depth, jobs, pool=None):
    start = [ctor]
    seen = {json.dumps(canon_hrg(replay_hrg(start)), sort_keys=True)}
    frontier = [start]
    fails: List[dict] = []
    keycount: Dict[str, int] = {}
    transitions = raised = 0
    last_hashes = set()
    own_pool = pool is None and jobs > 1
    if own_pool:
        pool = multiprocessing.get_context("fork").Pool(jobs)
    try:
        for d in range(1, depth + 1):
            last = (d == depth)
            nchunks = max(1, min(len(frontier), jobs * 4))
            fr = list(enumerate(frontier))
            chunks = [fr[i::nchunks] for i in range(nchunks)]
            args = [(ch, calls, last) for ch in chunks]
            results = pool.map(_hrg_worker, args) if (pool and len(frontier) > 4) else [_hrg_worker(a) for a in args]
            new = []
            for n, r, succ, fl, kc in results:
                transitions += n; raised += r
                fails += fl
                for k, v in kc.items():
                    keycount[k] = keycount.get(k, 0) + v
                if last:
                    last_hashes.update(succ[i:i + 8] for i in range(0, len(succ), 8))
                else:
                    for s, h in succ:
                        if s not in seen:
                            seen.add(s)
                            new.append(h)
            frontier = new
            if not frontier:
                break
    finally:
        if own_pool:
            pool.close(); pool.join()
    _merge(fails)
    return {"transitions": transitions, "raised": raised, "distinct_wf_states_expanded": len(seen),
            "distinct_states_at_last_depth": len(last_hashes),
            "failing_transitions_by_key": dict(sorted(keycount.items()))}, fails


# ----------------------------------------------------------------------------------------
# constructors, element constructors, ownership histories
# ----------------------------------------------------------------------------------------
CTOR_ARGS = ["str=S", "lab=SN:", "lab=XN:A", "lab=fT:A", None]


def check_constructors() -> Tuple[int, List[dict]]:
    fails = []
    n = 0
    for cls in ("HRG", "FGG"):
        for a in CTOR_ARGS:
            n += 1
            ctor = [cls, a]
            must_fail = (a == "lab=fT:A")
            try:
                h = construct(ctor)
            except ValueError as e:
                if not must_fail:
                    fails.append(_ctor_fail(ctor, "raises", f"observed ValueError {e}; expected an object"))
                continue
            except Exception as e:
                # `start` is documented as Union[EdgeLabel, str, None] and __init__ has an explicit None branch:
                # the call is inside the API; it dies with an internal error instead of building or rejecting.
                fails.append(_ctor_fail(ctor, "internal-error",
                                        f"observed {type(e).__name__}: {e}; expected an HRG without start symbol "
                                        f"(signature Union[EdgeLabel,str,None], explicit `else: self.start = None` branch) "
                                        f"or a deliberate ValueError/TypeError"))
                continue
            if must_fail:
                fails.append(_ctor_fail(ctor, "accepts-terminal-start", "observed an object; expected ValueError"))
                continue
            for b in wf_hrg(h):
                fails.append(_ctor_fail(ctor, "wf." + clause_of(b), b))
    return n, fails


def _ctor_fail(ctor, kp, detail):
    return {"key": f"{ctor[0]}({'None' if ctor[1] is None else ctor[1]}):{kp}", "obligation": f"{ctor[0]}.__init__.{kp}",
            "what": f"constructor {json.dumps(ctor)}: {kp}", "detail": detail,
            "case": {"kind": "ctor", "ctor": ctor, "keypart": kp}, "depth": 0}


def check_element_constructors() -> Tuple[int, List[dict]]:
    """Edge(label, nodes) must reject ill-typed attachments; EdgeLabel terminal xor nonterminal; explicit ids are str;
    HRGRule rejects terminal lhs and lhs/rhs type mismatch."""
    fails = []
    n = 0
    names = ["n1A", "n1B", "n2A", "iB"]
    for lr in all_label_refs()[:14]:
        l = label(lr)
        for k in range(3):
            for tup in itertools.product(names, repeat=k):
                n += 1
                expect_ok = l.type == tuple(NODES[x].label for x in tup)
                try:
                    e = Edge(l, [NODES[x] for x in tup], id="e1")
                    ok = True
                except ValueError:
                    ok = False
                except Exception as ex:
                    ok = None
                    fails.append({"key": "Edge():unexpected-exception", "obligation": "Edge.__init__.raises", "depth": 0,
                                  "what": f"Edge({lr},{tup})", "detail": repr(ex), "case": {"kind": "edge_ctor", "label": lr, "nodes": list(tup)}})
                if ok is not None and ok != expect_ok:
                    fails.append({"key": "Edge():type-check", "obligation": "Edge.__init__.type", "depth": 0,
                                  "what": f"Edge({lr},{tup}) accepted={ok} expected={expect_ok}", "detail": "",
                                  "case": {"kind": "edge_ctor", "label": lr, "nodes": list(tup)}})
    for t, nt in itertools.product([False, True], repeat=2):
        n += 1
        try:
            EdgeLabel("f", [], is_terminal=t, is_nonterminal=nt)
            ok = True
        except ValueError:
            ok = False
        if ok != (t != nt):
            fails.append({"key": "EdgeLabel():terminal-xor-nonterminal", "obligation": "EdgeLabel.__init__.xor", "depth": 0,
                          "what": f"EdgeLabel(is_terminal={t}, is_nonterminal={nt}) accepted={ok}", "detail": "",
                          "case": {"kind": "label_ctor", "t": t, "nt": nt}})
    for bad_id in (1, 1.5, ("a",)):
        n += 2
        for what, mk in (("Node", lambda: Node(NL["A"], id=bad_id)), ("Edge", lambda: Edge(label("fT:"), [], id=bad_id))):
            try:
                mk()
                fails.append({"key": f"{what}():non-str-explicit-id-accepted", "obligation": f"{what}.__init__.id", "depth": 0,
                              "what": f"{what}(id={bad_id!r}) accepted", "detail": "", "case": {"kind": "id_ctor", "what": what, "id": repr(bad_id)}})
            except TypeError:
                pass
    for lr in ["SN:", "XN:A", "XN:", "fT:A", "fN:A", "ST:"]:
        for r in RHS:
            n += 1
            l, g = label(lr), build_rhs(r)
            expect_ok = l.is_nonterminal and l.type == g.type
            try:
                HRGRule(l, g)
                ok = True
            except Exception:
                ok = False
            if ok != expect_ok:
                fails.append({"key": "HRGRule():lhs-check", "obligation": "HRGRule.__post_init__", "depth": 0,
                              "what": f"HRGRule({lr},{r}) accepted={ok} expected={expect_ok}", "detail": "",
                              "case": {"kind": "rule_ctor", "lhs": lr, "rhs": r}})
    return n, fails


OWNERSHIP_HISTORIES = [
    {"name": "wrap-then-set-ext", "lhs": "X", "rhs": "R3", "mutation": ["ext", []]},
    {"name": "wrap-then-set-ext-longer", "lhs": "S", "rhs": "R1", "mutation": ["ext", ["n1A"]]},
    {"name": "wrap-then-new-edge-unknown-label", "lhs": "S", "rhs": "R1", "mutation": ["new_edge", "h", ["n1A"], "T", "e9"]},
    {"name": "wrap-then-new-edge-conflicting-label", "lhs": "S", "rhs": "R1", "mutation": ["new_edge", "S", ["n1A"], "T", "e9"]},
    {"name": "wrap-then-new-node-unknown-label", "lhs": "S", "rhs": "R1", "mutation": ["new_node", "B", "n9"]},
    {"name": "wrap-then-remove-edge", "lhs": "S", "rhs": "R1", "mutation": ["remove_edge", ["fT:A", ["n1A"], "e1"]]},
]


def run_ownership_histories() -> List[dict]:
    """Outside the ownership precondition (DESIGN C16): reported, never a Failure."""
    out = []
    for rec in OWNERSHIP_HISTORIES:
        h = HRG("S")
        g = build_rhs(rec["rhs"])
        h.new_rule(rec["lhs"], g)
        before = wf_hrg(h)
        kind, res = apply_graph_call(g, rec["mutation"])          # through the outside alias
        after = wf_hrg(h)
        out.append({"history": rec, "call_outcome": kind if kind == "ok" else f"raise {type(res).__name__}",
                    "wf_before": before, "wf_after": sorted(set(clause_of(b) for b in after)),
                    "breaks_wf_hrg": bool(after)})
    return out


# ----------------------------------------------------------------------------------------
# FactorGraph universe
# ----------------------------------------------------------------------------------------
def factorgraph_calls() -> List[list]:
    calls = [["add_node", "n1A"], ["add_node", "n1B"], ["add_node", "n2B"], ["remove_node", "n1A"],
             ["add_edge", ["fT:A", ["n1A"], "e1"]], ["add_edge", ["fT:B", ["n1B"], "e1"]],
             ["add_edge", ["gT:AB", ["n1A", "n2B"], "e2"]], ["add_edge", ["fN:A", ["n1A"], "e2"]],
             ["remove_edge", ["fT:A", ["n1A"], "e1"]], ["ext", ["n1A"]], ["ext", ["n1B"]], ["copy"],
             ["add_edge_label", "fT:A"], ["add_edge_label", "fT:B"],
             ["add_domain", "A", "D2"], ["add_domain", "A", "D3"], ["add_domain", "B", "D2"],
             ["add_factor", "fT:A", "F2"], ["add_factor", "fT:A", "F2x"], ["add_factor", "fT:A", "F3"],
             ["add_factor", "fT:A", "F22"], ["add_factor", "fN:A", "F2"], ["add_factor", "gT:AB", "F22"],
             ["add_factor", "fT:B", "F2"],
             ["new_finite_factor", "f", [7.0, 8.0]], ["new_finite_factor", "nope", [7.0, 8.0]],
             ["new_finite_domain", "A", [0, 1]]]
    return calls


def fg_features(g, call):
    if call[0] in ("add_domain", "add_factor", "new_finite_factor", "new_finite_domain"):
        return hrg_features(g, call)
    return call_features(g, call)


# ----------------------------------------------------------------------------------------
# driver
# ----------------------------------------------------------------------------------------
def _to_failures(rep: Report, fails: List[dict], counts: Dict[str, int], keycount: Optional[Dict[str, int]] = None):
    kept: Dict[str, int] = {}
    for k, v in (keycount or {}).items():
        counts[k] = counts.get(k, 0) + v
    for f in fails:
        if keycount is None:
            counts[f["key"]] = counts.get(f["key"], 0) + 1
        kept[f["key"]] = kept.get(f["key"], 0) + 1
        if kept[f["key"]] > PER_KEY_CAP or any(x.key == f["key"] for x in rep.failures[:-PER_KEY_CAP or None] if False):
            continue
        if sum(1 for x in rep.failures if x.key == f["key"]) >= PER_KEY_CAP:
            continue
        rep.failures.append(Failure(obligation=f["obligation"], what=f["what"], key=f["key"], detail=f["detail"][:1500],
                                    replay={"module": MODULE, "func": "replay_case", "case": f["case"]}))


def run_bounded(ctx: Ctx) -> Report:
    torch.set_num_threads(1)
    rep = Report(property_id="C16", level="exploration")
    rep.functions_under_contract = ["fggs.fggs.Graph.*", "fggs.fggs.HRG.*", "fggs.fggs.FGG.*", "fggs.fggs.FactorGraph.*",
                                    "fggs.fggs.InterpretationMixin.*", "fggs.fggs.LabelingMixin.*", "fggs.fggs.HRGRule.*",
                                    "fggs.fggs.Node", "fggs.fggs.Edge", "fggs.fggs.EdgeLabel"]
    counts: Dict[str, int] = {}
    timing = {}
    # one pool for all explorations (forking a torch process is expensive); torch threads are set once, before the fork
    # gc.freeze(): otherwise every worker's full collections touch the gc headers of the whole inherited heap (copy-on-write storms)
    import gc
    gc.collect(); gc.freeze()
    pool = multiprocessing.get_context("fork").Pool(min(ctx.jobs, 8)) if ctx.jobs > 1 else None
    try:
        return _run_bounded(ctx, rep, counts, timing, pool)
    finally:
        if pool:
            pool.close(); pool.join()


def _run_bounded(ctx, rep, counts, timing, pool) -> Report:
    with warnings.catch_warnings():
        warnings.simplefilter("ignore")
        # ---- Graph ------------------------------------------------------------------
        plans = [("wide", 2), ("deep", 4), ("core", 5)] if not ctx.thorough else [("wide", 2), ("deep", 5), ("core", 6)]
        for uname, depth in plans:
            t0 = time.time()
            U = universe(uname)
            stats, fails = bfs_graph(U.calls, depth, ctx.jobs, pool=pool)
            timing[f"Graph/{uname}"] = round(time.time() - t0, 1)
            _to_failures(rep, fails, counts, stats.pop("failing_transitions_by_key"))
            rep.bounded.append(Bounded(
                function=f"Graph call histories, universe '{uname}'",
                bound=f"all call sequences of length <= {depth} over {len(U.calls)} calls/state "
                      f"(nodes {U.nodes}, edge labels {U.labels if uname != 'wide' else 'all 28 = {f,g} x {T,N} x types of arity 0..2 over {A,B}'}, "
                      f"edge ids e1,e2{' (+implicit via new_edge)' if uname == 'wide' else ''})",
                cases=stats["transitions"], distinct_nontrivial=stats["distinct_wf_states_expanded"] + stats["distinct_states_at_last_depth"],
                rule="breadth-first; a case is one (state, call) transition; states deduplicated by canonical form (implicit ids renamed, "
                     "dict order ignored); distinct = distinct canonical well-formed states reached (expanded ones + those at the last depth); "
                     "ill-formed states are reported and not expanded",
                samples=[{"kind": "Graph", "history": [c]} for c in (U.calls[0], U.calls[len(U.calls) // 2], U.calls[-1])],
                exhaustive=True, extra=dict(stats, wall_s=timing[f"Graph/{uname}"])))
        # ---- FactorGraph ------------------------------------------------------------
        t0 = time.time()
        calls = factorgraph_calls()
        depth = 3 if not ctx.thorough else 4
        stats, fails = bfs_graph(calls, depth, ctx.jobs, cls_name="FactorGraph", pool=pool)
        timing["FactorGraph"] = round(time.time() - t0, 1)
        _to_failures(rep, fails, counts, stats.pop("failing_transitions_by_key"))
        rep.bounded.append(Bounded(
            function="FactorGraph call histories (graph calls + add_domain/add_factor/new_finite_*/copy)",
            bound=f"all call sequences of length <= {depth} over {len(calls)} calls/state",
            cases=stats["transitions"], distinct_nontrivial=stats["distinct_wf_states_expanded"] + stats["distinct_states_at_last_depth"],
            rule="as for Graph; the state additionally contains domains and factors (dense weights)",
            samples=[{"kind": "FactorGraph", "history": [c]} for c in calls[:2]], exhaustive=True,
            extra=dict(stats, wall_s=timing["FactorGraph"])))
        # ---- HRG / FGG --------------------------------------------------------------
        for cls, depth in (("HRG", 3 if not ctx.thorough else 4), ("FGG", 3 if not ctx.thorough else 4)):
            t0 = time.time()
            calls = hrg_calls(cls == "FGG")
            stats, fails = bfs_hrg([cls, "str=S"], calls, depth, ctx.jobs, pool=pool)
            timing[cls] = round(time.time() - t0, 1)
            _to_failures(rep, fails, counts, stats.pop("failing_transitions_by_key"))
            rep.bounded.append(Bounded(
                function=f"{cls} call histories",
                bound=f"{cls}('S') followed by all call sequences of length <= {depth} over {len(calls)} calls/state "
                      f"(rhs graphs {sorted(RHS)} rebuilt per call so the rule owns its graph; labels {HRG_LABELS})",
                cases=stats["transitions"], distinct_nontrivial=stats["distinct_wf_states_expanded"] + stats["distinct_states_at_last_depth"],
                rule="breadth-first over (state, call); dedupe by canonical form of (start, label tables, rules in order"
                     + (", domains, factors)" if cls == "FGG" else ")"),
                samples=[{"kind": cls, "history": [[cls, "str=S"], c]} for c in calls[:2]], exhaustive=True,
                extra=dict(stats, wall_s=timing[cls])))
        # ---- constructors -----------------------------------------------------------
        n1, f1 = check_constructors()
        n2, f2 = check_element_constructors()
        _to_failures(rep, f1 + f2, counts)
        rep.bounded.append(Bounded(function="constructors HRG/FGG(start), Node, Edge, EdgeLabel, HRGRule",
                                   bound="every start argument in {str, nonterminal label, terminal label, None}; Edge over 14 labels x node tuples of length <= 2; "
                                         "HRGRule over 6 lhs labels x 7 rhs graphs",
                                   cases=n1 + n2, distinct_nontrivial=n1 + n2, rule="enumeration; every case is a distinct recipe",
                                   samples=[{"kind": "ctor", "ctor": ["HRG", None]}], exhaustive=True))
        own = run_ownership_histories()
    rep.extra["ownership_histories"] = own
    rep.extra["transitions"] = sum(b.cases for b in rep.bounded if "histories" in b.function)
    rep.extra["states"] = sum(b.distinct_nontrivial for b in rep.bounded if "histories" in b.function)
    rep.extra["failure_counts_by_key"] = dict(sorted(counts.items()))
    rep.extra["wall_s_by_part"] = timing
    rep.assumptions.append("ownership precondition: a Graph handed to a rule is not mutated through an outside alias "
                           "(histories that do so are run and listed under ownership_histories, not counted as failures)")
    rep.explanation = ("Bounded BFS over API call histories on the real classes; wf oracle, exception-safety by snapshot, "
                       "copy and == contracts evaluated after every call.")
    return rep


# ----------------------------------------------------------------------------------------
# replay
# ----------------------------------------------------------------------------------------
def replay_case(case: dict) -> bool:
    """True iff the recorded violation reproduces on the real code."""
    kind = case["kind"]
    with warnings.catch_warnings():
        warnings.simplefilter("ignore")
        if kind in ("Graph", "FactorGraph"):
            hist = case["history"]
            _, _, _, fails = expand_graph_state(hist[:-1], [hist[-1]], kind)
        elif kind in ("HRG", "FGG"):
            hist = case["history"]
            _, _, _, fails = expand_hrg_state(hist[:-1], [hist[-1]])
        elif kind == "ctor":
            _, fails = check_constructors()
            fails = [f for f in fails if f["case"]["ctor"] == case["ctor"]]
        else:
            _, fails = check_element_constructors()
            fails = [f for f in fails if f["case"] == case]
    hit = [f for f in fails if kind in ("ctor",) or "clause" not in case or
           (f["case"].get("clause") == case["clause"] and f["case"].get("keypart") == case["keypart"])]
    for f in hit[:3]:
        print(f"[C16 replay] {f['obligation']} key={f['key']}\n   {f['what']}\n   {f['detail'][:600]}")
    if not hit:
        print("[C16 replay] no violation observed for", json.dumps(case))
    return bool(hit)
