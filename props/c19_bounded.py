"""C19 bounded contract checker -- strongly connected components are correct and dependency-ordered.

Runs the real fggs.utils.scc and fggs.utils.nonterminal_graph on an enumerated scope and
evaluates the contract of the property text against independent oracles (transitive closure
on bitmasks; the dependency relation recomputed from all_rules() / from the recipe).
BOUNDED, never counted as proved.

Case recipes (JSON):
  {"fn": "scc", "n": 3, "adj": [[1], [2, 0], []], "order": [2, 0, 1], "names": "int"|"str"}
      vertex i is i or STR_NAMES[i]; the outer dict is filled in `order`, the inner dict of
      vertex i in the order of adj[i].
  {"fn": "ntg", "start": "S", "declared": ["W"], "rules": [["S", ["a", "X"]], ["X", []]]}
      an HRG: labels S,W (arity 0) X,Z,a (arity 1) Y,b (arity 2); a,b terminal; `declared`
      labels are only registered with add_edge_label; each rule is (lhs, labels of the rhs edges).
"""
from __future__ import annotations
import hashlib, itertools, json, random, time, warnings
from typing import Any, Dict, List, Tuple

from vf.core import Ctx, Report, Bounded, Failure

MODULE = "props.c19_bounded"
STR_NAMES = ["q", "b", "x", "a", "m", "c", "z", "d"]
MAX_FAIL_PER_KEY = 3


def canon(case) -> str:
    return json.dumps(case, sort_keys=True, separators=(",", ":"))


# ============================================================================= scc

def vname(names, i):
    return i if names == "int" else STR_NAMES[i]


def build_scc_graph(case) -> Dict[Any, Dict[Any, None]]:
    nm = case["names"]
    g: Dict[Any, Dict[Any, None]] = {}
    for i in case["order"]:
        g[vname(nm, i)] = {vname(nm, j): None for j in case["adj"][i]}
    return g


def closure(n, adj) -> List[int]:
    """reflexive-transitive closure as bitmasks (Warshall)."""
    reach = [(1 << i) for i in range(n)]
    for i in range(n):
        for j in adj[i]:
            reach[i] |= 1 << j
    for k in range(n):
        rk = reach[k]
        for i in range(n):
            if reach[i] >> k & 1:
                reach[i] |= rk
    return reach


def snapshot(g):
    return [(k, list(v.items())) for k, v in g.items()]


def check_scc_case(case, reach=None) -> List[Tuple[str, str]]:
    from fggs import utils as U
    n, adj, nm = case["n"], case["adj"], case["names"]
    if reach is None:
        reach = closure(n, adj)
    g = build_scc_graph(case)
    before = snapshot(g)
    try:
        comps = U.scc(g)
    except Exception as e:
        return [("returns", f"observed {type(e).__name__}: {e}; expected a list of components")]
    out = []
    if snapshot(g) != before:
        out.append(("frame", "scc mutated its argument"))
    if not isinstance(comps, list) or any(not isinstance(c, dict) for c in comps):
        return out + [("shape", f"observed {type(comps).__name__}; expected List[Dict]")]
    idx = {vname(nm, i): i for i in range(n)}
    compof: Dict[int, int] = {}
    shown = [list(c) for c in comps]
    for ci, c in enumerate(comps):
        if len(c) == 0:
            out.append(("partition", f"component {ci} is empty; comps={shown}"))
        for v in c:
            if v not in idx:
                out.append(("partition", f"{v!r} is not a vertex; comps={shown}"))
            elif idx[v] in compof:
                out.append(("partition", f"vertex {v!r} occurs in two components; comps={shown}"))
            else:
                compof[idx[v]] = ci
    if len(compof) != n:
        out.append(("partition", f"vertices {[vname(nm, i) for i in range(n) if i not in compof]} in no component; comps={shown}"))
    if out:
        return out
    for u in range(n):
        for v in range(u + 1, n):
            mutual = bool(reach[u] >> v & 1) and bool(reach[v] >> u & 1)
            if (compof[u] == compof[v]) != mutual:
                out.append(("exact", f"vertices {vname(nm, u)!r},{vname(nm, v)!r}: same component={compof[u] == compof[v]}, "
                                     f"mutually reachable={mutual}; comps={shown}"))
                return out
    for u in range(n):
        for v in adj[u]:
            if compof[u] < compof[v]:
                out.append(("order", f"edge {vname(nm, u)!r}->{vname(nm, v)!r} goes from component {compof[u]} into later "
                                     f"component {compof[v]}; comps={shown}"))
                return out
    return out


def scc_nontrivial(case):
    return any(j != i for i, row in enumerate(case["adj"]) for j in row)


def adj_of_mask(n, mask, inner):
    rows = []
    for i in range(n):
        row = [j for j in range(n) if mask >> (i * n + j) & 1]
        rows.append(row if inner == "asc" else row[::-1])
    return rows


def _init_worker():
    try:
        import torch
        torch.set_num_threads(1)
    except Exception:
        pass


def _work_scc(job):
    """job = (n, mask_lo, mask_hi, orders[(perm, names)], inners) -> (cases, distinct_nontrivial, fails)"""
    n, lo, hi, orders, inners = job
    cases = dnt = 0
    fails = []
    seen = set()
    for mask in range(lo, hi):
        adj_asc = adj_of_mask(n, mask, "asc")
        reach = closure(n, adj_asc)
        nt = any(j != i for i, row in enumerate(adj_asc) for j in row)
        for inner in inners:
            adj = adj_asc if inner == "asc" else [r[::-1] for r in adj_asc]
            for order, names in orders:
                case = {"fn": "scc", "n": n, "adj": adj, "order": list(order), "names": names}
                cases += 1
                if nt:
                    k = (mask, inner, tuple(order), names)
                    if k not in seen:      # distinct recipes (the tuple is injective on recipes)
                        seen.add(k)
                        dnt += 1
                for clause, detail in check_scc_case(case, reach):
                    fails.append({"case": case, "clause": clause, "detail": detail})
    return cases, dnt, fails


def _work_scc_random(job):
    seed_tag, count = job
    r = random.Random(seed_tag)
    cases = 0
    fails = []
    seen = set()
    for _ in range(count):
        n = r.choice([5, 6, 7])
        dens = r.choice([0.08, 0.15, 0.25, 0.4])
        adj = []
        for i in range(n):
            row = [j for j in range(n) if r.random() < dens]
            r.shuffle(row)
            adj.append(row)
        order = list(range(n))
        r.shuffle(order)
        case = {"fn": "scc", "n": n, "adj": adj, "order": order, "names": r.choice(["int", "int", "str"])}
        cases += 1
        if scc_nontrivial(case):
            seen.add(canon(case))
        for clause, detail in check_scc_case(case):
            fails.append({"case": case, "clause": clause, "detail": detail})
    return cases, seen, fails


# ============================================================================= nonterminal_graph

ARITY = {"S": 0, "W": 0, "X": 1, "Z": 1, "a": 1, "Y": 2, "b": 2}
TERMINALS = ("a", "b")


def build_hrg(case):
    """-> (hrg, labels by name)"""
    import fggs
    NL = fggs.NodeLabel("N")
    lab = {nm: fggs.EdgeLabel(nm, (NL,) * ar, is_terminal=(nm in TERMINALS), is_nonterminal=(nm not in TERMINALS))
           for nm, ar in ARITY.items()}
    h = fggs.HRG(lab[case["start"]])
    for nm in case.get("declared", []):
        h.add_edge_label(lab[nm])
    for ri, (lhs, rhs_labels) in enumerate(case["rules"]):
        gr = fggs.Graph()
        nn = max(2, ARITY[lhs])
        nodes = [fggs.Node(NL, id=f"r{ri}n{k}") for k in range(nn)]
        for nd in nodes:
            gr.add_node(nd)
        gr.ext = nodes[:ARITY[lhs]]
        for k, nm in enumerate(rhs_labels):
            gr.new_edge(nm, [nodes[(k + i) % nn] for i in range(ARITY[nm])],
                        is_terminal=(nm in TERMINALS), is_nonterminal=(nm not in TERMINALS), id=f"r{ri}e{k}")
        # a right-hand side that once carried an edge with another label (added, then removed again -- as after
        # an edit or a hyperedge replacement): the label stays in the graph's own label table, but it labels no edge
        for k, nm in enumerate(case.get("stale", {}).get(str(ri), [])):
            e = gr.new_edge(nm, [nodes[i % nn] for i in range(ARITY[nm])],
                            is_terminal=(nm in TERMINALS), is_nonterminal=(nm not in TERMINALS), id=f"r{ri}s{k}")
            gr.remove_edge(e)
        h.new_rule(lhs, gr)
    return h, lab


def expected_ntg(case):
    keys = {case["start"]} | set(case.get("declared", []))
    edges = set()
    for lhs, rhs in case["rules"]:
        keys.add(lhs)
        for nm in rhs:
            if nm not in TERMINALS:
                keys.add(nm)
                edges.add((lhs, nm))
    return {k for k in keys if k not in TERMINALS}, edges


def check_ntg_case(case) -> List[Tuple[str, str]]:
    from fggs import utils as U
    with warnings.catch_warnings():
        warnings.simplefilter("ignore")
        h, lab = build_hrg(case)
        try:
            g = U.nonterminal_graph(h)
        except Exception as e:
            return [("returns", f"observed {type(e).__name__}: {e}; expected a dependency graph")]
    out = []
    exp_keys, exp_edges = expected_ntg(case)
    # the same definition, recomputed on the real objects from all_rules()
    obj_edges = set()
    for r in h.all_rules():
        for e in r.rhs.edges():
            if e.label.is_nonterminal:
                obj_edges.add((r.lhs.name, e.label.name))
    if obj_edges != exp_edges:
        out.append(("harness", f"recipe edges {sorted(exp_edges)} != all_rules() edges {sorted(obj_edges)}"))
    bad = [k for k in g if not (hasattr(k, "is_nonterminal") and k.is_nonterminal)]
    if bad:
        out.append(("keys", f"keys that are not nonterminal EdgeLabels: {bad}"))
        return out
    keys = {k.name for k in g}
    if keys != exp_keys:
        out.append(("keys", f"observed keys {sorted(keys)}; expected every nonterminal {sorted(exp_keys)}"))
    got_edges = {(x.name, y.name) for x in g for y in g[x]}
    if got_edges != exp_edges:
        out.append(("edges", f"observed edges {sorted(got_edges)}; expected {sorted(exp_edges)}"))
    for x in g:
        for y in g[x]:
            if y not in g:
                out.append(("closed", f"successor {y.name} of {x.name} is not a key"))
    try:
        comps = U.scc(g)
    except Exception as e:
        out.append(("scc_consumes", f"scc(nonterminal_graph(h)) raised {type(e).__name__}: {e}"))
        return out
    compof = {}
    for ci, c in enumerate(comps):
        for v in c:
            compof[v.name] = ci
    if set(compof) != exp_keys:
        out.append(("every_nonterminal_scheduled", f"scheduled {sorted(compof)}; expected {sorted(exp_keys)}"))
    else:
        for x, y in sorted(exp_edges):
            if compof[x] < compof[y]:
                out.append(("dependency_order", f"{x} depends on {y} but is scheduled in an earlier component; "
                                                f"comps={[[v.name for v in c] for c in comps]}"))
                break
    # "... and every nonterminal receives a value": the consumer of the schedule, on grammars in which some nonterminal is not
    # needed by the start symbol (checked on a deterministic sample: those grammars, hashed into 1 of 4 buckets)
    reach, todo = set(), [case["start"]]
    while todo:
        x = todo.pop()
        if x in reach: continue
        reach.add(x)
        todo += [y for (a, y) in exp_edges if a == x]
    if exp_keys - reach and not out and int(hashlib.sha256(canon(case).encode()).hexdigest(), 16) % 4 == 0:
        out += every_nonterminal_gets_a_value(h, lab, exp_keys)
    return out


def every_nonterminal_gets_a_value(h, lab, exp_keys) -> List[Tuple[str, str]]:
    import fggs, torch
    with warnings.catch_warnings():
        warnings.simplefilter("ignore")
        try:
            fgg = fggs.FGG.from_hrg(h)
            fgg.new_finite_domain("N", [0, 1])
            for nm in TERMINALS:
                if fgg.has_edge_label_name(nm):
                    fgg.new_finite_factor(nm, torch.full((2,) * ARITY[nm], 0.125))
            vals = fggs.sum_products(fgg, method="fixed-point", kmax=30, tol=1e-3)
        except Exception as e:
            return [("every_nonterminal_gets_a_value", f"sum_products raised {type(e).__name__}: {str(e)[:120]}; expected a value for every nonterminal")]
    got = {el.name for el in vals if el.is_nonterminal}
    if got != set(exp_keys):
        return [("every_nonterminal_gets_a_value", f"sum_products returned values for {sorted(got)}; expected every nonterminal {sorted(exp_keys)}")]
    return []


def ntg_nontrivial(case):
    return any(nm not in TERMINALS for _, rhs in case["rules"] for nm in rhs)


def ntg_exhaustive_cases():
    """all HRGs over nonterminals {S, X} (+ rhs-only Z), start S or X, 0-2 rules each,
    rhs a multiset of <= 2 labels from {a, S, X, Z}; with / without a declared-only W."""
    alpha = ["a", "S", "X", "Z"]
    rhss = [[]] + [[x] for x in alpha] + [[x, y] for i, x in enumerate(alpha) for y in alpha[i:]]
    per_nt = [[]] + [[r] for r in rhss] + [[r1, r2] for i, r1 in enumerate(rhss) for r2 in rhss[i:]]
    for rs in per_nt:
        for rx in per_nt:
            rules = [["S", r] for r in rs] + [["X", r] for r in rx]
            yield rules


def _work_ntg(chunk):
    cases = 0
    seen = set()
    fails = []
    for case in chunk:
        cases += 1
        if ntg_nontrivial(case):
            seen.add(canon(case))
        for clause, detail in check_ntg_case(case):
            fails.append({"case": case, "clause": clause, "detail": detail})
    return cases, seen, fails


def ntg_random_case(r):
    nts = ["S", "X", "Y"][:r.choice([1, 2, 3, 3])]
    alpha = ["a", "b", "S", "X", "Y", "Z"]
    rules = []
    for nt in nts:
        for _ in range(r.choice([0, 1, 1, 2])):
            rules.append([nt, [r.choice(alpha) for _ in range(r.choice([0, 1, 2, 3]))]])
    r.shuffle(rules)
    case = {"fn": "ntg", "start": r.choice(nts), "declared": r.choice([[], [], ["W"], ["W", "Y"]]), "rules": rules}
    return case


def probe_rhs_mutated_after_add_rule():
    """Informational only (not a contract clause): a rule's rhs gains a nonterminal edge
    after add_rule, so the HRG's label table is stale."""
    import fggs
    from fggs import utils as U
    h, lab = build_hrg({"fn": "ntg", "start": "S", "declared": [], "rules": [["S", ["a"]]]})
    r = h.all_rules()[0]
    nodes = list(r.rhs.nodes())
    r.rhs.new_edge("X", [nodes[0]], is_nonterminal=True, id="late")
    try:
        g = U.nonterminal_graph(h)
        closed = all(y in g for x in g for y in g[x])
        U.scc(g)
        return f"closed={closed}, scc ok"
    except Exception as e:
        return f"{type(e).__name__}: {e}"


# ============================================================================= driver

def run_bounded(ctx: Ctx) -> Report:
    import multiprocessing as mp
    t0 = time.time()
    rep = Report(property_id="C19", level="other")
    # import the library (and torch) once in the parent: forked workers inherit it (the import costs seconds)
    import fggs, torch
    torch.set_num_threads(1)
    rep.functions_under_contract = ["fggs.utils.scc", "fggs.utils.nonterminal_graph"]

    # ---- scc jobs
    jobs = []
    for n in range(0, 4):
        perms = list(itertools.permutations(range(n)))
        orders = [(p, "str" if k % 3 == 1 else "int") for k, p in enumerate(perms)]
        total = 1 << (n * n)
        jobs.append((n, 0, total, orders, ("asc", "desc")))
    perms4 = list(itertools.permutations(range(4)))
    orders4 = [(p, "str" if k % 3 == 1 else "int") for k, p in enumerate(perms4)]
    step = 1 << 9
    for lo in range(0, 1 << 16, step):
        jobs.append((4, lo, lo + step, orders4, ("asc", "desc")))
    rjobs = []
    n_rand = 0
    if ctx.thorough:
        r = ctx.rng("scc-random")
        per = 2500
        for k in range(80):
            rjobs.append((f"{ctx.seed}:C19:scc:{k}:{r.random()}", per))
        n_rand = per * 80

    # ---- nonterminal_graph cases
    ntg_cases = []
    for rules in ntg_exhaustive_cases():
        for start in ("S", "X"):
            ntg_cases.append({"fn": "ntg", "start": start, "declared": [], "rules": rules})
    n_ntg_exh = len(ntg_cases)
    # named corner cases
    ntg_cases += [
        {"fn": "ntg", "start": "S", "declared": [], "rules": []},                      # start without rules, nothing else
        {"fn": "ntg", "start": "S", "declared": ["W"], "rules": []},                   # declared-only nonterminal
        {"fn": "ntg", "start": "S", "declared": ["W", "Y"], "rules": [["X", ["Y", "Y", "Z"]]]},
        {"fn": "ntg", "start": "Y", "declared": [], "rules": [["S", ["Y"]], ["Y", ["X", "b"]], ["X", ["S", "a"]]]},
        {"fn": "ntg", "start": "X", "declared": ["W"], "rules": [["Y", ["Y"]], ["S", ["Z", "Z", "Z"]]]},
    ]
    # right-hand sides with a stale label (see build_hrg): "edge X->Y exactly when some rule for X HAS an rhs edge labelled Y"
    base = list(ntg_cases)
    for ci, c in enumerate(base):
        if c["rules"] and ci % (7 if not ctx.thorough else 2) == 0:
            for nm in ("S", "X", "Y"):
                if nm in ARITY and nm not in TERMINALS:
                    ntg_cases.append(dict(c, stale={"0": [nm]}))
    r = ctx.rng("ntg-random")
    n_ntg_rand = 200000 if ctx.thorough else 20000
    for _ in range(n_ntg_rand):
        ntg_cases.append(ntg_random_case(r))
    csz = 500
    ntg_chunks = [ntg_cases[i:i + csz] for i in range(0, len(ntg_cases), csz)]

    if ctx.jobs > 1:
        with mp.get_context("fork").Pool(ctx.jobs, initializer=_init_worker) as pool:
            a1 = pool.map_async(_work_scc, jobs, chunksize=1)
            a2 = pool.map_async(_work_scc_random, rjobs, chunksize=1)
            a3 = pool.map_async(_work_ntg, ntg_chunks, chunksize=1)
            res_scc, res_rand, res_ntg = a1.get(), a2.get(), a3.get()
    else:
        res_scc = [_work_scc(j) for j in jobs]
        res_rand = [_work_scc_random(j) for j in rjobs]
        res_ntg = [_work_ntg(c) for c in ntg_chunks]

    scc_cases = sum(x[0] for x in res_scc) + sum(x[0] for x in res_rand)
    rand_seen = set()
    for x in res_rand:
        rand_seen |= x[1]
    scc_dnt = sum(x[1] for x in res_scc) + len(rand_seen)   # exhaustive jobs are disjoint by (n, mask)
    ntg_n = sum(x[0] for x in res_ntg)
    ntg_seen = set()
    for x in res_ntg:
        ntg_seen |= x[1]

    b_scc = Bounded(
        function="fggs.utils.scc [partition, exact SCCs, dependency order, frame]",
        bound=("all digraphs with <= 4 vertices (self-loops, isolated vertices; 2^(n^2) graphs per n) x every insertion "
               "order of the outer dict x {ascending, descending} inner-dict order"
               + (f"; plus {n_rand} seeded random digraphs with 5-7 vertices, shuffled outer/inner orders" if ctx.thorough else "")),
        cases=scc_cases, distinct_nontrivial=scc_dnt,
        rule=("one case = (digraph, outer insertion order, inner insertion order, vertex naming int/str); oracle = Warshall "
              "closure on bitmasks; distinct = distinct canonical recipe; non-trivial = at least one edge between two "
              "different vertices"),
        samples=[{"fn": "scc", "n": 3, "adj": [[1], [2, 0], []], "order": [2, 0, 1], "names": "int"},
                 {"fn": "scc", "n": 4, "adj": [[1], [0], [3, 0], [2]], "order": [3, 1, 0, 2], "names": "str"}],
        exhaustive=True)
    b_scc.extra["exhaustive_for"] = "digraphs with <= 4 vertices; 5-7 vertices are seeded samples (thorough)"
    b_ntg = Bounded(
        function="fggs.utils.nonterminal_graph [keys, edges, closed, scc order]",
        bound=(f"all HRGs over nonterminals {{S,X}} + rhs-only Z, start S or X, 0-2 rules each, rhs = multiset of <= 2 labels "
               f"of {{a,S,X,Z}} ({n_ntg_exh} grammars); 5 named corner cases; {n_ntg_rand} seeded random HRGs with 1-3 "
               f"nonterminals, 0-2 rules each, 0-3 rhs edges over {{a,b,S,X,Y,Z}}, declared-only labels, any start"),
        cases=ntg_n, distinct_nontrivial=len(ntg_seen),
        rule=("one case = HRG recipe built with fggs.HRG/Graph/new_edge/new_rule/add_edge_label; expected keys and edges "
              "computed from the recipe and cross-checked against all_rules(); distinct = distinct canonical recipe; "
              "non-trivial = some rhs edge is labelled by a nonterminal"),
        samples=[ntg_cases[n_ntg_exh + 2], ntg_cases[n_ntg_exh + 3]],
        exhaustive=False)
    b_ntg.extra["exhaustive_for"] = "the two-nonterminal family stated in the bound; the rest is sampled"
    with warnings.catch_warnings():
        warnings.simplefilter("ignore")
        b_ntg.extra["probe_rhs_mutated_after_add_rule (informational, not a clause)"] = probe_rhs_mutated_after_add_rule()

    perkey: Dict[str, int] = {}
    allf = [f for x in res_scc for f in x[2]] + [f for x in res_rand for f in x[2]] + [f for x in res_ntg for f in x[2]]
    allf.sort(key=lambda f: (len(canon(f["case"])), canon(f["case"]), f["clause"]))
    seen_f = set()
    for f in allf:
        case = f["case"]
        ident = canon(case) + "|" + f["clause"]
        if ident in seen_f:
            continue
        seen_f.add(ident)
        fn = "scc" if case["fn"] == "scc" else "nonterminal_graph"
        key = f"{fn}|{f['clause']}"
        perkey[key] = perkey.get(key, 0) + 1
        if perkey[key] > MAX_FAIL_PER_KEY:
            continue
        rep.failures.append(Failure(obligation=f"{fn}.{f['clause']}",
                                    what=f"{fn} on {canon({k: v for k, v in case.items() if k != 'fn'})}: {f['clause']}",
                                    replay={"module": MODULE, "func": "replay_case", "case": dict(case, clause=f["clause"])},
                                    detail=f["detail"][:500], key=key))
    b_scc.extra["failures_per_key"] = {k: v for k, v in perkey.items() if k.startswith("scc|")}
    b_ntg.extra["failures_per_key"] = {k: v for k, v in perkey.items() if k.startswith("nonterminal_graph|")}
    rep.bounded += [b_scc, b_ntg]
    rep.extra["c19_bounded_wall_s"] = round(time.time() - t0, 2)
    return rep


def replay_case(case: dict) -> bool:
    case = dict(case)
    clause = case.pop("clause", None)
    if case["fn"] == "scc":
        print("graph:", build_scc_graph(case))
        fails = check_scc_case(case)
    else:
        print("hrg recipe:", canon(case))
        print("expected (keys, edges):", expected_ntg(case))
        fails = check_ntg_case(case)
    for c, d in fails:
        print(f"  VIOLATED {c}: {d}")
    if not fails:
        print("  contract holds")
    if clause is None:
        return bool(fails)
    return any(c == clause for c, _ in fails)
