"""C17 (bounded): conjunction generates exactly the paired derivations.

Real function: fggs.conjoin_hrgs.  Oracles (written here, independent of fggs.conjunction):
  * own `conjoinable` (same nodes by id+label, same external id list, same set of (nonterminal edge id, attachment ids));
  * expected conjoined rule for every conjoinable ordered pair (r1, r2);
  * the pairing of nonterminals is NOT read from the library: an injective map phi from pairs of nonterminals to the
    conjunction's nonterminals (type preserving) is searched such that the expected rules equal the actual rules as multisets;
  * all derivations up to height 3 of g1, g2 and of the conjunction, compared as multisets of canonical forms.

Recipes: HRG = {"start": labelref, "rules": [[lhs labelref, graph]]}, graph as in C15
({"nodes": [[name,label]], "edges": [[name,labelref,[node names]]], "ext": [names]}); a name starting with "_" has an
implicit id; a name starting with "_=" is implicit AND the same object in both grammars of the case.
"""
from __future__ import annotations
import itertools, json, multiprocessing, warnings
from collections import Counter
from typing import Any, Dict, List, Optional, Tuple

import torch
import fggs
from fggs import Graph, HRG, HRGRule, Node, Edge, NodeLabel, EdgeLabel, conjoin_hrgs
from vf.core import Ctx, Report, Bounded, Failure

MODULE = "props.c17_bounded"
PER_KEY_CAP = 3
HEIGHT = 3


def label(ref: str) -> EdgeLabel:
    head, typ = ref.rsplit(":", 1)
    name, kind = head[:-1], head[-1]
    return EdgeLabel(name, tuple(NodeLabel(c) for c in typ), is_terminal=(kind == "T"), is_nonterminal=(kind == "N"))


def label_ref(l: EdgeLabel) -> str:
    return f"{l.name}{'T' if l.is_terminal else 'N'}:{''.join(n.name for n in l.type)}"


def build_graph(rec, shared: Dict[str, Any]) -> Graph:
    g = Graph()
    nodes: Dict[str, Node] = {}
    for name, lab in rec["nodes"]:
        if name.startswith("_="):
            nd = shared.setdefault(("n", name), Node(NodeLabel(lab)))
        else:
            nd = Node(NodeLabel(lab), id=None if name.startswith("_") else name)
        nodes[name] = nd
        g.add_node(nd)
    for name, lr, att in rec["edges"]:
        if name.startswith("_="):
            e = shared.get(("e", name))
            if e is None:
                e = shared[("e", name)] = Edge(label(lr), [nodes[a] for a in att])
        else:
            e = Edge(label(lr), [nodes[a] for a in att], id=None if name.startswith("_") else name)
        g.add_edge(e)
    g.ext = [nodes[a] for a in rec.get("ext", [])]
    return g


def build_hrg(rec, shared) -> HRG:
    h = HRG(label(rec["start"]))
    for lr in rec.get("labels", []):
        h.add_edge_label(label(lr))
    for lhs, rhs in rec["rules"]:
        h.add_rule(HRGRule(label(lhs), build_graph(rhs, shared)))
    return h


# ----------------------------------------------------------------------------------------
# canonical content of rules / derivations
# ----------------------------------------------------------------------------------------
def idc(i):
    return i if isinstance(i, str) else ("~", i)


def eidc(i):
    """edge ids: implicit (int) ids carry no meaning beyond identity inside one graph -- the property does
    not ask the conjunction to preserve them (it cannot pass them to Edge()), so they compare as anonymous"""
    return i if isinstance(i, str) else "~"


def lab_c(l: EdgeLabel, ren=None):
    if l.is_nonterminal and ren is not None:
        return ren.get(l.name, ("?", l.name))
    return label_ref(l)


def rule_content(rule: HRGRule, ren=None):
    g = rule.rhs
    nts = frozenset(Counter((eidc(e.id), lab_c(e.label, ren), tuple(idc(n.id) for n in e.nodes)) for e in g.edges() if e.label.is_nonterminal).items())
    ts = Counter((label_ref(e.label), tuple(idc(n.id) for n in e.nodes)) for e in g.edges() if e.label.is_terminal)
    return (lab_c(rule.lhs, ren), frozenset((idc(n.id), n.label.name) for n in g.nodes()),
            tuple(idc(n.id) for n in g.ext), nts, frozenset(ts.items()))


def own_conjoinable(r1: HRGRule, r2: HRGRule) -> bool:
    n1 = {(n.id, n.label.name) for n in r1.rhs.nodes()}
    n2 = {(n.id, n.label.name) for n in r2.rhs.nodes()}
    if n1 != n2:
        return False
    if [n.id for n in r1.rhs.ext] != [n.id for n in r2.rhs.ext]:
        return False
    e1 = {(e.id, tuple(n.id for n in e.nodes)) for e in r1.rhs.edges() if e.label.is_nonterminal}
    e2 = {(e.id, tuple(n.id for n in e.nodes)) for e in r2.rhs.edges() if e.label.is_nonterminal}
    return e1 == e2


def pair(a: str, b: str):
    return ("P", a, b)


def expected_rule_content(r1: HRGRule, r2: HRGRule):
    by_id = {e.id: e for e in r2.rhs.edges() if e.label.is_nonterminal}
    nts = frozenset(Counter((eidc(e.id), pair(e.label.name, by_id[e.id].label.name), tuple(idc(n.id) for n in e.nodes))
                            for e in r1.rhs.edges() if e.label.is_nonterminal).items())
    ts = Counter((label_ref(e.label), tuple(idc(n.id) for n in e.nodes))
                 for r in (r1, r2) for e in r.rhs.edges() if e.label.is_terminal)
    return (pair(r1.lhs.name, r2.lhs.name), frozenset((idc(n.id), n.label.name) for n in r1.rhs.nodes()),
            tuple(idc(n.id) for n in r1.rhs.ext), nts, frozenset(ts.items()))


def derivations(h: HRG, lhs: EdgeLabel, height: int) -> List[tuple]:
    """All complete derivation trees of height <= `height`: (rule, ((edge id, subtree), ...))"""
    if height == 0:
        return []
    out = []
    for r in h.rules(lhs):
        nts = sorted((e for e in r.rhs.edges() if e.label.is_nonterminal), key=lambda e: repr(e.id))
        options = [derivations(h, e.label, height - 1) for e in nts]
        for combo in itertools.product(*options):
            out.append((r, tuple((ekey(e), c) for e, c in zip(nts, combo))))
    return out


def ekey(e):
    """child key of a nonterminal edge: its explicit id, or (implicit ids are not preserved by the
    conjunction) its attachment"""
    return e.id if isinstance(e.id, str) else ("~", tuple(idc(n.id) for n in e.nodes))


def deriv_canon(d, ren=None):
    r, ch = d
    return (rule_content(r, ren), tuple(sorted(((repr(i), deriv_canon(c, ren)) for i, c in ch), key=repr)))


def paired_canon(d1, d2) -> Optional[tuple]:
    """Canonical form of the conjunction derivation that the pair (d1, d2) corresponds to, or None if the pair is not
    same-shape / stepwise conjoinable."""
    r1, c1 = d1
    r2, c2 = d2
    if not own_conjoinable(r1, r2):
        return None
    k2 = dict(c2)
    if set(i for i, _ in c1) != set(k2):
        return None
    ch = []
    for i, sub in c1:
        p = paired_canon(sub, k2[i])
        if p is None:
            return None
        ch.append((repr(i), p))
    return (expected_rule_content(r1, r2), tuple(sorted(ch, key=repr)))


def hrg_snapshot(h: HRG):
    return (label_ref(h.start), sorted(l.name for l in h.node_labels()), sorted(label_ref(l) for l in h.edge_labels()),
            [(rule_content(r), [e.id for e in r.rhs.edges()], [n.id for n in r.rhs.nodes()]) for r in h.all_rules()])


class Collector:
    def __init__(self):
        self.fails: List[dict] = []
        self.counts: Dict[str, int] = {}

    def add(self, obligation, key, what, case, detail=""):
        self.counts[key] = self.counts.get(key, 0) + 1
        if self.counts[key] <= PER_KEY_CAP:
            self.fails.append({"obligation": obligation, "key": key, "what": what, "case": case, "detail": detail})


def genuine_conflict(h1: HRG, h2: HRG) -> List[str]:
    out = []
    for l1 in h1.edge_labels():
        for l2 in h2.edge_labels():
            if l1.name == l2.name and l1.is_terminal and l2.is_terminal and l1 != l2:
                out.append(l1.name)
    return out


def check_pair(case, col: Collector) -> dict:
    """case = {"kind":"pair","g1":hrg,"g2":hrg|"same","tags":[...]} -> stats"""
    shared: Dict[str, Any] = {}
    h1 = build_hrg(case["g1"], shared)
    h2 = h1 if case["g2"] == "same" else build_hrg(case["g2"], shared)
    tags = case.get("tags", [])
    tagk = "+".join(tags) if tags else "regular"
    stats = {"ok": True, "rules": 0, "derivs": 0, "raised": False}

    def bad(clause, key, msg, detail=""):
        stats["ok"] = False
        col.add(f"conjoin_hrgs.{clause}", f"conjoin_hrgs:{key}", f"[{tagk}] {msg}", case, detail)
    s1, s2 = hrg_snapshot(h1), hrg_snapshot(h2)
    conflict = genuine_conflict(h1, h2)
    try:
        c = conjoin_hrgs(h1, h2)
        got = "ok"
    except Exception as e:
        got = type(e).__name__
        err = e
    if hrg_snapshot(h1) != s1 or hrg_snapshot(h2) != s2:
        bad("frame", "input-mutated", "an input grammar was changed")
    if conflict:
        stats["raised"] = True
        if got != "ValueError":
            bad("raises", f"terminal-conflict-not-reported:got-{got}", f"terminal name(s) {conflict} have two types; observed {got}, expected ValueError")
        return stats
    if got != "ok":
        stats["raised"] = True
        import re
        msg = re.sub(r"\d{6,}", "<implicit id>", str(err))
        bad("raises", f"raises-without-terminal-conflict:{got}:{tagk}",
            f"no terminal-label conflict, observed {got}: {msg}; expected a conjunction", repr(err))
        return stats
    # ---- names: unique, fresh ----------------------------------------------------------
    old_names = {l.name for l in h1.edge_labels()} | {l.name for l in h2.edge_labels()}
    cn = list(c.nonterminals())
    for l in cn:
        if l.name in old_names:
            bad("names", "nonterminal-name-not-fresh", f"conjunction nonterminal {l.name!r} is a label name of an input grammar")
    for r in c.all_rules():
        for e in list(r.rhs.edges()):
            if c.get_edge_label(e.label.name) != e.label:
                bad("names", "one-label-per-name", f"rule edge label {label_ref(e.label)} vs table {label_ref(c.get_edge_label(e.label.name))}")
        if c.get_edge_label(r.lhs.name) != r.lhs:
            bad("names", "one-label-per-name", f"lhs {label_ref(r.lhs)}")
    # ---- rule-level structure ----------------------------------------------------------
    exp_rules = [expected_rule_content(r1, r2) for r1 in h1.all_rules() for r2 in h2.all_rules() if own_conjoinable(r1, r2)]
    stats["rules"] = len(exp_rules)
    used = []
    for rc in exp_rules:
        for p in [rc[0]] + [x[0][1] for x in sorted(rc[3], key=repr)]:
            if p not in used:
                used.append(p)
    sp = pair(h1.start.name, h2.start.name)
    if sp not in used:
        used.append(sp)
    types1 = {l.name: l.type for l in h1.nonterminals()}
    actual_rules = list(c.all_rules())
    phi = None
    cands = [[l for l in cn if l.type == types1[p[1]]] for p in used]
    exp_counter = Counter(exp_rules)
    if len(actual_rules) == len(exp_rules):
        for choice in itertools.product(*cands):
            if len({l.name for l in choice}) != len(choice):
                continue                                   # injective: paired names are unique
            ren = {l.name: p for l, p in zip(choice, used)}
            if ren.get(c.start.name) != sp:
                continue
            if Counter(rule_content(r, ren) for r in actual_rules) == exp_counter:
                phi = ren
                break
    if phi is None:
        naive = {f"<{p[1]},{p[2]}>": p for p in used}
        act = Counter(rule_content(r, naive) for r in actual_rules)
        bad("rules", "rule-structure",
            f"no injective type-preserving naming of the {len(used)} nonterminal pairs makes the {len(actual_rules)} rules of the conjunction "
            f"equal to the {len(exp_rules)} expected conjoined rules",
            f"conjunction nonterminals {[l.name for l in cn]}; expected-but-missing {list((exp_counter - act).keys())[:3]}; "
            f"unexpected {list((act - exp_counter).keys())[:3]}")
        return stats
    # ---- derivation bijection ---------------------------------------------------------
    HEIGHT = case.get("height", 3)
    d1 = derivations(h1, h1.start, HEIGHT)
    d2 = derivations(h2, h2.start, HEIGHT)
    dc = derivations(c, c.start, HEIGHT)
    expected = Counter()
    for a in d1:
        for b in d2:
            p = paired_canon(a, b)
            if p is not None:
                expected[p] += 1
    actual = Counter(deriv_canon(d, phi) for d in dc)
    stats["derivs"] = sum(expected.values())
    stats["d1"], stats["d2"] = len(d1), len(d2)
    if actual != expected:
        bad("derivations", "derivation-bijection",
            f"derivations of height <= {HEIGHT}: conjunction has {sum(actual.values())}, paired derivations {sum(expected.values())} "
            f"(g1 {len(d1)}, g2 {len(d2)})",
            f"missing {len(expected - actual)} extra {len(actual - expected)}")
    return stats


# ----------------------------------------------------------------------------------------
# families
# ----------------------------------------------------------------------------------------
N1, N2, N3 = ["n1", "A"], ["n2", "A"], ["n3", "B"]


def g1_pool(X="X", S="S"):
    return {
        "a1": [f"{S}N:", {"nodes": [N1], "edges": [["e1", f"{X}N:A", ["n1"]]], "ext": []}],
        "a2": [f"{S}N:", {"nodes": [N1, N2], "edges": [["e1", f"{X}N:A", ["n1"]], ["e2", f"{X}N:A", ["n2"]]], "ext": []}],
        "a6": [f"{S}N:", {"nodes": [N1], "edges": [["e1", f"{X}N:A", ["n1"]], ["t2", "aT:A", ["n1"]]], "ext": []}],
        "a3": [f"{X}N:A", {"nodes": [N1], "edges": [["t1", "aT:A", ["n1"]]], "ext": ["n1"]}],
        "a4": [f"{X}N:A", {"nodes": [N1, N2], "edges": [["e1", f"{X}N:A", ["n2"]], ["t1", "bT:AA", ["n1", "n2"]]], "ext": ["n1"]}],
        "a5": [f"{X}N:A", {"nodes": [N1, N3], "edges": [["t1", "cT:AB", ["n1", "n3"]]], "ext": ["n1"]}],
    }


def g2_pool(Y="Y", Z="Z", T="T"):
    return {
        "b1": [f"{T}N:", {"nodes": [N1], "edges": [["e1", f"{Y}N:A", ["n1"]]], "ext": []}],
        "b2": [f"{T}N:", {"nodes": [N1], "edges": [["e1", f"{Z}N:A", ["n1"]]], "ext": []}],
        "b3": [f"{T}N:", {"nodes": [N1, N2], "edges": [["e1", f"{Y}N:A", ["n1"]], ["e2", f"{Z}N:A", ["n2"]]], "ext": []}],
        "b4": [f"{Y}N:A", {"nodes": [N1], "edges": [["u1", "pT:A", ["n1"]]], "ext": ["n1"]}],
        "b5": [f"{Y}N:A", {"nodes": [N1], "edges": [["u1", "qT:A", ["n1"]]], "ext": ["n1"]}],
        "b6": [f"{Y}N:A", {"nodes": [N1, N2], "edges": [["e1", f"{Y}N:A", ["n2"]], ["u1", "bT:AA", ["n1", "n2"]]], "ext": ["n1"]}],
        "b7": [f"{Z}N:A", {"nodes": [N1], "edges": [], "ext": ["n1"]}],
        "b8": [f"{Z}N:A", {"nodes": [N1, N2], "edges": [["e1", f"{Z}N:A", ["n1"]]], "ext": ["n1"]}],   # e1 attached to n1, not n2: skeleton only here
    }


def subsets(keys, lo, hi):
    out = []
    for k in range(lo, hi + 1):
        out += [list(c) for c in itertools.combinations(keys, k)]
    return out


def regular_cases(thorough: bool) -> List[dict]:
    p1, p2 = g1_pool(), g2_pool()
    g1s = [s + x for s in subsets(["a1", "a2", "a6"], 1, 2) for x in subsets(["a3", "a4", "a5"], 0, 2)]
    zs = subsets(["b7", "b8"], 0, 2) if thorough else [[], ["b7"], ["b7", "b8"]]
    g2s = [t + y + z for t in subsets(["b1", "b2", "b3"], 1, 2) for y in subsets(["b4", "b5", "b6"], 0, 2) for z in zs]
    cases = []
    for a in g1s:
        for b in g2s:
            cases.append({"kind": "pair", "tags": [], "height": 4 if thorough else 3,
                          "g1": {"start": "SN:", "rules": [p1[k] for k in a]},
                          "g2": {"start": "TN:", "rules": [p2[k] for k in b]}})
    return cases


def special_cases() -> List[dict]:
    cases = []
    p1, p2 = g1_pool(), g2_pool()
    full1 = {"start": "SN:", "rules": [p1[k] for k in ("a1", "a2", "a3", "a4")]}
    full2 = {"start": "TN:", "rules": [p2[k] for k in ("b1", "b3", "b4", "b6", "b7")]}
    # --- name clashes of the property text:  X + "Y,Z"  vs  "X,Y" + Z  -----------------
    q1 = {"start": "SN:", "rules": [
        ["SN:", {"nodes": [N1, N2], "edges": [["e1", "XN:A", ["n1"]], ["e2", "X,YN:A", ["n2"]]], "ext": []}],
        ["XN:A", {"nodes": [N1], "edges": [["t1", "aT:A", ["n1"]]], "ext": ["n1"]}],
        ["X,YN:A", {"nodes": [N1], "edges": [["t1", "bT:A", ["n1"]]], "ext": ["n1"]}],
        ["X,YN:A", {"nodes": [N1, N2], "edges": [["e1", "XN:A", ["n2"]]], "ext": ["n1"]}]]}
    q2 = {"start": "TN:", "rules": [
        ["TN:", {"nodes": [N1, N2], "edges": [["e1", "Y,ZN:A", ["n1"]], ["e2", "ZN:A", ["n2"]]], "ext": []}],
        ["Y,ZN:A", {"nodes": [N1], "edges": [["u1", "pT:A", ["n1"]]], "ext": ["n1"]}],
        ["ZN:A", {"nodes": [N1], "edges": [["u1", "qT:A", ["n1"]]], "ext": ["n1"]}],
        ["ZN:A", {"nodes": [N1, N2], "edges": [["e1", "Y,ZN:A", ["n2"]]], "ext": ["n1"]}]]}
    cases.append({"kind": "pair", "tags": ["name-clash-X+Y,Z-vs-X,Y+Z"], "g1": q1, "g2": q2})
    # --- the same nonterminal edges (by id) inserted in a different order in the two grammars: they are paired by id ---
    q2r = json.loads(json.dumps(q2))
    q2r["rules"][0][1]["edges"] = [["e2", "ZN:A", ["n2"]], ["e1", "Y,ZN:A", ["n1"]]]
    cases.append({"kind": "pair", "tags": ["nonterminal-edges-inserted-in-different-order"], "g1": q1, "g2": q2r})
    # --- same nodes, same external node SET, different external ORDER: not conjoinable -----------------------------
    o1 = {"start": "SN:", "rules": [
        ["SN:", {"nodes": [N1, N2], "edges": [["e1", "PN:AA", ["n1", "n2"]]], "ext": []}],
        ["PN:AA", {"nodes": [N1, N2], "edges": [["t1", "aT:A", ["n1"]]], "ext": ["n1", "n2"]}]]}
    o2 = {"start": "TN:", "rules": [
        ["TN:", {"nodes": [N1, N2], "edges": [["e1", "QN:AA", ["n1", "n2"]]], "ext": []}],
        ["QN:AA", {"nodes": [N1, N2], "edges": [["u1", "pT:A", ["n1"]]], "ext": ["n2", "n1"]}],
        ["QN:AA", {"nodes": [N1, N2], "edges": [["u2", "qT:A", ["n2"]]], "ext": ["n1", "n2"]}]]}
    cases.append({"kind": "pair", "tags": ["externals-in-different-order"], "g1": o1, "g2": o2})
    # both clashing pairs inside one rule (the two edges of the start rules pair crosswise)
    q2b = json.loads(json.dumps(q2))
    q2b["rules"][0][1]["edges"] = [["e1", "Y,ZN:A", ["n1"]], ["e2", "ZN:A", ["n2"]]]
    q1b = json.loads(json.dumps(q1))
    q1b["rules"][0][1]["edges"] = [["e1", "XN:A", ["n1"]], ["e2", "X,YN:A", ["n2"]]]
    q1b["rules"].append(["SN:", {"nodes": [N1, N2], "edges": [["e1", "X,YN:A", ["n1"]], ["e2", "XN:A", ["n2"]]], "ext": []}])
    cases.append({"kind": "pair", "tags": ["name-clash-all-four-pairs"], "g1": q1b, "g2": q2b})
    # --- a terminal already named "<X,Y>" / "<S,T>" ; a nonterminal of g1 already named "<X,Y>" ------------
    for tname in ("<X,Y>", "<S,T>", "<X,Y>_1"):
        g1 = json.loads(json.dumps(full1))
        g1["rules"][2][1]["edges"].append(["t9", f"{tname}T:A", ["n1"]])
        cases.append({"kind": "pair", "tags": [f"terminal-named-{tname}"], "g1": g1, "g2": full2})
    g1 = json.loads(json.dumps(full1))
    g1["rules"].append(["<X,Y>N:A", {"nodes": [N1], "edges": [], "ext": ["n1"]}])
    g1["rules"][0][1]["edges"] = [["e1", "<X,Y>N:A", ["n1"]]]
    cases.append({"kind": "pair", "tags": ["g1-nonterminal-named-<X,Y>"], "g1": g1, "g2": full2})
    g2 = json.loads(json.dumps(full2))
    g2["labels"] = ["<S,T>N:A", "<X,Y>T:"]
    cases.append({"kind": "pair", "tags": ["g2-unused-labels-named-like-pairs"], "g1": full1, "g2": g2})
    # --- genuine terminal conflicts, and non-conflicts -----------------------------------------------------
    g2 = json.loads(json.dumps(full2))
    g2["rules"][2][1] = {"nodes": [N1, N2], "edges": [["u1", "aT:AA", ["n1", "n2"]]], "ext": ["n1"]}
    cases.append({"kind": "pair", "tags": ["genuine-terminal-conflict"], "g1": full1, "g2": g2})
    g2 = json.loads(json.dumps(full2))
    g2["labels"] = ["aT:"]
    cases.append({"kind": "pair", "tags": ["genuine-terminal-conflict-unused-label"], "g1": full1, "g2": g2})
    g2 = json.loads(json.dumps(full2))                        # 'a' terminal in g1, nonterminal in g2: not a terminal conflict
    for r in g2["rules"]:
        r[0] = r[0].replace("ZN:", "aN:")
        for e in r[1]["edges"]:
            e[1] = e[1].replace("ZN:", "aN:")
    cases.append({"kind": "pair", "tags": ["terminal-in-g1-nonterminal-in-g2"], "g1": full1, "g2": g2})
    g2 = json.loads(json.dumps(full2))                        # same nonterminal names in both grammars
    for r in g2["rules"]:
        r[0] = r[0].replace("YN:", "XN:").replace("TN:", "SN:")
        for e in r[1]["edges"]:
            e[1] = e[1].replace("YN:", "XN:")
    g2["start"] = "SN:"
    cases.append({"kind": "pair", "tags": ["same-nonterminal-names"], "g1": full1, "g2": g2})
    # --- same node id, different label: never conjoinable ---------------------------------------------------
    g2 = json.loads(json.dumps(full2))
    g2["rules"].append(["YN:A", {"nodes": [N1, ["n2", "B"]], "edges": [["e1", "YN:A", ["n1"]], ["u1", "cT:AB", ["n1", "n2"]]], "ext": ["n1"]}])
    cases.append({"kind": "pair", "tags": ["same-node-id-other-label"], "g1": full1, "g2": g2})
    # --- implicit terminal edge ids in both (distinct objects): the normal way to write grammars ------------
    def implicit_terminals(g, prefix):
        g = json.loads(json.dumps(g))
        for r in g["rules"]:
            for e in r[1]["edges"]:
                if e[1].split(":")[0].endswith("T"):
                    e[0] = "_" + prefix + e[0]
        return g
    cases.append({"kind": "pair", "tags": ["implicit-terminal-edge-ids"], "g1": implicit_terminals(full1, "x"), "g2": implicit_terminals(full2, "y")})
    # --- shared implicit node / nonterminal-edge ids (same objects in both grammars) ------------------------
    s1 = {"start": "SN:", "rules": [["SN:", {"nodes": [["_=v", "A"]], "edges": [["_=k", "XN:A", ["_=v"]]], "ext": []}],
                                    ["XN:A", {"nodes": [["_=w", "A"]], "edges": [["t1", "aT:A", ["_=w"]]], "ext": ["_=w"]}]]}
    s2 = {"start": "SN:", "rules": [["SN:", {"nodes": [["_=v", "A"]], "edges": [["_=k", "XN:A", ["_=v"]]], "ext": []}],
                                    ["XN:A", {"nodes": [["_=w", "A"]], "edges": [["u1", "pT:A", ["_=w"]]], "ext": ["_=w"]}]]}
    cases.append({"kind": "pair", "tags": ["shared-implicit-ids"], "g1": s1, "g2": s2})
    # --- both grammars use the SAME terminal edge id in conjoinable rules ------------------------------------
    g2 = json.loads(json.dumps(full2))
    for r in g2["rules"]:
        for e in r[1]["edges"]:
            if e[0] == "u1":
                e[0] = "t1"
    cases.append({"kind": "pair", "tags": ["shared-terminal-edge-id"], "g1": full1, "g2": g2})
    cases.append({"kind": "pair", "tags": ["shared-terminal-edge-id", "equal-grammars-built-twice"], "g1": full1, "g2": json.loads(json.dumps(full1))})
    # --- a grammar conjoined with itself -------------------------------------------------------------------
    cases.append({"kind": "pair", "tags": ["self-conjunction"], "g1": full1, "g2": "same"})
    cases.append({"kind": "pair", "tags": ["self-conjunction", "implicit-terminal-edge-ids"], "g1": implicit_terminals(full1, "x"), "g2": "same"})
    noterm = {"start": "SN:", "rules": [["SN:", {"nodes": [N1], "edges": [["e1", "XN:A", ["n1"]]], "ext": []}],
                                        ["XN:A", {"nodes": [N1, N2], "edges": [["e1", "XN:A", ["n2"]]], "ext": ["n1"]}],
                                        ["XN:A", {"nodes": [N1], "edges": [], "ext": ["n1"]}]]}
    cases.append({"kind": "pair", "tags": ["self-conjunction", "no-terminal-edges"], "g1": noterm, "g2": "same"})
    imp = {"start": "SN:", "rules": [["SN:", {"nodes": [["_v", "A"]], "edges": [["_k", "XN:A", ["_v"]]], "ext": []}],
                                     ["XN:A", {"nodes": [["_w", "A"]], "edges": [], "ext": ["_w"]}]]}
    cases.append({"kind": "pair", "tags": ["self-conjunction", "implicit-nonterminal-edge-ids", "no-terminal-edges"], "g1": imp, "g2": "same"})
    # --- implicit (int) and explicit (str) nonterminal edge ids mixed in one rule --------------------------
    m1 = {"start": "SN:", "rules": [["SN:", {"nodes": [N1, N2], "edges": [["e1", "XN:A", ["n1"]], ["_=k", "XN:A", ["n2"]]], "ext": []}],
                                    ["XN:A", {"nodes": [N1], "edges": [["t1", "aT:A", ["n1"]]], "ext": ["n1"]}]]}
    m2 = {"start": "TN:", "rules": [["TN:", {"nodes": [N1, N2], "edges": [["e1", "YN:A", ["n1"]], ["_=k", "XN:A", ["n2"]]], "ext": []}],
                                    ["YN:A", {"nodes": [N1], "edges": [["u1", "pT:A", ["n1"]]], "ext": ["n1"]}],
                                    ["XN:A", {"nodes": [N1], "edges": [["u2", "qT:A", ["n1"]]], "ext": ["n1"]}]]}
    cases.append({"kind": "pair", "tags": ["mixed-implicit-explicit-nonterminal-edge-ids"], "g1": m1, "g2": m2})
    # --- a recursive start symbol: below the root, start rules of one grammar pair with non-start rules of the other -----
    r1 = {"start": "SN:", "rules": [["SN:", {"nodes": [N1], "edges": [["t0", "aT:A", ["n1"]], ["e1", "SN:", []]], "ext": []}],
                                    ["SN:", {"nodes": [N1], "edges": [["t0", "bT:A", ["n1"]]], "ext": []}]]}
    r2 = {"start": "SN:", "rules": [["SN:", {"nodes": [N1], "edges": [["e1", "XN:", []]], "ext": []}],
                                    ["XN:", {"nodes": [N1], "edges": [["t0", "cT:A", ["n1"]], ["e1", "XN:", []]], "ext": []}],
                                    ["XN:", {"nodes": [N1], "edges": [["e1", "XN:", []]], "ext": []}],
                                    ["XN:", {"nodes": [N1], "edges": [], "ext": []}]]}
    cases.append({"kind": "pair", "tags": ["recursive-start-symbol", "start-rule-pairs-with-non-start-rule"], "g1": r1, "g2": r2})
    cases.append({"kind": "pair", "tags": ["recursive-start-symbol", "start-rule-pairs-with-non-start-rule"], "g1": r2, "g2": r1})
    return cases


def _worker(chunk):
    torch.set_num_threads(1)
    col = Collector()
    out = []
    with warnings.catch_warnings():
        warnings.simplefilter("ignore")
        for c in chunk:
            out.append(check_pair(c, col))
    return out, col.fails, col.counts


def run_bounded(ctx: Ctx) -> Report:
    torch.set_num_threads(1)
    rep = Report(property_id="C17", level="exploration")
    rep.functions_under_contract = ["fggs.conjunction.conjoin_hrgs"]
    groups = [("regular", regular_cases(ctx.thorough)), ("special", special_cases())]
    counts: Dict[str, int] = {}
    all_fails: List[dict] = []
    for gname, cases in groups:
        n = max(1, min(len(cases), ctx.jobs * 4))
        chunks = [cases[i::n] for i in range(n)]
        if ctx.jobs > 1 and len(cases) > 64:
            import gc
            gc.collect(); gc.freeze()            # keep the workers' collections off the inherited heap (copy-on-write storms)
            with multiprocessing.get_context("fork").Pool(min(ctx.jobs, 8)) as pool:
                res = pool.map(_worker, chunks)
        else:
            res = [_worker(ch) for ch in chunks]
        stats = [s for r in res for s in r[0]]
        for r in res:
            all_fails += r[1]
            for k, v in r[2].items():
                counts[k] = counts.get(k, 0) + v
        nontrivial = sum(1 for s in stats if s.get("derivs", 0) >= 2 and s.get("rules", 0) >= 2)
        rep.bounded.append(Bounded(
            function=f"conjoin_hrgs ({gname} pairs): rule structure, names, raise-iff, frame, derivation bijection",
            bound=("g1 over {S,X}: 1-2 of 3 start rules x 0-2 of 3 X-rules; g2 over {T,Y,Z}: 1-2 of 3 start rules x 0-2 of 3 Y-rules x Z-rule sets; "
                   "shared node ids n1,n2,n3 and nonterminal edge ids e1,e2; terminal edge ids distinct (t*/u*); several rules per skeleton, "
                   "skeletons present in one grammar only" if gname == "regular" else
                   "hand-written pairs: the name clashes of the text, labels already named like pairs, genuine terminal conflicts, same terminal "
                   "edge id in both grammars, self-conjunction, mixed implicit/explicit edge ids, shared implicit ids")
                  + f"; derivations of height <= {cases[0].get('height', 3)}",
            cases=len(cases), distinct_nontrivial=nontrivial,
            rule="product of rule subsets; non-trivial = at least 2 conjoined rules and at least 2 paired derivations; "
                 f"total conjoined rules {sum(s.get('rules', 0) for s in stats)}, paired derivations {sum(s.get('derivs', 0) for s in stats)}",
            samples=[cases[0], cases[len(cases) // 2], cases[-1]], exhaustive=True,
            extra={"cases_that_raised": sum(1 for s in stats if s.get("raised"))}))
    # keep the failures in a deterministic order, capped per key
    all_fails.sort(key=lambda f: (f["key"], json.dumps(f["case"], sort_keys=True)))
    kept: Dict[str, int] = {}
    for f in all_fails:
        kept[f["key"]] = kept.get(f["key"], 0) + 1
        if kept[f["key"]] > PER_KEY_CAP:
            continue
        rep.failures.append(Failure(obligation=f["obligation"], what=f["what"][:500], key=f["key"], detail=f["detail"][:1500],
                                    replay={"module": MODULE, "func": "replay_case", "case": f["case"]}))
    rep.extra["failure_counts_by_key"] = dict(sorted(counts.items()))
    rep.extra["quantifier_decisions"] = {
        "shared-terminal-edge-id": "INSIDE the quantifier: the text quantifies over HRGs 'over shared node/edge ids' and only excludes conflicting "
                                   "terminal LABELS; the conjoined rule must carry the terminal edges of both rules. Reported as a failure.",
        "self-conjunction": "INSIDE: (h, h) is a pair of HRGs over shared ids without conflicting terminal labels. Reported as a failure.",
        "shared-implicit-ids / implicit-nonterminal-edge-ids": "INSIDE: implicit ids are ids; they are shared when both grammars contain the same Edge "
                                                               "object, in particular when a grammar written without explicit ids is conjoined with itself. "
                                                               "Reported as a failure.",
        "mixed-implicit-explicit-nonterminal-edge-ids": "INSIDE (ids are ids), but only reachable by putting the same Edge object into both grammars; "
                                                        "reported as a failure with its own key (borderline, low severity).",
    }
    return rep


def replay_case(case: dict) -> bool:
    col = Collector()
    with warnings.catch_warnings():
        warnings.simplefilter("ignore")
        st = check_pair(case, col)
    for f in col.fails:
        print(f"[C17 replay] {f['obligation']} key={f['key']}\n   {f['what'][:500]}\n   {f['detail'][:500]}")
    if st["ok"]:
        print("[C17 replay] contract holds for", json.dumps(case)[:300])
    return not st["ok"]
