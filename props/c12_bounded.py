"""C12 (bounded, relational): results do not depend on how the grammar is written down.

Each grammar of the generator G is built in k presentations (the first is the plain one: recipe order, implicit
ids, RangeDomain, original names) by this file's own builder.  A presentation (JSON) may

  rule_order / node_order / edge_order   permute the order of add_rule / add_node / add_edge
  label_order, labels_first              permute the order of add_edge_label and declare labels before or after the rules
  ids                                    "implicit" | "explicit" (r<i>n<j>) | "renamed" (seeded strings whose sort order
                                         is unrelated to the insertion order)
  node_label_names / edge_label_names    rename node labels and edge labels (terminals, nonterminals, the start
                                         symbol keeps its role) consistently
  domains, domain_values                 RangeDomain, or FiniteDomain with (renamed) string / int / tuple values
  value_perm                             permute the values of a node label's domain together with every factor axis
                                         of that label (and hence the start tensor's axes)
  start_last                             build with FGG(None), add the rules bottom-up (the rules of the nonterminals a
                                         nonterminal depends on first, the start symbol's rules last; no label is declared
                                         beforehand) and set fgg.start afterwards -- the start symbol is then not the
                                         first registered edge label

Contract (same options on both sides; everything mapped back to the original names and value order):
  sum_product      {Real, Log, Viterbi, Bool} x {float32, float64} x {fixed-point, newton}: Bool exactly, else
                   |a-b| <= tol max(1,|a|,|b|) with tol 1e-9 (float64) / 1e-4 (float32); +-inf, NaN positions identical
  gradient         Real and Log, float64, seeded cotangent (permuted accordingly; Log: over the entries with finite log Z,
                   entries w.r.t. a log-weight of -inf not compared): same tolerance 1e-9 on every factor entry,
                   None only where the plain presentation has None or all zeros
  viterbi          for every start assignment with a finite best weight: total log-weight of the returned derivation
                   (Viterbi-semiring product of the terminal log-weights at the assigned values, walked through the
                   derivation tree; a factor -inf makes the product -inf, also next to +inf)
                   agrees within 1e-9 (float64 Viterbi semiring); a presentation that raises where the plain one returns
                   (or vice versa) violates the clause
Scope: grammars whose reference value in the semiring is finite-or-inf but convergent (divergent recursive grammars
are skipped for that semiring); viterbi on non-recursive grammars and on recursive ones without weights > 1.
Solver: tol 1e-12 / kmax 4000 (float64), tol 1e-6 (float32) -- the iterates of two presentations are the same real
numbers up to summation order (1e-16 relative per operation), so with these tolerances a flip of the stopping test
changes the result by < 1e-12 (float64) / 1e-6 (float32), well below 1e-9 / 1e-4.  A run that warns (budget
exhausted) is not compared.  On a failure the presentation is reduced to single aspects to name the responsible one.
"""
from __future__ import annotations
import itertools
import json
import math
import multiprocessing as mp
import os
import sys
import traceback
import warnings
from typing import Any, Dict, List, Optional, Tuple

from vf.core import Ctx, Report, Bounded, Failure
from vf.bounded import gen_fgg as G

PID = "C12"
MODULE = "props.c12_bounded"
INF = math.inf
TOL = {"float64": 1e-9, "float32": 1e-4, "bool": 0.0}
SOLVER = {"float64": (1e-12, 4000), "float32": (1e-6, 4000), "bool": (0.0, 4000)}
METHODS = ("fixed-point", "newton")
ASPECTS = ("rule_order", "node_order", "edge_order", "label_order", "ids", "label_names", "domains", "value_perm", "start_last")
BOUND = ("grammars of G (<= 3 nonterminals, <= 2 rules each, <= 3 nodes / 3 edges per rhs, arity <= 2, domain sizes 1..3; "
         "non-recursive with weights {0,.5,1,2,inf}+seeded and recursive families) x k presentations (quick 4, thorough 8) x "
         "{Real, Log, Viterbi, Bool} x {float32, float64} x {fixed-point, newton}; gradients Real/float64; viterbi "
         "derivation weight for every start assignment with a finite maximum")


# ------------------------------------------------------------------------------------------
# presentations
# ------------------------------------------------------------------------------------------

def _perm(rng, n):
    p = list(range(n))
    rng.shuffle(p)
    return p


def random_presentation(recipe, rng, everything: bool = False) -> dict:
    on = (lambda p: True) if everything else (lambda p: rng.random() < p)
    pres: Dict[str, Any] = {}
    n_rules = len(recipe["rules"])
    if on(0.6) and n_rules > 1:
        pres["rule_order"] = _perm(rng, n_rules)
    if on(0.6):
        pres["node_order"] = {str(i): _perm(rng, len(r["nodes"])) for i, r in enumerate(recipe["rules"]) if len(r["nodes"]) > 1}
    if on(0.6):
        pres["edge_order"] = {str(i): _perm(rng, len(r["edges"])) for i, r in enumerate(recipe["rules"]) if len(r["edges"]) > 1}
    if on(0.5):
        names = list(recipe["edge_labels"])
        rng.shuffle(names)
        pres["label_order"] = names
        pres["labels_first"] = rng.random() < 0.5
    if on(0.7):
        pres["ids"] = "renamed" if (everything or rng.random() < 0.6) else "explicit"
        pres["id_seed"] = rng.randrange(10 ** 6)
    if on(0.5):
        nl = sorted(recipe["node_labels"])
        el = sorted(recipe["edge_labels"])
        # reversed sort order, different lengths, characters that sort before / after the originals
        pres["node_label_names"] = {n: f"{chr(ord('z') - i)}~{n}" for i, n in enumerate(nl)}
        pres["edge_label_names"] = {n: f"{chr(ord('Z') - i)}{'_' * (i % 3)}{n}" for i, n in enumerate(el)}
    if on(0.5):
        pres["domains"] = "finite"
        style = rng.choice(("str", "int", "tuple"))
        vals = {}
        for n, size in recipe["node_labels"].items():
            if style == "str":
                vals[n] = [f"{n}:{chr(ord('q') - i)}" for i in range(size)]
            elif style == "int":
                vals[n] = [10 * (size - i) for i in range(size)]
            else:
                vals[n] = [[n, size - i] for i in range(size)]      # built as tuples
        pres["domain_values"] = vals
    if on(0.5):
        vp = {n: _perm(rng, size) for n, size in recipe["node_labels"].items() if size > 1}
        if vp:
            pres["value_perm"] = vp
    if on(0.4):
        pres["start_last"] = True
    return pres


def single_aspect(pres: dict, aspect: str) -> dict:
    keys = {"rule_order": ("rule_order",), "node_order": ("node_order",), "edge_order": ("edge_order",),
            "label_order": ("label_order", "labels_first"), "ids": ("ids", "id_seed"),
            "label_names": ("node_label_names", "edge_label_names"), "domains": ("domains", "domain_values"),
            "value_perm": ("value_perm",), "start_last": ("start_last",)}[aspect]
    return {k: pres[k] for k in keys if k in pres}


def aspects_of(pres: dict) -> List[str]:
    return [a for a in ASPECTS if single_aspect(pres, a)]


def _permute_nested(w, perms: List[Optional[List[int]]]):
    """new[i1..ik] = old[p1[i1]..pk[ik]] (p None = identity)."""
    if not perms:
        return w
    p = perms[0]
    idx = p if p is not None else range(len(w))
    return [_permute_nested(w[i], perms[1:]) for i in idx]


def _unpermute_nested(w, perms: List[Optional[List[int]]]):
    """inverse of _permute_nested: old[p[i]] = new[i]."""
    if not perms:
        return w
    p = perms[0]
    if p is None:
        return [_unpermute_nested(x, perms[1:]) for x in w]
    out: List[Any] = [None] * len(w)
    for i, x in enumerate(w):
        out[p[i]] = _unpermute_nested(x, perms[1:])
    return out


def build(recipe, pres: Optional[dict], sname: str, dtype: str, requires_grad: bool = False):
    """-> (fgg, info); info: rules/nodes/edges per recipe number, names (orig -> presented), perms per label."""
    import random
    import torch
    import fggs
    pres = pres or {}
    dt = torch.bool if sname == "Bool" else G._dtype(dtype)
    nl_name = pres.get("node_label_names") or {}
    el_name = pres.get("edge_label_names") or {}
    vperm = pres.get("value_perm") or {}
    nls = {n: fggs.NodeLabel(nl_name.get(n, n)) for n in recipe["node_labels"]}
    els = {}
    for name, d in recipe["edge_labels"].items():
        els[name] = fggs.EdgeLabel(el_name.get(name, name), [nls[x] for x in d["type"]],
                                   is_terminal=bool(d["terminal"]), is_nonterminal=not d["terminal"])
    start_last = bool(pres.get("start_last"))
    fgg = fggs.FGG(None if start_last else els[recipe["start"]])
    doms = {}
    for n, size in recipe["node_labels"].items():
        if pres.get("domains", "range") == "finite":
            vals = (pres.get("domain_values") or {}).get(n) or [f"{n}v{i}" for i in range(size)]
            vals = [tuple(v) if isinstance(v, list) else v for v in vals]
            p = vperm.get(n)
            if p is not None:                       # position i of the presented domain holds original value p[i]
                vals = [vals[j] for j in p]
            doms[n] = fggs.FiniteDomain(vals)
        else:
            doms[n] = fggs.RangeDomain(size)
        fgg.add_domain(nls[n], doms[n])
    label_order = pres.get("label_order") or list(recipe["edge_labels"])
    labels_first = pres.get("labels_first", True) and not start_last
    if labels_first:
        for name in label_order:
            fgg.add_edge_label(els[name])
    n_rules = len(recipe["rules"])
    id_mode = pres.get("ids", "implicit")
    idrng = random.Random(pres.get("id_seed", 0))
    used = set()
    def mkid(default):
        if id_mode == "implicit":
            return None
        if id_mode == "explicit":
            return default
        while True:
            s = "".join(idrng.choice("0123456789abcxyzABC_-") for _ in range(idrng.randint(1, 6)))
            if s not in used:
                used.add(s)
                return s
    info = {"rules": [None] * n_rules, "nodes": [None] * n_rules, "edges": [None] * n_rules, "labels": els,
            "perms": vperm}
    rule_seq = list(pres.get("rule_order") or range(n_rules))
    if start_last:
        # bottom-up: dependencies first (SCC order of the reference), the start symbol's rules at the very end; the
        # relative order of the rules of one left-hand side is kept
        depth = {x: i for i, comp in enumerate(G.sccs(recipe)) for x in comp}
        rule_seq.sort(key=lambda ri: (recipe["rules"][ri]["lhs"] == recipe["start"], depth[recipe["rules"][ri]["lhs"]]))
    for ri in rule_seq:
        r = recipe["rules"][ri]
        g = fggs.Graph()
        nodes = [fggs.Node(nls[l], id=mkid(f"r{ri}n{j}")) for j, l in enumerate(r["nodes"])]
        edges = [fggs.Edge(els[e["label"]], [nodes[j] for j in e["att"]], id=mkid(f"r{ri}e{k}"))
                 for k, e in enumerate(r["edges"])]
        for j in (pres.get("node_order") or {}).get(str(ri)) or range(len(nodes)):
            g.add_node(nodes[j])
        for k in (pres.get("edge_order") or {}).get(str(ri)) or range(len(edges)):
            g.add_edge(edges[k])
        g.ext = [nodes[j] for j in r["ext"]]
        rule = fggs.HRGRule(els[r["lhs"]], g)
        fgg.add_rule(rule)
        info["rules"][ri], info["nodes"][ri], info["edges"][ri] = rule, nodes, edges
    if not labels_first:
        for name in label_order:
            fgg.add_edge_label(els[name])
    if start_last:
        fgg.start = els[recipe["start"]]
    ws = G.convert_weights(recipe, sname)
    for name in label_order:
        if recipe["edge_labels"][name]["terminal"]:
            typ = recipe["edge_labels"][name]["type"]
            w = _permute_nested(ws[name], [vperm.get(l) for l in typ]) if typ else ws[name]
            t = torch.tensor(w, dtype=dt)
            fac = fggs.FiniteFactor([doms[x] for x in typ], t)
            if requires_grad:
                fac.weights.requires_grad_()        # on the PatternedTensor's physical tensor (size-1 axes are squeezed away)
            fgg.add_factor(els[name], fac)
    return fgg, info


# ------------------------------------------------------------------------------------------
# observations (everything mapped back to original names / value order)
# ------------------------------------------------------------------------------------------

def _exc_site(e: BaseException) -> str:
    tb = traceback.extract_tb(e.__traceback__)
    for fr in reversed(tb):
        if "/fggs/" in fr.filename:
            return f"{os.path.basename(fr.filename)}:{fr.name}"
    return "?"


def _start_perms(recipe, pres):
    vp = (pres or {}).get("value_perm") or {}
    return [vp.get(l) for l in recipe["edge_labels"][recipe["start"]]["type"]]


def sp_configs():
    for s in G.SEMIRINGS:
        for d in (("bool",) if s == "Bool" else ("float64", "float32")):
            for m in METHODS:
                yield s, d, m


def observe_sp(recipe, pres, s: str, d: str, m: str, cot=None) -> dict:
    """sum_product (and, when cot is given: Real gradient of sum(cot * Z)) in original indexing."""
    import torch
    import fggs
    tol, kmax = SOLVER[d]
    res: Dict[str, Any] = {"status": "ok", "warned": False}
    with warnings.catch_warnings(record=True) as wl:
        warnings.simplefilter("always")
        try:
            fgg, info = build(recipe, pres, s, d, requires_grad=cot is not None)
            z = fggs.sum_product(fgg, method=m, semiring=G.make_semiring(s, d), tol=tol, kmax=kmax)
            dense = z.to_dense()
            sp = _start_perms(recipe, pres)
            res["z"] = _unpermute_nested(dense.tolist(), sp) if sp else dense.tolist()
            if cot is not None:
                c = torch.tensor(_permute_nested(cot, sp) if sp else cot, dtype=dense.dtype)
                mask = torch.isfinite(dense)          # Log: entries with log Z = -inf stay out of the loss
                loss = (c[mask] * dense[mask]).sum()
                if loss.requires_grad:
                    loss.backward()
                grads = {}
                vp = (pres or {}).get("value_perm") or {}
                for name in G.terminals(recipe):
                    pname = ((pres or {}).get("edge_label_names") or {}).get(name, name)
                    gr = fgg.factors[pname].weights.grad
                    if gr is None:
                        grads[name] = None
                    else:
                        typ = recipe["edge_labels"][name]["type"]
                        g = gr.to_dense().tolist()
                        grads[name] = _unpermute_nested(g, [vp.get(l) for l in typ]) if typ else g
                res["grads"] = grads
                if s == "Log":      # the derivative w.r.t. a log-weight of -inf is not constrained
                    ws = G.convert_weights(recipe, "Log")
                    res["grad_skip"] = {t: [w == -INF for w in _flat(ws[t])] for t in G.terminals(recipe)}
        except Exception as e:  # noqa
            res = {"status": "exception", "exc": f"{type(e).__name__}@{_exc_site(e)}: {str(e)[:200]}", "warned": False}
        res["warned"] = any("maximum iteration" in str(w.message) for w in wl)
    return res


def _deriv_weight(recipe, info, deriv, wlog, perms, budget: List[int]) -> float:
    """sum of the terminal log-weights at the assigned values over the whole derivation tree; the assignment holds
    value numbers of the PRESENTED domains, so they are mapped back through the value permutation."""
    budget[0] -= 1
    if budget[0] < 0:
        raise RuntimeError("derivation has more than 3000 rule instances")
    ri = next((i for i, r in enumerate(info["rules"]) if r is deriv.rule), None)
    if ri is None:
        raise RuntimeError("derivation uses a rule that is not one of the grammar's rule objects")
    rr = recipe["rules"][ri]
    nodes, edges = info["nodes"][ri], info["edges"][ri]
    vals = []
    for j, node in enumerate(nodes):
        v = int(deriv.asst[node])
        p = perms.get(rr["nodes"][j])
        vals.append(p[v] if p is not None else v)
    total = 0.0
    for k, e in enumerate(rr["edges"]):
        idx = [vals[j] for j in e["att"]]
        if recipe["edge_labels"][e["label"]]["terminal"]:
            w = G.nested_get(wlog[e["label"]], idx)
        else:
            w = _deriv_weight(recipe, info, deriv.children[edges[k]], wlog, perms, budget)
        # product of the Viterbi semiring: a zero factor (log-weight -inf) makes the product zero, also next to +inf
        total = -INF if (w == -INF or total == -INF) else total + w
    return total


def observe_viterbi(recipe, pres, asst: Tuple[int, ...]) -> dict:
    import fggs
    with warnings.catch_warnings():
        warnings.simplefilter("ignore")
        try:
            fgg, info = build(recipe, pres, "Viterbi", "float64")
            perms = (pres or {}).get("value_perm") or {}
            sp = _start_perms(recipe, pres)
            # original value a is number q[a] in the presented domain (q = inverse permutation)
            pa = tuple((p.index(a) if p is not None else a) for a, p in zip(asst, sp))
            deriv = fggs.viterbi(fgg, pa, semiring=G.make_semiring("Viterbi", "float64"))
            w = _deriv_weight(recipe, info, deriv, G.convert_weights(recipe, "Viterbi"), perms, [3000])
            return {"status": "ok", "weight": w}
        except RecursionError:
            return {"status": "exception", "exc": "RecursionError"}
        except Exception as e:  # noqa
            return {"status": "exception", "exc": f"{type(e).__name__}@{_exc_site(e)}: {str(e)[:200]}"}


def _flat(x):
    return G.flatten(x) if isinstance(x, list) else [x]


def _num_differs(a, b, tol) -> bool:
    """NaN / +-inf positions identical; finite numbers within tol * max(1, |a|, |b|) (so an exact 0 and a rounding-size
    number agree: linear solves and summation order may turn one into the other)."""
    if isinstance(a, bool) or isinstance(b, bool):
        return bool(a) != bool(b)
    if a != a or b != b:
        return not (a != a and b != b)
    if a in (INF, -INF) or b in (INF, -INF):
        return a != b
    return abs(a - b) > tol * max(1.0, abs(a), abs(b))


def compare_sp(base: dict, other: dict, tol: float) -> Optional[Tuple[str, str]]:
    if base["status"] != "ok" or other["status"] != "ok":
        if base["status"] == other["status"]:
            return None
        return ("exception-in-one-presentation", f"plain: {base.get('exc') or 'returns ' + json.dumps(base.get('z'))}; "
                                                 f"presented: {other.get('exc') or 'returns ' + json.dumps(other.get('z'))}")
    if base["warned"] or other["warned"]:
        return None
    for i, (x, y) in enumerate(zip(_flat(base["z"]), _flat(other["z"]))):
        if _num_differs(x, y, tol):
            return ("value-differs", f"start entry {i}: plain {x!r} presented {y!r}; plain Z={json.dumps(base['z'])} "
                                     f"presented Z={json.dumps(other['z'])}")
    if "grads" in base:
        for t, gb in base["grads"].items():
            go = other["grads"].get(t)
            if gb is None and go is None:
                continue
            fb = _flat(gb) if gb is not None else None
            fo = _flat(go) if go is not None else None
            if fb is None:
                fb = [0.0] * len(fo)
            if fo is None:
                fo = [0.0] * len(fb)
            skip = (base.get("grad_skip") or {}).get(t)
            for i, (x, y) in enumerate(zip(fb, fo)):
                if skip is not None and skip[i]:
                    continue
                if _num_differs(x, y, tol):
                    return ("gradient-differs", f"factor {t} entry {i}: plain {x!r} presented {y!r}; plain grad "
                                                f"{json.dumps(gb)} presented grad {json.dumps(go)}")
    return None


def compare_vit(base: dict, other: dict) -> Optional[Tuple[str, str]]:
    if base["status"] != "ok" or other["status"] != "ok":
        if base["status"] == other["status"]:
            return None
        return ("exception-in-one-presentation", f"plain: {base.get('exc') or base.get('weight')}; presented: "
                                                 f"{other.get('exc') or other.get('weight')}")
    a, b = base["weight"], other["weight"]
    if _num_differs(a, b, 1e-9):
        return ("derivation-weight-differs", f"plain derivation log-weight {a!r} presented {b!r}")
    return None


# ------------------------------------------------------------------------------------------
# one grammar
# ------------------------------------------------------------------------------------------

def scope(recipe) -> Dict[str, Any]:
    sc: Dict[str, Any] = {}
    rec = G.is_recursive(recipe)
    for s in G.SEMIRINGS:
        r = G.reference_sum_products(recipe, s, max_iter=1500)
        sc[s] = (r.status == "finite")
        if s == "Viterbi":
            sc["viterbi_ref"] = r
    has_inf = any(G.num(w) == INF for t in recipe["weights"].values() for w in G.flatten(t))
    big = any(G.num(w) > 1 for t in recipe["weights"].values() for w in G.flatten(t)) and not recipe.get("weights_log")
    sc["viterbi"] = sc["Viterbi"] and (not rec or not big)
    sc["gradient"] = sc["Real"] and not has_inf
    return sc


def _cotangent(recipe, rng):
    shp = G.shape_of(recipe, recipe["start"])
    return G.nested_from(shp, lambda idx: round(rng.uniform(0.2, 1.0), 3))


def checks_for(recipe, sc, cot):
    """the list of observations made per presentation: ("sp", s, d, m, with_grad) and ("vit", asst)."""
    out = []
    for s, d, m in sp_configs():
        if not sc[s]:
            continue
        out.append(("sp", s, d, m, s in ("Real", "Log") and d == "float64" and sc["gradient"]))
    if sc["viterbi"]:
        ref = sc["viterbi_ref"][recipe["start"]]
        for a in G.start_assignments(recipe):
            v = G.nested_get(ref, a) if a else ref
            if v != -INF and v != INF and v == v:
                out.append(("vit", list(a)))
    return out


def run_check(recipe, pres, chk, cot) -> dict:
    if chk[0] == "sp":
        _, s, d, m, wg = chk
        return observe_sp(recipe, pres, s, d, m, cot if wg else None)
    return observe_viterbi(recipe, pres, tuple(chk[1]))


def compare_check(chk, base, other):
    if chk[0] == "sp":
        return compare_sp(base, other, TOL[chk[2]])
    return compare_vit(base, other)


def blame(recipe, pres, chk, cot, base) -> str:
    asp = aspects_of(pres)
    for a in asp:
        single = single_aspect(pres, a)
        if compare_check(chk, base, run_check(recipe, single, chk, cot)) is not None:
            return a
    return "combination(" + "+".join(asp) + ")"


def check_grammar(recipe, presentations: List[dict], seed_key: str):
    import random
    rng = random.Random(seed_key)
    sc = scope(recipe)
    cot = _cotangent(recipe, rng)
    checks = checks_for(recipe, sc, cot)
    fails: List[dict] = []
    n = 0
    stats: Dict[str, int] = {}
    base = [run_check(recipe, None, c, cot) for c in checks]
    feats = G.features_of(recipe)
    for c, b in zip(checks, base):
        if b["status"] != "ok":
            stats["plain-presentation-raises"] = stats.get("plain-presentation-raises", 0) + 1
        elif b.get("warned"):
            stats["plain-presentation-warns"] = stats.get("plain-presentation-warns", 0) + 1
    for pres in presentations:
        for c, b in zip(checks, base):
            n += 1
            o = run_check(recipe, pres, c, cot)
            r = compare_check(c, b, o)
            if r is None:
                continue
            kind, detail = r
            who = blame(recipe, pres, c, cot, b)
            if c[0] == "sp":
                what, clause = f"{c[1].lower()}/{c[2]}/{c[3]}", ("sum_product.gradient" if kind == "gradient-differs" else "sum_product.value")
                keyhead = f"sum_product:{c[1].lower()}:{c[3]}"
            else:
                what, clause, keyhead = f"viterbi start {c[1]}", "viterbi.derivation_weight", "viterbi"
            if kind.startswith("exception"):
                exc = (o.get("exc") or b.get("exc") or "?").split(":")[0]
                kind = f"{kind}:{exc}"
            if "zero_next_to_inf" in feats:
                who += ":zero-next-to-inf"
            fails.append({"clause": clause, "kind": kind, "key": f"{keyhead}:{kind}:{who}",
                          "detail": f"{what}, presentation aspects {aspects_of(pres)} (responsible: {who}): {detail}",
                          "case": {"recipe": recipe, "presentation": pres, "check": list(c), "cotangent": cot}})
    return fails, n, stats, sc


def _worker(chunk):
    import torch
    torch.set_num_threads(1)
    out = []
    for recipe, presentations in chunk:
        fl, n, st, sc = check_grammar(recipe, presentations, "c12:" + G.canonical(recipe))
        out.append((fl, n, st, {k: bool(v) for k, v in sc.items() if k != "viterbi_ref"}))
    return out


def handwritten() -> List[dict]:
    """two rules of one nonterminal, one of them 0 x inf at some start assignment (its value there is 0), the other finite:
    the shape on which the order of the rules is visible to a max that does not treat 0 x inf as 0."""
    T, N = True, False
    out = [G._mk({"N0": 2}, {"S": (["N0"], N), "a": (["N0"], T), "b": (["N0"], T), "c": (["N0"], T)}, "S",
                 [("S", ["N0"], [("a", [0]), ("b", [0])], [0]), ("S", ["N0"], [("c", [0])], [0])],
                 {"a": [0.0, 1.0], "b": [G.INF, 2.0], "c": [0.5, 0.25]}, {"family": "zero-times-inf-rule-next-to-finite-rule"}),
           G._mk({"N0": 2}, {"S": ([], N), "X": (["N0"], N), "d": ([], T), "e": (["N0"], T), "c": (["N0"], T)}, "S",
                 [("S", ["N0"], [("X", [0])], []), ("X", ["N0"], [("c", [0])], [0]), ("X", ["N0"], [("d", []), ("e", [0])], [0])],
                 {"d": G.INF, "e": [0.0, 0.0], "c": [0.5, 0.25]}, {"family": "zero-times-inf-rule-after-finite-rule"})]
    # a rule without value (it uses an unproductive nonterminal) before productive rules of the same left-hand side
    from props import c03_bounded as C3
    out += [g for g in C3.handwritten_extra() if g["meta"]["family"].startswith("unproductive") and g["meta"]["family"].endswith("-order0")]
    # an acyclic nonterminal T and a recursive R side by side (the presentation decides which is scheduled first);
    # the best R derivation needs the recursive rule
    out.append(G._mk({"N0": 2}, {"S": ([], N), "T": (["N0"], N), "R": (["N0"], N), "f": (["N0"], T), "b": (["N0"], T),
                                "m": (["N0", "N0"], T), "stop": (["N0"], T)}, "S",
                     [("S", ["N0"], [("f", [0]), ("T", [0]), ("R", [0])], []), ("T", ["N0"], [("b", [0])], [0]),
                      ("R", ["N0", "N0"], [("m", [0, 1]), ("R", [1])], [0]), ("R", ["N0"], [("stop", [0])], [0])],
                     {"f": [1.0, 0.05], "b": [0.6, 0.6], "m": [[0.1, 0.9], [0.1, 0.1]], "stop": [0.02, 0.8]},
                     {"family": "acyclic-next-to-recursive"}))
    # three levels and a cycle below the start: S -> X Y ; X -> Y a | b ; Y -> X c | Z ; Z -> d  (bottom-up order matters to scc)
    out.append(G._mk({"N0": 2}, {"S": ([], N), "X": (["N0"], N), "Y": (["N0"], N), "Z": (["N0"], N), "a": (["N0"], T), "b": (["N0"], T),
                                "c": (["N0", "N0"], T), "d": (["N0"], T)}, "S",
                     [("S", ["N0", "N0"], [("X", [0]), ("Y", [1])], []),
                      ("X", ["N0"], [("Y", [0]), ("a", [0])], [0]), ("X", ["N0"], [("b", [0])], [0]),
                      ("Y", ["N0", "N0"], [("X", [1]), ("c", [0, 1])], [0]), ("Y", ["N0"], [("Z", [0])], [0]),
                      ("Z", ["N0"], [("d", [0])], [0])],
                     {"a": [0.3, 0.2], "b": [0.5, 0.25], "c": [[0.2, 0.1], [0.3, 0.25]], "d": [0.4, 0.6]}, {"family": "three-levels-with-cycle"}))
    # nonterminals whose value is constant along an external node that no edge touches (their tensors are broadcast views), used
    # side by side in one rule: the order in which the edges of that rule are added must not matter
    for d in (2, 3):
        g3 = [[[(4 * i + 2 * j + k + 1) / 10 for k in range(d)] for j in range(d)] for i in range(d)]
        out.append(G._mk({"N0": d}, {"S": ([], N), "R": (["N0", "N0", "N0"], N), "U": (["N0"], N), "V": (["N0"], N), "W": (["N0"], N),
                                    "k": ([], T), "k2": ([], T), "f": (["N0"], T), "g": (["N0", "N0", "N0"], T)}, "S",
                         [("S", ["N0", "N0", "N0"], [("R", [0, 1, 2]), ("g", [0, 1, 2])], []),
                          ("R", ["N0", "N0", "N0"], [("V", [0]), ("U", [1]), ("f", [2])], [0, 1, 2]),
                          ("R", ["N0", "N0", "N0"], [("U", [2]), ("W", [0]), ("V", [1])], [0, 1, 2]),
                          ("U", ["N0"], [("k", [])], [0]), ("V", ["N0"], [("k2", [])], [0]),
                          ("W", ["N0", "N0"], [("f", [1])], [0])],
                         {"k": 0.5, "k2": 0.25, "f": [0.9, 0.1, 0.3][:d], "g": g3}, {"family": "broadcast-operands-side-by-side"}))
    return out


def grammars(tier: str, rng) -> List[dict]:
    n_nonrec, n_rec = (40, 20) if tier == "quick" else (1000, 500)
    out: List[dict] = handwritten()
    seen = {G.canonical(g) for g in out}
    def take(src, n, want_edges=True):
        k = 0
        for g in src:
            c = G.canonical(g)
            if c in seen or (want_edges and not any(r["edges"] for r in g["rules"])):
                continue
            seen.add(c)
            out.append(g)
            k += 1
            if k >= n:
                break
    take(G.enum_nonrecursive(tier, rng), n_nonrec)
    take(G.enum_recursive(tier, rng), n_rec)
    return out


def _what(f: dict) -> str:
    c = f["case"]
    fam = (c["recipe"].get("meta") or {}).get("family", "")
    return f"{f['kind']} [{f['key']}] check {c['check']} on grammar {fam}, presentation aspects {aspects_of(c['presentation'])}"


def run_bounded(ctx: Ctx) -> Report:
    rep = Report(property_id=PID, level="exploration")
    rep.functions_under_contract = ["fggs.sum_product.sum_product", "fggs.sum_product.SumProduct.backward", "fggs.viterbi.viterbi",
                                    "fggs.multi.multi_solve", "fggs.multi._order_nonterminals", "fggs.utils.scc"]
    rng = ctx.rng("c12-grammars")
    recipes = grammars(ctx.tier, rng)
    k = 4 if not ctx.thorough else 8
    prng = ctx.rng("c12-presentations")
    work = []
    distinct = set()
    aspect_count: Dict[str, int] = {}
    for g in recipes:
        pres = [random_presentation(g, prng, everything=True)]
        p = random_presentation(g, prng)
        p.pop("rule_order", None)
        p["start_last"] = True               # every grammar is also seen bottom-up with the start symbol set last
        pres.append(p)
        tries = 0
        while len(pres) < k - 1 and tries < 50:
            tries += 1
            p = random_presentation(g, prng)
            if p and p not in pres:
                pres.append(p)
        for p in pres:
            distinct.add(G.canonical(g) + json.dumps(p, sort_keys=True))
            for a in aspects_of(p):
                aspect_count[a] = aspect_count.get(a, 0) + 1
        work.append((g, pres))
    jobs = max(1, min(ctx.jobs, len(work)))
    size = max(1, min(10, len(work) // (jobs * 4) or 1))
    chunks = [work[i:i + size] for i in range(0, len(work), size)]
    results = []
    if jobs > 1:
        import torch
        import fggs  # noqa
        torch.set_num_threads(1)
        with mp.get_context("fork").Pool(jobs) as pool:
            for res in pool.imap(_worker, chunks):
                results.extend(res)
    else:
        for ch in chunks:
            results.extend(_worker(ch))
    fails: List[dict] = []
    evals = 0
    stats: Dict[str, int] = {}
    scope_count: Dict[str, int] = {}
    for fl, n, st, sc in results:
        fails.extend(fl)
        evals += n
        for kk, v in st.items():
            stats[kk] = stats.get(kk, 0) + v
        for kk, v in sc.items():
            scope_count[kk] = scope_count.get(kk, 0) + int(v)
    per_key: Dict[str, int] = {}
    for f in fails:
        per_key[f["key"]] = per_key.get(f["key"], 0) + 1
        if per_key[f["key"]] <= 3:
            rep.failures.append(Failure(obligation=f["clause"], what=_what(f), key=f["key"], detail=f["detail"],
                                        replay={"module": MODULE, "func": "replay_case", "case": f["case"]}))
    rep.bounded.append(Bounded(
        function="fggs.sum_product / gradients / fggs.viterbi under re-presentation of the grammar",
        bound=BOUND, cases=evals, distinct_nontrivial=len(distinct),
        rule=(f"each grammar in {k} presentations: the plain one, one with every aspect changed, and seeded random subsets of "
              "the aspects; a case is one (grammar, presentation, observation) compared with the plain presentation, "
              "observation = sum_product config (with Real/float64 gradient) or viterbi start assignment; distinct = "
              "distinct (canonical recipe, presentation) pairs, non-trivial = the presentation changes at least one aspect "
              "and the grammar has an edge"),
        samples=[{"recipe": g, "presentation": p[0]} for g, p in work[:2]], exhaustive=False,
        extra={"grammars": len(recipes), "presentations_per_grammar": k, "aspect_counts": aspect_count,
               "grammars_in_scope": scope_count, "outcomes": dict(sorted(stats.items())),
               "tolerance": TOL, "solver": {kk: list(v) for kk, v in SOLVER.items()},
               "violations_per_key": dict(sorted(per_key.items())), "violations_total": len(fails)}))
    rep.extra["c12_bounded_violations_per_key"] = dict(sorted(per_key.items()))
    return rep


def replay_case(case: dict) -> bool:
    import torch
    torch.set_num_threads(1)
    recipe, pres, chk, cot = case["recipe"], case["presentation"], case["check"], case["cotangent"]
    chk = tuple(chk)
    base = run_check(recipe, None, chk, cot)
    other = run_check(recipe, pres, chk, cot)
    r = compare_check(chk, base, other)
    print(f"C12 replay {chk}: {'VIOLATION reproduces' if r else 'no violation'}")
    if r:
        print("  ", r[0], "--", r[1][:1500])
        print("   responsible aspect:", blame(recipe, pres, chk, cot, base))
    else:
        print("   plain", json.dumps({k: v for k, v in base.items()})[:600])
        print("   presented", json.dumps({k: v for k, v in other.items()})[:600])
    return r is not None


if __name__ == "__main__":
    tier = sys.argv[1] if len(sys.argv) > 1 else "quick"
    import time
    t0 = time.time()
    r = run_bounded(Ctx(PID, tier, 0))
    print(json.dumps(r.bounded[0].extra, indent=1))
    print(len(r.failures), "failure records;", r.bounded[0].cases, "cases;", round(time.time() - t0, 1), "s")
    for f in r.failures:
        print(f.obligation, "|", f.key, "|", f.detail[:400])
