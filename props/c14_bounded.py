"""C14 (bounded): JSON serialisation round-trips grammars and weights.

Real functions: fggs.fgg_to_json / json_to_fgg / hrg_to_json / json_to_hrg / json_to_weights.
Oracles written here: isomorphism of rule right-hand sides (explicit ids fixed, implicit ids free), dense denotation of
weight patterns by explicit loops, an interpreter for the patterned-weights JSON language.

ASSUMED MEANING of a patterned weight specification {"physical", "expand", "vaxes", "default"} (read off
json_to_weights / json_to_axis):
  * P = the nested list "physical" as a tensor; "expand" = [s1..sk] (optional) PREPENDS k axes of sizes s1..sk along which
    P is constant (stride 0); the physical axes are then numbered 0..m-1 over the EXPANDED tensor (axis 0 = first expand axis);
  * "vaxes" is a list with one entry per axis of the denoted tensor; an entry is an int i (physical axis i), a list [a1..ar]
    (product axis, a1 most significant, size = product of sizes, index = mixed radix), or {"before": b, "term": a, "after": c}
    (size b + size(a) + c, index = b + index(a));
  * the denoted tensor has value "default" (0 if absent) everywhere except at the images of the physical elements;
  * "vaxes" absent means the identity pattern (the tensor is the expanded physical tensor itself).
Only specifications in which every physical axis occurs in some vaxis (injective patterns) are generated.

FGG recipe: {"start": labelref, "rules": [[lhs, graph]], "domains": {label: ["finite", values] | ["range", n]},
"factors": {terminal name: weightspec}}; graph/labelref as in C15; weightspec is {"dense": nested} or {"pattern": ...}
(see `make_weights`); the strings "inf" / "-inf" stand for the infinities.
"""
from __future__ import annotations
import copy as _copy
import itertools, json, math, warnings
from collections import Counter
from typing import Any, Dict, List, Optional, Tuple

import torch
import fggs
from fggs import (Graph, HRG, FGG, HRGRule, Node, Edge, NodeLabel, EdgeLabel, FiniteDomain, RangeDomain, FiniteFactor,
                  fgg_to_json, json_to_fgg, hrg_to_json, json_to_hrg, json_to_weights)
from fggs.indices import PatternedTensor, PhysicalAxis, SumAxis, productAxis
from vf.core import Ctx, Report, Bounded, Failure

MODULE = "props.c14_bounded"
PER_KEY_CAP = 3
INF = math.inf


def num(x):
    return INF if x == "inf" else (-INF if x == "-inf" else float(x))


def denum(x):
    return "inf" if x == INF else ("-inf" if x == -INF else x)


def nest_map(f, x):
    return [nest_map(f, y) for y in x] if isinstance(x, list) else f(x)


def label(ref: str) -> EdgeLabel:
    head, typ = ref.rsplit(":", 1)
    name, kind = head[:-1], head[-1]
    return EdgeLabel(name, tuple(NodeLabel(c) for c in typ), is_terminal=(kind == "T"), is_nonterminal=(kind == "N"))


def label_ref(l: EdgeLabel) -> str:
    return f"{l.name}{'T' if l.is_terminal else 'N'}:{''.join(n.name for n in l.type)}"


def build_graph(rec) -> Graph:
    g = Graph()
    nodes: Dict[str, Node] = {}
    for name, lab in rec["nodes"]:
        nodes[name] = Node(NodeLabel(lab), id=None if name.startswith("_") else name)
        g.add_node(nodes[name])
    for name, lr, att in rec["edges"]:
        g.add_edge(Edge(label(lr), [nodes[a] for a in att], id=None if name.startswith("_") else name))
    g.ext = [nodes[a] for a in rec.get("ext", [])]
    return g


# ----------------------------------------------------------------------------------------
# weights: construction by hand (PhysicalAxis / SumAxis / productAxis) and own dense denotation
# ----------------------------------------------------------------------------------------
def make_weights(spec):
    """Returns (object handed to FiniteFactor, dense nested list it denotes [own computation])."""
    if "dense" in spec:
        d = nest_map(num, spec["dense"])
        return torch.tensor(d, dtype=torch.get_default_dtype()), d
    p = spec["pattern"]
    default = num(spec.get("default", 0.0))
    if p == "diag":                       # n x n, values on the diagonal
        vals = [num(v) for v in spec["values"]]
        n = len(vals)
        k = PhysicalAxis(n)
        dense = [[vals[i] if i == j else default for j in range(n)] for i in range(n)]
        return PatternedTensor(torch.tensor(vals), (k,), (k, k), default), dense
    if p == "embed":                      # 2-D block placed at column offset `before` (SumAxis on axis 1)
        blk = nest_map(num, spec["block"])
        r, c = len(blk), len(blk[0])
        b, a = spec["before"], spec["after"]
        k0, k1 = PhysicalAxis(r), PhysicalAxis(c)
        dense = [[blk[i][j - b] if b <= j < b + c else default for j in range(b + c + a)] for i in range(r)]
        return PatternedTensor(torch.tensor(blk), (k0, k1), (k0, SumAxis(b, k1, a)), default), dense
    if p == "embed0":                     # 1-D block placed at offset `before`
        blk = [num(v) for v in spec["block"]]
        b, a = spec["before"], spec["after"]
        k = PhysicalAxis(len(blk))
        dense = [blk[i - b] if b <= i < b + len(blk) else default for i in range(b + len(blk) + a)]
        return PatternedTensor(torch.tensor(blk), (k,), (SumAxis(b, k, a),), default), dense
    if p == "stride0":                    # one value expanded (stride 0) to a shape
        v = num(spec["value"])
        shape = spec["shape"]

        def full(dims):
            return v if not dims else [full(dims[1:]) for _ in range(dims[0])]
        return PatternedTensor(torch.tensor(v).expand(shape)), full(shape)
    if p == "rowconst":                   # a vector expanded along a new LAST axis (stride 0 on that axis)
        vals = [num(v) for v in spec["values"]]
        m = spec["cols"]
        t = torch.tensor(vals).unsqueeze(1).expand(len(vals), m)
        return PatternedTensor(t), [[vals[i] for _ in range(m)] for i in range(len(vals))]
    if p == "product":                    # physical r x c matrix stored as [X*Y, X, Y]
        blk = nest_map(num, spec["block"])
        r, c = len(blk), len(blk[0])
        kx, ky = PhysicalAxis(r), PhysicalAxis(c)
        dense = [[[blk[i][j] if q == i * c + j else default for j in range(c)] for i in range(r)] for q in range(r * c)]
        return PatternedTensor(torch.tensor(blk), (kx, ky), (productAxis((kx, ky)), kx, ky), default), dense
    raise KeyError(p)


def same_dense(t: torch.Tensor, nested) -> bool:
    """Exact agreement incl. +-inf positions (values are float32-representable by construction)."""
    want = torch.tensor(nested, dtype=t.dtype)
    if tuple(want.shape) != tuple(t.shape) and want.numel() == t.numel() == 0:
        return False
    return tuple(want.shape) == tuple(t.shape) and bool(torch.equal(want, t))


def build_fgg(rec) -> Tuple[FGG, Dict[str, Any]]:
    fgg = FGG(label(rec["start"]))
    for lhs, rhs in rec["rules"]:
        fgg.add_rule(HRGRule(label(lhs), build_graph(rhs)))
    for ref in rec.get("extra_labels", []):          # edge labels of the grammar that no rule uses
        fgg.add_edge_label(label(ref))
    for name, (kind, v) in rec["domains"].items():
        fgg.add_domain(NodeLabel(name), FiniteDomain(list(v)) if kind == "finite" else RangeDomain(v))
    dense = {}
    for name, spec in rec["factors"].items():
        el = fgg.get_edge_label(name)
        if "constant" in spec:                 # a ConstantFactor (sum_product does not evaluate these: round trip only)
            from fggs.factors import ConstantFactor
            fgg.add_factor(el, ConstantFactor([fgg.domains[nl.name] for nl in el.type], num(spec["constant"])))
            continue
        w, d = make_weights(spec)
        dense[name] = d
        fgg.add_factor(el, FiniteFactor([fgg.domains[nl.name] for nl in el.type], w))
    return fgg, dense


# ----------------------------------------------------------------------------------------
# rule isomorphism: explicit ids must be preserved, implicit ids are free
# ----------------------------------------------------------------------------------------
def rhs_isomorphic(g1: Graph, g2: Graph) -> Tuple[bool, str]:
    n1, n2 = list(g1.nodes()), list(g2.nodes())
    e1, e2 = list(g1.edges()), list(g2.edges())
    if len(n1) != len(n2) or len(e1) != len(e2) or len(g1.ext) != len(g2.ext):
        return False, "different numbers of nodes / edges / externals"
    ex1 = {n.id: n for n in n1 if n.persist_id}
    ex2 = {n.id: n for n in n2 if n.persist_id}
    if set(ex1) != set(ex2):
        return False, f"explicit node ids {sorted(ex1)} vs {sorted(ex2)}"
    if any(ex1[i].label != ex2[i].label for i in ex1):
        return False, "label of an explicit node changed"
    if any(not isinstance(n.id, str) for n in ex1.values()) or any(n.persist_id != isinstance(n.id, str) for n in n1 + n2):
        return False, "persist_id / id kind inconsistent"
    xe1 = sorted(e.id for e in e1 if e.persist_id)
    xe2 = sorted(e.id for e in e2 if e.persist_id)
    if xe1 != xe2:
        return False, f"explicit edge ids {xe1} vs {xe2}"
    im1 = [n for n in n1 if not n.persist_id]
    im2 = [n for n in n2 if not n.persist_id]

    def edges_key(edges, m):
        return Counter((e.id if e.persist_id else None, label_ref(e.label), tuple(m[n.id] for n in e.nodes)) for e in edges)
    base2 = {n.id: ("x", n.id) if n.persist_id else ("i", k) for k, n in enumerate(n2)}
    # position of implicit nodes of g2 in n2
    pos2 = {n.id: base2[n.id] for n in n2}
    target_edges = edges_key(e2, pos2)
    target_ext = [pos2[n.id] for n in g2.ext]
    idx2 = [pos2[n.id] for n in im2]
    for perm in itertools.permutations(range(len(im2))):
        if any(im1[a].label != im2[perm[a]].label for a in range(len(im1))):
            continue
        m = {n.id: ("x", n.id) for n in n1 if n.persist_id}
        for a, n in enumerate(im1):
            m[n.id] = idx2[perm[a]]
        if [m[n.id] for n in g1.ext] != target_ext:
            continue
        if edges_key(e1, m) == target_edges:
            return True, ""
    return False, "no label/attachment/external preserving bijection of the implicit nodes"


class Collector:
    def __init__(self):
        self.fails: List[dict] = []
        self.counts: Dict[str, int] = {}

    def add(self, obligation, key, what, case, detail=""):
        self.counts[key] = self.counts.get(key, 0) + 1
        if self.counts[key] <= PER_KEY_CAP:
            self.fails.append({"obligation": obligation, "key": key, "what": what, "case": case, "detail": detail})


def all_explicit(rec) -> bool:
    return all(not n.startswith("_") for _, rhs in rec["rules"] for n, _ in rhs["nodes"]) and \
        all(not e[0].startswith("_") for _, rhs in rec["rules"] for e in rhs["edges"])


def recursive(rec) -> bool:
    dep: Dict[str, set] = {}
    for lhs, rhs in rec["rules"]:
        dep.setdefault(lhs, set()).update(lr for _, lr, _ in rhs["edges"] if lr.rsplit(":", 1)[0].endswith("N"))
    seen: Dict[str, int] = {}

    def cyc(x):
        if seen.get(x) == 1:
            return True
        if seen.get(x) == 2:
            return False
        seen[x] = 1
        r = any(cyc(y) for y in dep.get(x, ()))
        seen[x] = 2
        return r
    return any(cyc(x) for x in list(dep))


def check_roundtrip(case, col: Collector) -> bool:
    """case = {"kind": "roundtrip", "fgg": recipe, "tags": [...]}"""
    rec = case["fgg"]
    fgg, dense = build_fgg(rec)
    tag = "+".join(case.get("tags", [])) or "-"
    ok = True

    def bad(clause, key, msg, detail=""):
        nonlocal ok
        ok = False
        col.add(f"json.{clause}", f"roundtrip:{key}", f"[{tag}] {msg}", case, detail)
    try:
        j = fgg_to_json(fgg)
    except Exception as e:
        bad("fgg_to_json", f"fgg_to_json-raises:{type(e).__name__}", repr(e))
        return ok
    try:
        s = json.dumps(j)
    except Exception as e:
        bad("dumps", f"json.dumps-rejects:{type(e).__name__}", repr(e))
        return ok
    j2 = json.loads(s)
    try:
        fgg2 = json_to_fgg(j2)
    except Exception as e:
        bad("json_to_fgg", f"json_to_fgg-raises:{type(e).__name__}", repr(e), detail=s[:600])
        return ok
    # start, labels, types
    if fgg2.start != fgg.start:
        bad("start", "start", f"start {label_ref(fgg2.start)} vs {label_ref(fgg.start)}")
    if set(fgg2.edge_labels()) != set(fgg.edge_labels()):
        bad("labels", "edge-labels", f"{sorted(map(label_ref, fgg2.edge_labels()))} vs {sorted(map(label_ref, fgg.edge_labels()))}")
    if set(fgg2.node_labels()) != set(fgg.node_labels()):
        bad("labels", "node-labels", f"{sorted(l.name for l in fgg2.node_labels())} vs {sorted(l.name for l in fgg.node_labels())}")
    # rules of each lhs isomorphic in order
    for nt in fgg.nonterminals():
        r1, r2 = fgg.rules(nt), fgg2.rules(nt)
        if len(r1) != len(r2):
            bad("rules", "rule-count", f"{label_ref(nt)}: {len(r2)} rules after the round trip, {len(r1)} before")
            continue
        for i, (a, b) in enumerate(zip(r1, r2)):
            if a.lhs != b.lhs:
                bad("rules", "rule-lhs", f"rule {i} of {nt.name}")
            iso, why = rhs_isomorphic(a.rhs, b.rhs)
            if not iso:
                bad("rules", "rule-not-isomorphic", f"rule {i} of {nt.name}: {why}")
    # domains and factors
    if set(fgg2.domains) != set(fgg.domains):
        bad("domains", "domain-keys", f"{sorted(fgg2.domains)} vs {sorted(fgg.domains)}")
    for name, (kind, v) in rec["domains"].items():
        d2 = fgg2.domains.get(name)
        if d2 is None:
            continue
        want = FiniteDomain(list(v)) if kind == "finite" else RangeDomain(v)
        if not (d2 == want) or type(d2) is not type(want) or d2.size() != want.size():
            bad("domains", "domain-differs", f"domain of {name}: {d2.to_json()} vs {want.to_json()}")
    if set(fgg2.factors) != set(fgg.factors):
        bad("factors", "factor-keys", f"{sorted(fgg2.factors)} vs {sorted(fgg.factors)}")
    for name in rec["factors"]:
        f2 = fgg2.factors.get(name)
        if f2 is None:
            continue
        if "constant" in rec["factors"][name]:
            f1 = fgg.factors[name]
            if type(f2) is not type(f1) or list(f2.domains) != list(f1.domains) or not (f2.weight == f1.weight) or not (f2 == f1):
                bad("factors", "constant-factor-differs", f"constant factor of {name}: weight {getattr(f2, 'weight', None)!r} "
                                                          f"({type(f2).__name__}) after the round trip, {f1.weight!r} before")
            continue
        if not isinstance(f2, FiniteFactor):
            bad("factors", "factor-class", name)
            continue
        if list(f2.domains) != list(fgg.factors[name].domains):
            bad("factors", "factor-domains", name)
        try:
            d2 = f2.weights.to_dense()
        except Exception as e:
            bad("factors", "weights-to_dense-raises", f"{name}: {e!r}")
            continue
        if not same_dense(d2, dense[name]):
            bad("factors", f"weights-differ:{'dense' if 'dense' in rec['factors'][name] else rec['factors'][name]['pattern']}",
                f"weights of {name}: observed {d2.tolist()} expected {dense[name]}")
        try:
            if not (f2 == fgg.factors[name]):
                bad("factors", "factor-eq", f"factor of {name} is not == the original (same dense weights: {same_dense(d2, dense[name])})")
        except Exception as e:
            bad("factors", "factor-eq-raises", f"{name}: {e!r}")
    # second round trip: verbatim when all ids are explicit
    try:
        j3 = json.loads(json.dumps(fgg_to_json(fgg2)))
    except Exception as e:
        bad("second", "second-roundtrip-raises", repr(e))
        j3 = None
    if j3 is not None:
        if all_explicit(rec):
            if j3 != j2:
                diff = [k for k in ("grammar", "interpretation") if j3[k] != j2[k]]
                bad("verbatim", "second-roundtrip-not-verbatim", f"JSON differs in {diff}", detail=f"{json.dumps(j3)[:500]} vs {json.dumps(j2)[:500]}")
        else:
            if j3["interpretation"] != j2["interpretation"] or j3["grammar"]["terminals"] != j2["grammar"]["terminals"] or \
               j3["grammar"]["nonterminals"] != j2["grammar"]["nonterminals"] or j3["grammar"]["start"] != j2["grammar"]["start"]:
                bad("verbatim", "second-roundtrip-tables-differ", "label tables / interpretation differ on the second round trip")
    # the JSON itself: ids written iff explicit
    for jr, (lhs, rhs) in zip(j["grammar"]["rules"], _rules_in_all_rules_order(fgg, rec)):
        want_ids = sorted(n for n, _ in rhs["nodes"] if not n.startswith("_"))
        got_ids = sorted(v["id"] for v in jr["rhs"]["nodes"] if "id" in v)
        if want_ids != got_ids:
            bad("ids", "explicit-node-ids-in-json", f"{got_ids} vs {want_ids}")
        want_e = sorted(e[0] for e in rhs["edges"] if not e[0].startswith("_"))
        got_e = sorted(v["id"] for v in jr["rhs"]["edges"] if "id" in v)
        if want_e != got_e:
            bad("ids", "explicit-edge-ids-in-json", f"{got_e} vs {want_e}")
    # sum-product equal (non-recursive grammars whose terminals all carry a finite factor)
    if not recursive(rec) and all(t.name in fgg.factors and isinstance(fgg.factors[t.name], FiniteFactor) for t in fgg.terminals()):
        try:
            z1 = fggs.sum_product(fgg)
            z2 = fggs.sum_product(fgg2)
            z1 = z1.to_dense() if hasattr(z1, "to_dense") else z1
            z2 = z2.to_dense() if hasattr(z2, "to_dense") else z2
            if z1.shape != z2.shape or not torch.allclose(z1, z2, rtol=1e-6, atol=1e-9, equal_nan=True):
                bad("sum_product", "sum_product-differs", f"{z1.tolist()} vs {z2.tolist()}")
        except Exception as e:
            bad("sum_product", f"sum_product-raises:{type(e).__name__}", repr(e))
    return ok


def _rules_in_all_rules_order(fgg, rec):
    """all_rules() groups rules by lhs in order of first appearance."""
    order: List[str] = []
    for lhs, _ in rec["rules"]:
        if lhs not in order:
            order.append(lhs)
    return [(lhs, rhs) for o in order for lhs, rhs in rec["rules"] if lhs == o]


# ----------------------------------------------------------------------------------------
# FGG family
# ----------------------------------------------------------------------------------------
def grammars() -> Dict[str, dict]:
    return {
        "nonrec": {"start": "SN:", "rules": [
            ["SN:", {"nodes": [["x", "A"], ["y", "B"]], "edges": [["e1", "XN:AB", ["x", "y"]], ["e2", "fT:A", ["x"]]], "ext": []}],
            ["XN:AB", {"nodes": [["x", "A"], ["y", "B"], ["z", "A"]], "edges": [["e1", "gT:AA", ["x", "z"]], ["e2", "hT:AB", ["z", "y"]]], "ext": ["x", "y"]}],
            ["XN:AB", {"nodes": [["x", "A"], ["y", "B"]], "edges": [["e1", "hT:AB", ["x", "y"]]], "ext": ["x", "y"]}]],
            "terminals": {"f": "A", "g": "AA", "h": "AB"}},
        "chain": {"start": "SN:", "rules": [
            ["SN:", {"nodes": [["x", "A"]], "edges": [["e1", "XN:A", ["x"]]], "ext": []}],
            ["XN:A", {"nodes": [["x", "A"], ["z", "A"]], "edges": [["e1", "gT:AA", ["x", "z"]], ["e2", "XN:A", ["z"]]], "ext": ["x"]}],
            ["XN:A", {"nodes": [["x", "A"]], "edges": [["e1", "fT:A", ["x"]]], "ext": ["x"]}]],
            "terminals": {"f": "A", "g": "AA"}},
        "start-arity1": {"start": "XN:A", "rules": [
            ["XN:A", {"nodes": [["x", "A"], ["w", "C"]], "edges": [["e1", "fT:A", ["x"]], ["e2", "YN:AC", ["x", "w"]]], "ext": ["x"]}],
            ["YN:AC", {"nodes": [["x", "A"], ["w", "C"], ["y", "B"]], "edges": [["e1", "kT:CAB", ["w", "x", "y"]]], "ext": ["x", "w"]}]],
            "terminals": {"f": "A", "k": "CAB"}},
        "multi-edge": {"start": "SN:", "rules": [
            ["SN:", {"nodes": [["x", "A"], ["y", "A"], ["z", "A"]],
                     "edges": [["e1", "gT:AA", ["x", "y"]], ["e2", "gT:AA", ["x", "y"]], ["e3", "cT:", []]], "ext": []}],
            ["SN:", {"nodes": [["x", "A"], ["y", "A"]], "edges": [["e1", "gT:AA", ["y", "x"]], ["e2", "XN:AA", ["x", "x"]]], "ext": []}],
            ["XN:AA", {"nodes": [["x", "A"], ["y", "A"]], "edges": [["e1", "gT:AA", ["x", "y"]], ["e2", "fT:A", ["y"]]], "ext": ["y", "x"]}]],
            "terminals": {"f": "A", "g": "AA", "c": ""}},
    }


def id_mode(g, mode: str):
    g = json.loads(json.dumps(g))
    for ri, (lhs, rhs) in enumerate(g["rules"]):
        ren = {}
        for k, n in enumerate(rhs["nodes"]):
            imp = mode == "implicit" or (mode == "mixed" and (k + ri) % 2 == 0)
            ren[n[0]] = ("_" + n[0]) if imp else n[0]
            n[0] = ren[n[0]]
        for k, e in enumerate(rhs["edges"]):
            imp = mode == "implicit" or (mode == "mixed" and (k + ri) % 2 == 1)
            e[0] = ("_" + e[0]) if imp else e[0]
            e[2] = [ren[a] for a in e[2]]
        rhs["ext"] = [ren[a] for a in rhs["ext"]]
    return g


SIZES = {"A": 2, "B": 3, "C": 6}


def domains(profile: int):
    if profile == 0:
        return {"A": ["finite", ["a0", "a1"]], "B": ["finite", [10, 20, 30]], "C": ["finite", ["c%d" % i for i in range(6)]]}
    if profile == 1:
        return {"A": ["range", 2], "B": ["range", 3], "C": ["range", 6]}
    return {"A": ["finite", [True, None]], "B": ["finite", [1.5, "", "b"]], "C": ["range", 6]}


def rand_dense(shape, rng, inf_at=None):
    cnt = [0]

    def go(dims):
        if not dims:
            cnt[0] += 1
            if inf_at is not None and cnt[0] % inf_at == 0:
                return "inf" if (cnt[0] // inf_at) % 2 else "-inf"
            return rng.choice([0.0, 0.25, 0.5, 1.0, 1.5, 2.0, 3.0])
        return [go(dims[1:]) for _ in range(dims[0])]
    return go(shape)


def factors(terms: Dict[str, str], profile: int, rng) -> Dict[str, dict]:
    out = {}
    for name, typ in terms.items():
        shape = [SIZES[c] for c in typ]
        if profile == 0:
            out[name] = {"dense": rand_dense(shape, rng)}
        elif profile == 1:
            if typ == "A":
                out[name] = {"pattern": "stride0", "value": 3.0, "shape": [2]}
            elif typ == "AA":
                out[name] = {"pattern": "diag", "values": [2.0, 0.5], "default": 0.0}
            elif typ == "AB":
                out[name] = {"pattern": "embed", "block": [[1.0, 2.0], [3.0, 4.0]], "before": 1, "after": 0, "default": 0.0}
            elif typ == "CAB":
                out[name] = {"pattern": "product", "block": [[1.0, 2.0, 3.0], [4.0, 5.0, 6.0]], "default": 0.0}
            else:
                out[name] = {"dense": rand_dense(shape, rng)}
        elif profile == 2:
            if typ == "A":
                out[name] = {"pattern": "embed0", "block": [2.0], "before": 1, "after": 0, "default": "inf"}
            elif typ == "AA":
                out[name] = {"pattern": "diag", "values": ["inf", 0.5], "default": "-inf"}
            elif typ == "AB":
                out[name] = {"pattern": "rowconst", "values": [1.0, "inf"], "cols": 3}
            elif typ == "CAB":
                out[name] = {"pattern": "product", "block": [[1.0, "inf", 3.0], [4.0, 5.0, "-inf"]], "default": 1.0}
            else:
                out[name] = {"dense": rand_dense(shape, rng, inf_at=1)}
        else:
            out[name] = {"dense": rand_dense(shape, rng, inf_at=3)}
    return out


def roundtrip_cases(ctx: Ctx) -> List[dict]:
    cases = []
    rng = ctx.rng("weights")
    reps = 2 if not ctx.thorough else 10
    for gname, g in grammars().items():
        for mode in ("explicit", "implicit", "mixed"):
            for profile in (0, 1, 2, 3):
                for rep_i in range(reps if profile in (0, 3) else 1):
                    rec = id_mode({k: v for k, v in g.items() if k != "terminals"}, mode)
                    rec["domains"] = {k: v for k, v in domains(profile % 3).items() if any(k in t for t in list(g["terminals"].values()) + [r[0].rsplit(":", 1)[1] for r in g["rules"]])}
                    rec["factors"] = factors(g["terminals"], profile, rng)
                    cases.append({"kind": "roundtrip", "fgg": rec, "tags": [gname, mode, f"profile{profile}"]})
    # labels that no rule uses (declared with add_edge_label; a terminal among them may carry a factor): they are part of the
    # grammar ("same start, labels and types") and of its interpretation
    g = grammars()["nonrec"]
    for mode in ("explicit", "implicit"):
        for with_factor in (False, True):
            rec = id_mode({k: v for k, v in g.items() if k != "terminals"}, mode)
            rec["extra_labels"] = ["uT:A", "vT:AB", "ZN:A"]
            terms = dict(g["terminals"], **({"u": "A", "v": "AB"} if with_factor else {}))
            rec["domains"] = {k: v for k, v in domains(0).items() if k in "AB"}
            rec["factors"] = factors(terms, 0, rng)
            cases.append({"kind": "roundtrip", "fgg": rec,
                          "tags": ["nonrec", mode, "labels-no-rule-uses" + ("+factor" if with_factor else "")]})
    # constant factors (function "constant"): weights 0, 1, negative, fractional, infinite
    g = grammars()["nonrec"]
    for mode in ("explicit", "implicit"):
        for ws in ((0.0, 2.5, 1.0), (-1.5, 0.0, "inf"), (1.0, 1.0, 0.0)):
            rec = id_mode({k: v for k, v in g.items() if k != "terminals"}, mode)
            rec["domains"] = {k: v for k, v in domains(0).items() if k in "AB"}
            rec["factors"] = {name: {"constant": w} for name, w in zip(sorted(g["terminals"]), ws)}
            cases.append({"kind": "roundtrip", "fgg": rec, "tags": ["nonrec", mode, "constant-factors"]})
    return cases


# ----------------------------------------------------------------------------------------
# json_to_weights: own interpreter of the spec language
# ----------------------------------------------------------------------------------------
def nested_shape(x) -> List[int]:
    return [len(x)] + nested_shape(x[0]) if isinstance(x, list) and x else ([0] if isinstance(x, list) else [])


def interpret_spec(spec) -> Tuple[List[int], Dict[tuple, float], float]:
    """Returns (shape, {virtual index: value}, default)."""
    phys = nest_map(num, spec["physical"])
    pshape = nested_shape(phys)
    exp = list(spec.get("expand") or [])
    sizes = exp + pshape
    default = num(spec.get("default", 0.0))
    vaxes = spec.get("vaxes")
    if vaxes is None:
        vaxes = list(range(len(sizes)))

    def size(a):
        if isinstance(a, list):
            return math.prod(size(b) for b in a)
        if isinstance(a, dict):
            return a["before"] + size(a["term"]) + a["after"]
        return sizes[a]

    def index(a, p):
        if isinstance(a, list):
            i = 0
            for b in a:
                i = i * size(b) + index(b, p)
            return i
        if isinstance(a, dict):
            return a["before"] + index(a["term"], p)
        return p[a]
    shape = [size(a) for a in vaxes]
    cells = {}
    for p in itertools.product(*[range(s) for s in sizes]):
        v = phys
        for i in p[len(exp):]:
            v = v[i]
        cells[tuple(index(a, p) for a in vaxes)] = v
    return shape, cells, default


def spec_to_dense(spec):
    shape, cells, default = interpret_spec(spec)

    def go(prefix, dims):
        if not dims:
            return cells.get(tuple(prefix), default)
        return [go(prefix + [i], dims[1:]) for i in range(dims[0])]
    return go([], shape), shape


def axis_exprs(m: int) -> List[Any]:
    out: List[Any] = list(range(m))
    for i in range(m):
        out.append({"before": 1, "term": i, "after": 0})
        out.append({"before": 0, "term": i, "after": 2})
    for i, j in itertools.permutations(range(m), 2):
        out.append([i, j])
    for i in range(m):
        out.append([i, i])
    for i, j in itertools.permutations(range(m), 2):
        out.append([i, {"before": 1, "term": j, "after": 1}])
        out.append({"before": 1, "term": [i, j], "after": 0})
    return out


def mentioned(a) -> set:
    if isinstance(a, list):
        return set().union(*[mentioned(b) for b in a]) if a else set()
    if isinstance(a, dict):
        return mentioned(a["term"])
    return {a}


def weight_spec_cases(thorough: bool) -> List[dict]:
    cases = []
    # JSON numbers without a fraction arrive as Python ints: 1, [1, 2, 3], [[1, 0], [0, 1]]
    physicals = [5.0, [1.0, 2.0], [1.0, "inf", 3.0], [[1.0, 2.0, 3.0], [4.0, "-inf", 6.0]], [[1.0], [2.0]], [7.0],
                 1, [1, 2, 3], [[1, 0], [0, 1]], [2, 0.5]]
    expands = [None, [], [2], [3, 2]]
    for phys in physicals:
        pshape = nested_shape(phys)
        for exp in expands:
            m = len(exp or []) + len(pshape)
            if m > 3:
                continue
            ex = axis_exprs(m)
            vlists: List[Any] = [None, list(range(m)), list(reversed(range(m)))]
            for k in (1, 2, 3):
                for combo in itertools.product(range(len(ex)), repeat=k):
                    vl = [ex[c] for c in combo]
                    if set().union(*[mentioned(a) for a in vl]) != set(range(m)):
                        continue
                    if sum(len(mentioned(a)) for a in vl) > m + 1:
                        continue
                    vlists.append(vl)
            if m == 0:
                vlists = [None, []]
            seen = set()
            for vl in vlists:
                key = json.dumps(vl)
                if key in seen:
                    continue
                seen.add(key)
                for default in ([None, 1.5, "inf"] if (thorough or len(seen) % 3 == 0) else [None]):
                    spec = {"physical": phys}
                    if exp is not None:
                        spec["expand"] = exp
                    if vl is not None:
                        spec["vaxes"] = vl
                    if default is not None:
                        spec["default"] = default
                    shape = interpret_spec(spec)[0]
                    if math.prod(shape) > 400:
                        continue
                    cases.append({"kind": "weights", "spec": spec})
    return cases


def to_json_number(spec):
    """The JSON object handed to json_to_weights: 'inf' strings become float infinities (what json.loads gives for Infinity)."""
    s = _copy.deepcopy(spec)
    # JSON integers stay Python ints, as json.loads delivers them
    s["physical"] = nest_map(lambda x: x if isinstance(x, int) and not isinstance(x, bool) else num(x), s["physical"])
    if "default" in s:
        s["default"] = num(s["default"])
    return s


def check_weights(case, col: Collector) -> bool:
    spec = case["spec"]
    want, shape = spec_to_dense(spec)
    feat = "vaxes-omitted" if "vaxes" not in spec else "vaxes"
    if spec.get("expand"):
        feat += "+expand"
    try:
        w = json_to_weights(to_json_number(spec))
        d = w.to_dense()
    except Exception as e:
        col.add("json_to_weights.denotes", f"json_to_weights:raises:{type(e).__name__}:{feat}",
                f"json_to_weights({json.dumps(spec)}) raised {type(e).__name__}: {e}", case, f"expected a tensor of shape {shape}")
        return False
    if d.dtype != torch.get_default_dtype():
        col.add("json_to_weights.denotes", f"json_to_weights:dtype:{feat}",
                f"json_to_weights({json.dumps(spec)}): dtype {d.dtype}, expected the default floating-point dtype", case)
        return False
    if tuple(w.shape) != tuple(shape) or not same_dense(d, want):
        col.add("json_to_weights.denotes", f"json_to_weights:wrong-tensor:{feat}",
                f"json_to_weights({json.dumps(spec)}): observed {d.tolist()} expected {want}", case)
        return False
    # a dense nested list denotes itself
    return True


def check_dense_weights(case, col: Collector) -> bool:
    nested = nest_map(num, case["dense"])
    try:
        w = json_to_weights(nested)
        ok = same_dense(w.to_dense(), nested)
    except Exception as e:
        ok = False
    if not ok:
        col.add("json_to_weights.dense", "json_to_weights:dense", f"json_to_weights({case['dense']})", case)
    return ok


# ----------------------------------------------------------------------------------------
# reject clause
# ----------------------------------------------------------------------------------------
def reject_base(n: int) -> dict:
    nodes = [{"label": "A", "id": f"v{i}"} for i in range(n)]
    return {"grammar": {
        "terminals": {"t": {"type": ["A", "A"]}, "u": {"type": ["A"]}},
        "nonterminals": {"S": {"type": []}, "X": {"type": ["A"]}},
        "start": "S",
        "rules": [
            {"lhs": "S", "rhs": {"nodes": nodes, "edges": [{"attachments": [0, n - 1], "label": "t", "id": "e0"},
                                                             {"attachments": [0], "label": "X", "id": "e1"}], "externals": []}},
            {"lhs": "X", "rhs": {"nodes": nodes, "edges": [{"attachments": [n - 1], "label": "u", "id": "e0"}], "externals": [0]}}]},
        "interpretation": {"domains": {"A": {"class": "range", "size": 2}},
                           "factors": {"t": {"function": "finite", "weights": [[1.0, 2.0], [3.0, 4.0]]},
                                       "u": {"function": "finite", "weights": [1.0, 2.0]}}}}


def reject_cases() -> List[dict]:
    cases = []
    for n in (1, 2, 3):
        sites = [("att", 0, 0, 0), ("att", 0, 0, 1), ("att", 0, 1, 0), ("att", 1, 0, 0), ("ext", 1, 0, 0)]
        for site in sites:
            for v in range(-n - 1, n + 1):
                for fn in ("json_to_hrg", "json_to_fgg"):
                    cases.append({"kind": "reject", "n": n, "site": list(site), "value": v, "fn": fn})
    return cases


def check_reject(case, col: Collector) -> bool:
    n, (what, ri, ei, pi), v = case["n"], case["site"], case["value"]
    j = reject_base(n)
    rhs = j["grammar"]["rules"][ri]["rhs"]
    if what == "att":
        rhs["edges"][ei]["attachments"][pi] = v
    else:
        rhs["externals"][pi] = v
    expect = "ok" if 0 <= v < n else "ValueError"
    try:
        if case["fn"] == "json_to_hrg":
            json_to_hrg(j["grammar"])
        else:
            json_to_fgg(j)
        got = "ok"
    except Exception as e:
        got = type(e).__name__
    if got != expect:
        kind = "negative" if v < 0 else ("too-large" if v >= n else "in-range")
        col.add(f"{case['fn']}.rejects", f"{case['fn']}:{'attachment' if what == 'att' else 'external'}-number:{kind}:expected-{expect}:got-{got}",
                f"{case['fn']}: {'attachment' if what == 'att' else 'external'} number {v} with {n} nodes: observed {got}, expected {expect}", case)
        return False
    return True


def observations() -> dict:
    obs = {}
    j = reject_base(2)
    j["interpretation"]["domains"]["A"] = {"class": "interval", "size": 2}
    try:
        json_to_fgg(j)
        obs["unknown_domain_class"] = "accepted"
    except Exception as e:
        obs["unknown_domain_class"] = f"{type(e).__name__}: {e}  (the error message is formatted with d['type']; a ValueError was intended; " \
                                      "invalid classes are not covered by the property text, hence recorded only)"
    j = reject_base(2)
    j["interpretation"]["factors"]["u"] = {"function": "gaussian"}
    try:
        json_to_fgg(j)
        obs["unknown_factor_function"] = "accepted"
    except Exception as e:
        obs["unknown_factor_function"] = f"{type(e).__name__}: {e}"
    try:
        json_to_weights({"physical": [[1.0, 2.0], [3.0, 4.0]], "vaxes": [-1, 0]})
        obs["negative_vaxis_number"] = "accepted (Python negative indexing)"
    except Exception as e:
        obs["negative_vaxis_number"] = f"{type(e).__name__}"
    return obs


def check_weights_to_json(case, col: Collector) -> bool:
    """weights_to_json(PatternedTensor) must be the nested list of the dense tensor it denotes, whatever the
    sparsity pattern (size-1 axes, non-zero and infinite defaults included), and json.dumps must accept it."""
    from vf.bounded import gen_pt as G
    from fggs.factors import weights_to_json
    r = case["recipe"]
    want = G.dense_oracle(r)
    try:
        got = weights_to_json(G.build_pt(r))
        json.dumps(got)
        t = torch.tensor(got, dtype=want.dtype) if want.numel() else torch.zeros(want.size(), dtype=want.dtype)
        ok = tuple(t.size()) == tuple(want.size()) and G.same(t, want)
        detail = "" if ok else f"observed {got} expected {want.tolist()}"
    except Exception as e:
        ok, detail = False, f"{type(e).__name__}: {e}"
    if not ok:
        col.add("weights_to_json.denotes_dense", "weights_to_json:patterned", f"weights_to_json on {G.canonical(r)[:160]}", case, detail)
    return ok


def weights_to_json_cases(ctx):
    from vf.bounded import gen_pt as G
    rng = ctx.rng("w2j")
    out = []
    for shape in G.all_shapes(numel_max=6 if ctx.thorough else 4, ndim_max=3):
        if 0 in shape or len(shape) == 0: continue
        for k, p in enumerate(G.patterns_for_shape(tuple(shape), ctx.tier)):
            if any(n == 0 for n in p["pool"]): continue
            for d in ((0.0, 0.5, "-inf", "inf") if ctx.thorough else ((0.0, 0.5, "-inf")[k % 3], 0.5)):
                out.append({"kind": "weights_to_json", "recipe": G.fill_data(p, rng, special=False, dtype="float64", default=d)})
    return out


CHECKERS = {"weights_to_json": check_weights_to_json, "roundtrip": check_roundtrip, "weights": check_weights, "dense_weights": check_dense_weights, "reject": check_reject}


def run_bounded(ctx: Ctx) -> Report:
    torch.set_num_threads(1)
    rep = Report(property_id="C14", level="exploration")
    rep.functions_under_contract = ["fggs.formats.fgg_to_json", "fggs.formats.json_to_fgg", "fggs.formats.hrg_to_json", "fggs.formats.json_to_hrg",
                                    "fggs.formats.json_to_weights", "fggs.formats.json_to_axis", "fggs.factors.weights_to_json"]
    col = Collector()
    with warnings.catch_warnings():
        warnings.simplefilter("ignore")
        rc = roundtrip_cases(ctx)
        for c in rc:
            check_roundtrip(c, col)
        rep.bounded.append(Bounded(
            function="fgg_to_json / json.dumps / json_to_fgg round trip (+ second round trip, sum_product)",
            bound="4 grammars (non-recursive, recursive chain, start of arity 1 with a 3-ary factor, parallel edges + arity-0 factor + repeated attachment; "
                  "<= 3 nodes / <= 3 edges per rule) x id modes {explicit, implicit, mixed} x profiles {dense finite domains, patterned weights "
                  "(diag, SumAxis-embedded block, stride-0, product axis) with range domains, patterned with +-inf entries and non-zero/infinite defaults "
                  "with bool/None/float/str domain values, dense with +-inf}",
            cases=len(rc), distinct_nontrivial=len({json.dumps(c, sort_keys=True) for c in rc}),
            rule="full product, dense weights seeded; every case is a distinct recipe; all have >= 2 rules and >= 2 factors",
            samples=[rc[0], rc[len(rc) // 2], rc[-1]], exhaustive=False))
        wc = weight_spec_cases(ctx.thorough)
        for c in wc:
            check_weights(c, col)
        dc = [{"kind": "dense_weights", "dense": d} for d in (3.0, [1.0, 2.0], [[1.0, "inf"], [0.0, "-inf"]], [[[1.0], [2.0]]], [])]
        for c in dc:
            check_dense_weights(c, col)
        rep.bounded.append(Bounded(
            function="json_to_weights (patterned specifications against an own interpreter)",
            bound="physical of rank 0-2 (incl. size-1 axes and +-inf entries) x expand in {absent, [], [2], [3,2]} x vaxes lists of length 1-3 over "
                  "{int, sum, product, product of sum, sum of product, repeated axis} mentioning every physical axis, or absent x default in {absent, 1.5, inf}",
            cases=len(wc) + len(dc), distinct_nontrivial=len({json.dumps(c, sort_keys=True) for c in wc if c["spec"].get("vaxes") not in (None, [])}),
            rule="enumeration of axis-expression lists (each physical axis mentioned at least once, at most one extra mention); non-trivial = vaxes present and non-empty",
            samples=[wc[0], wc[len(wc) // 2], wc[-1]], exhaustive=True))
        w2 = weights_to_json_cases(ctx)
        for c in w2:
            check_weights_to_json(c, col)
        rep.bounded.append(Bounded(
            function="weights_to_json (patterned weights of any sparsity pattern denote their dense tensor)",
            bound="typed patterns of gen_pt over every shape with numel <= 4 (thorough 6), ndim <= 3, incl. size-1 axes; defaults {0, 0.5, -inf(, inf)}",
            cases=len(w2), distinct_nontrivial=len({json.dumps(c, sort_keys=True) for c in w2}),
            rule="enumeration of gen_pt.patterns_for_shape, seeded finite data; every case is a distinct recipe",
            samples=[w2[0], w2[-1]], exhaustive=False))
        jc = reject_cases()
        for c in jc:
            check_reject(c, col)
        rep.bounded.append(Bounded(
            function="json_to_hrg / json_to_fgg reject out-of-range node numbers",
            bound="grammars with n = 1..3 nodes per rule (all labelled A), every attachment/external position x every number in [-n-1, n]",
            cases=len(jc), distinct_nontrivial=len(jc), rule="enumeration; ValueError iff the number is not in [0, n)",
            samples=[jc[0], jc[-1]], exhaustive=True))
        rep.extra["observations"] = observations()
    rep.extra["failure_counts_by_key"] = dict(sorted(col.counts.items()))
    rep.assumptions.append("meaning of the patterned-weights JSON language as stated in the module docstring (expand axes are prepended and numbered first; "
                           "omitted vaxes = identity)")
    for f in col.fails:
        rep.failures.append(Failure(obligation=f["obligation"], what=f["what"][:500], key=f["key"], detail=f["detail"][:1500],
                                    replay={"module": MODULE, "func": "replay_case", "case": f["case"]}))
    return rep


def replay_case(case: dict) -> bool:
    col = Collector()
    with warnings.catch_warnings():
        warnings.simplefilter("ignore")
        ok = CHECKERS[case["kind"]](case, col)
    for f in col.fails:
        print(f"[C14 replay] {f['obligation']} key={f['key']}\n   {f['what'][:500]}\n   {f['detail'][:500]}")
    if ok:
        print("[C14 replay] contract holds for", json.dumps(case)[:300])
    return not ok
