"""C01 (bounded): sum-product of a non-recursive FGG equals its definition.

Contract, for every non-recursive grammar of the generator G (vf/bounded/gen_fgg.py), every
semiring in {Real, Log, Viterbi, Bool}, dtype in {float32, float64} and method in
{fixed-point, newton, linear}:

    fggs.sum_product(fgg, method=, semiring=).to_dense()   == reference[start]
    fggs.sum_products(fgg, ...)[X].to_dense()               == reference[X]   for every nonterminal X

where the reference (gen_fgg.reference_sum_products) is the semiring sum over rules and over all
assignments of the rule's internal nodes of the semiring product of the edge factors, computed on
Python floats straight from the definition.  Bool exact; finite entries within 1e-4 (float32) /
1e-9 (float64) relative (absolute below 1); 0, -inf, +inf must match exactly.  An exception is a
violation.
"""
from __future__ import annotations
import json
import multiprocessing as mp
import os
import sys
import traceback
import warnings
from typing import Any, Dict, List, Optional, Tuple

from vf.core import Ctx, Report, Bounded, Failure
from vf.bounded import gen_fgg as G

PID = "C01"
MODULE = "props.c01_bounded"
BOUND = ("non-recursive FGGs with <= 3 nonterminals, <= 2 rules each, <= 3 nodes and <= 3 edges per rhs, "
         "arity <= 2, <= 2 node labels of size 1..3, weights in {0, 0.5, 1, 2, inf} + seeded uniform(0,2); "
         "x {Real, Log, Viterbi, Bool} x {float32, float64} x {fixed-point, newton, linear}")
TOL = {"float32": 1e-4, "float64": 1e-9, "bool": 0.0}


def _configs():
    for s in G.SEMIRINGS:
        for d in (("bool",) if s == "Bool" else ("float32", "float64")):
            for m in G.METHODS:
                yield s, d, m


_BLAME = (("zero-times-disconnected-node", ("edgeless_internal", "zero_rule_disconnected")),
          ("zero-next-to-inf", ("zero_next_to_inf",)),
          ("edgeless-internal-node", ("edgeless_internal",)),
          ("edgeless-external-node", ("edgeless_external",)),
          ("double-attachment", ("double_attach",)),
          ("nullary-factor", ("nullary",)),
          ("nonterminal-without-rules", ("uses_nt_without_rules",)),
          ("terminal-twice-in-rule", ("terminal_twice_in_rule",)))


def _blame(recipe, nt: Optional[str], ref_real) -> str:
    """Name the input class: local features of the rules of the first nonterminal (in dependency
    order) whose value is wrong; of all rules when no nonterminal can be singled out."""
    feats = set()
    for r in recipe["rules"]:
        if nt is None or r["lhs"] == nt:
            feats |= set(G.rule_features(recipe, r, ref_real))
    for name, need in _BLAME:
        if all(f in feats for f in need):
            return name
    if nt is not None and not any(r["lhs"] == nt for r in recipe["rules"]):
        return "nonterminal-without-rules"
    return "plain-rule"


def _exc_site(e: BaseException) -> str:
    tb = traceback.extract_tb(e.__traceback__)
    for fr in reversed(tb):
        if "/fggs/" in fr.filename:
            return f"{os.path.basename(fr.filename)}:{fr.name}"
    return "?"


def check_one(recipe, sname: str, dname: str, method: str, refs: Dict[str, Any]) -> List[dict]:
    """Run the library once for sum_products and once for sum_product; list of violation dicts."""
    import fggs
    out: List[dict] = []
    ref = refs[sname]
    tol = TOL[dname]
    order = [x for comp in G.sccs(recipe) for x in comp]
    case = {"recipe": recipe, "semiring": sname, "dtype": dname, "method": method}
    # --- sum_products
    try:
        with warnings.catch_warnings():
            warnings.simplefilter("ignore")
            fgg = G.build_fgg(recipe, sname, dname)
            res = fggs.sum_products(fgg, method=method, semiring=G.make_semiring(sname, dname))
            dense = {}
            for x in order:
                el = fgg.get_edge_label(x)
                if el not in res:
                    raise KeyError(f"sum_products has no entry for nonterminal {x}")
                dense[x] = res[el].to_dense()
    except Exception as e:  # noqa
        blame = _blame(recipe, None, refs["Real"])
        out.append({"clause": "sum_products.no_exception", "kind": f"exception-{type(e).__name__}",
                    "key": f"{sname.lower()}-{blame}:exception-{type(e).__name__}@{_exc_site(e)}",
                    "detail": f"observed {type(e).__name__}: {str(e)[:300]} at {_exc_site(e)}; expected {G.map_nested(G.jnum, ref[recipe['start']])}",
                    "case": dict(case, api="sum_products")})
        dense = None
    if dense is not None:
        for x in order:
            bad = G.compare_dense(dense[x], ref[x], sname, tol)
            if bad:
                idx, o, ex, kind = bad[0]
                blame = _blame(recipe, x, refs["Real"])
                out.append({"clause": "sum_products.entry_equals_definition", "kind": kind,
                            "key": f"{sname.lower()}-{blame}:{kind}",
                            "detail": f"nonterminal {x} index {list(idx)}: observed {G.jnum(o)} expected {G.jnum(ex)} "
                                      f"({len(bad)} wrong entries; observed {dense[x].tolist()} expected {G.map_nested(G.jnum, ref[x])})",
                            "case": dict(case, api="sum_products", nt=x)})
                break       # later nonterminals inherit the error
    # --- sum_product
    try:
        with warnings.catch_warnings():
            warnings.simplefilter("ignore")
            fgg = G.build_fgg(recipe, sname, dname)
            z = fggs.sum_product(fgg, method=method, semiring=G.make_semiring(sname, dname)).to_dense()
    except Exception as e:  # noqa
        blame = _blame(recipe, None, refs["Real"])
        out.append({"clause": "sum_product.no_exception", "kind": f"exception-{type(e).__name__}",
                    "key": f"{sname.lower()}-{blame}:exception-{type(e).__name__}@{_exc_site(e)}",
                    "detail": f"observed {type(e).__name__}: {str(e)[:300]} at {_exc_site(e)}; expected {G.map_nested(G.jnum, ref[recipe['start']])}",
                    "case": dict(case, api="sum_product")})
        return out
    s = recipe["start"]
    bad = G.compare_dense(z, ref[s], sname, tol)
    if bad:
        idx, o, ex, kind = bad[0]
        # blame the first wrong nonterminal in dependency order when sum_products located one
        first = next((f["case"].get("nt") for f in out if f["case"].get("api") == "sum_products" and f["case"].get("nt")), s)
        blame = _blame(recipe, first, refs["Real"])
        out.append({"clause": "sum_product.equals_definition", "kind": kind,
                    "key": f"{sname.lower()}-{blame}:{kind}",
                    "detail": f"start {s} index {list(idx)}: observed {G.jnum(o)} expected {G.jnum(ex)} "
                              f"(observed {z.tolist()} expected {G.map_nested(G.jnum, ref[s])})",
                    "case": dict(case, api="sum_product")})
    return out


def _refs(recipe) -> Dict[str, Any]:
    return {s: G.reference_sum_products(recipe, s) for s in G.SEMIRINGS}


def _worker(chunk: List[dict]) -> Tuple[List[dict], int]:
    import torch
    torch.set_num_threads(1)
    fails: List[dict] = []
    n = 0
    for recipe in chunk:
        refs = _refs(recipe)
        for s, d, m in _configs():
            n += 1
            fails.extend(check_one(recipe, s, d, m, refs))
    return fails, n


def _what(f: dict) -> str:
    c = f["case"]
    fam = (c["recipe"].get("meta") or {}).get("family", "")
    return (f"{c['api']} {c['semiring']}/{c['dtype']}/{c['method']}: {f['kind']} "
            f"[{f['key']}] on grammar {fam or 'G'}" + (f" nonterminal {c['nt']}" if c.get("nt") else ""))


def _preimport():
    """Under ./check (OMP_NUM_THREADS=1) import torch and fggs once in the parent so that the forked
    workers do not each pay for the import; otherwise leave the import to the workers (fork-safe)."""
    if os.environ.get("OMP_NUM_THREADS") == "1":
        import torch
        import fggs  # noqa
        torch.set_num_threads(1)


def run_bounded(ctx: Ctx) -> Report:
    rep = Report(property_id=PID, level="exploration")
    rep.functions_under_contract = ["fggs.sum_product.sum_product", "fggs.sum_product.sum_products"]
    rng = ctx.rng("c01-grammars")
    recipes = list(G.enum_nonrecursive(ctx.tier, rng))
    if ctx.thorough:            # more seeded random grammars than the shared thorough enumeration has
        seen = {G.canonical(g) for g in recipes}
        for _ in range(10000):
            g = G.random_grammar(rng, ())
            c = G.canonical(g)
            if c not in seen:
                seen.add(c)
                g["meta"] = {"family": "random-extra"}
                recipes.append(g)
    distinct = set()
    nontrivial = 0
    feature_count: Dict[str, int] = {}
    for g in recipes:
        c = G.canonical(g)
        if c in distinct:
            continue
        distinct.add(c)
        fs = G.features_of(g)
        for f in fs:
            feature_count[f] = feature_count.get(f, 0) + 1
        start_val = G.flatten(G.reference_sum_products(g, "Real")[g["start"]])
        if fs or any(v != 0 for v in start_val):
            nontrivial += 1
    jobs = max(1, min(ctx.jobs, len(recipes)))
    size = max(1, min(40, len(recipes) // (jobs * 4) or 1))
    chunks = [recipes[i:i + size] for i in range(0, len(recipes), size)]
    fails: List[dict] = []
    evals = 0
    if jobs > 1:
        _preimport()
        with mp.get_context("fork").Pool(jobs) as pool:
            for fl, n in pool.imap(_worker, chunks):
                fails.extend(fl)
                evals += n
    else:
        for ch in chunks:
            fl, n = _worker(ch)
            fails.extend(fl)
            evals += n
    per_key: Dict[str, int] = {}
    for f in fails:
        per_key[f["key"]] = per_key.get(f["key"], 0) + 1
        if per_key[f["key"]] <= 3:
            rep.failures.append(Failure(
                obligation=f["clause"], what=_what(f), key=f["key"], detail=f["detail"],
                replay={"module": MODULE, "func": "replay_case", "case": f["case"]}))
    rep.bounded.append(Bounded(
        function="fggs.sum_product / fggs.sum_products (non-recursive)",
        bound=BOUND, cases=evals, distinct_nontrivial=nontrivial,
        rule=("grammars: hand-written seeds + covering array over the 12 listed shape features (every feature and "
              "every compatible pair, measured by features_of) + seeded random grammars; a case is one "
              "(grammar, semiring, dtype, method) evaluation comparing sum_product and every sum_products entry; "
              "distinct = distinct canonical recipe; non-trivial = exhibits a listed feature or has a non-zero start value"),
        samples=[{k: v for k, v in g.items()} for g in recipes[:3]],
        exhaustive=False,
        extra={"grammars": len(recipes), "distinct_grammars": len(distinct), "feature_counts": feature_count,
               "violations_per_key": dict(sorted(per_key.items())), "violations_total": len(fails)}))
    rep.extra["c01_bounded_violations_per_key"] = dict(sorted(per_key.items()))
    return rep


def replay_case(case: dict) -> bool:
    recipe = case["recipe"]
    refs = _refs(recipe)
    found = check_one(recipe, case["semiring"], case["dtype"], case["method"], refs)
    api = case.get("api")
    hit = [f for f in found if f["case"].get("api") == api] or found
    print(f"C01 replay {case['semiring']}/{case['dtype']}/{case['method']} {api}: "
          f"{'VIOLATION reproduces' if hit else 'no violation'}")
    for f in hit[:3]:
        print("  ", f["clause"], f["key"])
        print("  ", f["detail"])
    if not hit:
        print("   expected", {x: G.map_nested(G.jnum, v) for x, v in refs[case["semiring"]].items()})
    return bool(hit)


if __name__ == "__main__":
    tier = sys.argv[1] if len(sys.argv) > 1 else "quick"
    import time
    t0 = time.time()
    r = run_bounded(Ctx(PID, tier, 0))
    print(json.dumps(r.bounded[0].extra, indent=1))
    print(len(r.failures), "failure records;", r.bounded[0].cases, "cases;", round(time.time() - t0, 1), "s")
    for f in r.failures:
        print(f.obligation, "|", f.key, "|", f.detail[:200])
