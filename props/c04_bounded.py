"""C04 (bounded): viterbi returns a well-formed derivation of maximal weight.

For grammars of the generator G with log-weights (non-recursive ones, and recursive ones whose
cycles have log-weight <= 0), dtype in {float32 (default semiring), float64} and every start
assignment whose best derivation weight is finite (max-plus reference, float64):

  no_exception     fggs.viterbi(fgg, start_asst) returns
  well_formed      walking the FGGDerivation: rule in fgg.rules(nonterminal being rewritten);
                   children keys = exactly the nonterminal edges of rule.rhs; asst defined on every
                   node of rule.rhs with a value in range(domain size); external nodes agree with the
                   parent's assignment (root: with start_asst)
  weight_maximal   sum of the terminal log-weights at the assigned values over all rule instances
                   == reference maximum (1e-5), == Viterbi-semiring sum_product at start_asst
  derive           .derive() returns a factor graph without nonterminal edges and an assignment of
                   all its nodes whose total log-weight is the same maximum
Ties: any maximal derivation is accepted.
"""
from __future__ import annotations
import itertools
import json
import math
import multiprocessing as mp
import os
import sys
import traceback
import warnings
from typing import Any, Dict, List, Optional, Tuple

from vf.core import Ctx, Report, Bounded, Failure
from vf.bounded import gen_fgg as G

PID = "C04"
MODULE = "props.c04_bounded"
INF = math.inf
TOL = 1e-5
BOUND = ("FGGs within the bound of G (<= 3 nonterminals, <= 2 rules each, <= 3 nodes / 3 edges per rhs, arity <= 2, "
         "domain sizes 1..3) with log-weights in {-inf, -2, -1, 0} + seeded, non-recursive and recursive with cycle "
         "log-weight <= 0, ties, rules whose attached nodes are all external, rules with edgeless internal/external "
         "nodes, start arity 0-2; x {float32, float64} x every start assignment with finite best weight")
_LOGS = (-INF, -2.0, -1.0, 0.0)


# ------------------------------------------------------------------------------------------
# grammars
# ------------------------------------------------------------------------------------------

def to_log_weights(recipe, rng) -> dict:
    """Same skeleton, weights replaced by log-weights in {-inf,-2,-1,0} (70%) or seeded uniform(-3,0)."""
    g = json.loads(json.dumps({k: v for k, v in recipe.items() if k != "meta"}))
    def draw(_):
        if rng.random() < 0.7:
            return G.jnum(rng.choice(_LOGS + (-1.0, 0.0)))
        return round(rng.uniform(-3.0, 0.0), 3)
    g["weights"] = {t: G.map_nested(draw, w) for t, w in g["weights"].items()}
    g["weights_log"] = True
    g["meta"] = dict(recipe.get("meta") or {})
    return g


_SHAPES = ("summed-node-of-size-1", "all-attached-nodes-external", "edgeless-external-node",
           "edgeless-internal-node", "no-edges")


def rule_shape(recipe, r) -> List[str]:
    """Shapes the statement singles out (in the order in which viterbi meets them): a summed (internal,
    attached) node whose domain has one value; edges but nothing to maximise over; edgeless nodes."""
    att = [i for e in r["edges"] for i in e["att"]]
    out = []
    if any(i not in r["ext"] and recipe["node_labels"][r["nodes"][i]] == 1 for i in att):
        out.append("summed-node-of-size-1")
    if r["edges"] and not any(i not in r["ext"] for i in att):
        out.append("all-attached-nodes-external")
    if any(i not in att for i in r["ext"]):
        out.append("edgeless-external-node")
    if any(i not in att and i not in r["ext"] for i in range(len(r["nodes"]))):
        out.append("edgeless-internal-node")
    if not r["edges"]:
        out.append("no-edges")
    return out


def grammar_shapes(recipe) -> List[str]:
    s = set()
    for r in recipe["rules"]:
        s |= set(rule_shape(recipe, r))
    return sorted(s)


def handwritten() -> List[dict]:
    T, N = True, False
    mk = G._mk
    out = []
    for d in (1, 2, 3):
        v = [-1.0, 0.0, -2.0][:d]
        m = [[-1.0, 0.0, -INF], [-2.0, -2.0, 0.0], [0.0, -INF, -1.0]]
        m = [row[:d] for row in m[:d]]
        # every rule has an internal attached node (the plain case)
        out.append(mk({"N0": d}, {"S": ([], N), "X": (["N0"], N), "a": (["N0", "N0"], T), "b": (["N0"], T)}, "S",
                      [("S", ["N0", "N0"], [("a", [0, 1]), ("X", [1])], []),
                       ("X", ["N0", "N0"], [("b", [0]), ("a", [0, 1])], [0])],
                      {"a": m, "b": v}, {"family": "plain-internal-nodes"}, weights_log=True))
        # ties: two rules of equal weight, two assignments of equal weight
        out.append(mk({"N0": d}, {"S": ([], N), "a": (["N0"], T), "b": (["N0"], T)}, "S",
                      [("S", ["N0"], [("a", [0])], []), ("S", ["N0"], [("b", [0])], [])],
                      {"a": [-1.0] * d, "b": [-1.0] * d}, {"family": "ties"}, weights_log=True))
        # all attached nodes external: S(n) -> b(n); and through a nonterminal
        out.append(mk({"N0": d}, {"S": (["N0"], N), "b": (["N0"], T)}, "S",
                      [("S", ["N0"], [("b", [0])], [0])], {"b": v}, {"family": "all-external-start-arity1"}, weights_log=True))
        out.append(mk({"N0": d}, {"S": ([], N), "X": (["N0"], N), "b": (["N0"], T)}, "S",
                      [("S", ["N0"], [("X", [0]), ("b", [0])], []), ("X", ["N0"], [("b", [0])], [0])],
                      {"b": v}, {"family": "all-external-child"}, weights_log=True))
        out.append(mk({"N0": d}, {"S": (["N0", "N0"], N), "a": (["N0", "N0"], T)}, "S",
                      [("S", ["N0", "N0"], [("a", [0, 1])], [0, 1])], {"a": m}, {"family": "all-external-start-arity2"},
                      weights_log=True))
        # edgeless internal node next to a connected internal node; edgeless external node
        out.append(mk({"N0": d}, {"S": ([], N), "b": (["N0"], T)}, "S",
                      [("S", ["N0", "N0"], [("b", [0])], [])], {"b": v}, {"family": "edgeless-internal"}, weights_log=True))
        out.append(mk({"N0": d}, {"S": (["N0"], N), "b": (["N0"], T)}, "S",
                      [("S", ["N0", "N0"], [("b", [1])], [0])], {"b": v}, {"family": "edgeless-external"}, weights_log=True))
        # double attachment on an internal node
        out.append(mk({"N0": d}, {"S": ([], N), "a": (["N0", "N0"], T)}, "S",
                      [("S", ["N0"], [("a", [0, 0])], [])], {"a": m}, {"family": "double-attach-internal"}, weights_log=True))
    # nullary factor only (nothing to maximise over, no nodes at all); empty rhs
    out.append(mk({"N0": 2}, {"S": ([], N), "c": ([], T)}, "S", [("S", [], [("c", [])], [])], {"c": -1.0},
                  {"family": "nullary-only"}, weights_log=True))
    out.append(mk({"N0": 2}, {"S": ([], N)}, "S", [("S", [], [], [])], {}, {"family": "empty-rhs"}, weights_log=True))
    out.append(mk({"N0": 2}, {"S": (["N0"], N)}, "S", [("S", ["N0", "N0"], [], [0])], {}, {"family": "no-edges-edgeless-nodes"},
                  weights_log=True))
    # second rule better than the first; first rule vanishing (uses a nonterminal without rules)
    out.append(mk({"N0": 2}, {"S": ([], N), "X": (["N0"], N), "Y": (["N0"], N), "b": (["N0"], T), "e": (["N0"], T)}, "S",
                  [("S", ["N0"], [("Y", [0]), ("b", [0])], []), ("S", ["N0"], [("X", [0]), ("b", [0])], []),
                   ("X", ["N0", "N0"], [("e", [1]), ("b", [0])], [0])],
                  {"b": [-2.0, -1.0], "e": [0.0, -1.0]}, {"family": "vanishing-first-rule"}, weights_log=True))
    # recursive, cycle weight <= 0: chain X(n) -> t(n,m) X(m) | b(n), with a zero-weight cycle
    out.append(mk({"N0": 2}, {"S": ([], N), "X": (["N0"], N), "t": (["N0", "N0"], T), "b": (["N0"], T)}, "S",
                  [("S", ["N0"], [("X", [0])], []),
                   ("X", ["N0", "N0"], [("t", [0, 1]), ("X", [1])], [0]), ("X", ["N0", "N0"], [("b", [0]), ("t", [0, 1])], [0])],
                  {"t": [[0.0, -1.0], [0.0, -2.0]], "b": [-3.0, -1.0]}, {"family": "recursive-chain-zero-cycle"}, weights_log=True))
    out.append(mk({"N0": 2}, {"S": ([], N), "X": ([], N), "t": (["N0"], T), "b": (["N0"], T)}, "S",
                  [("S", ["N0"], [("X", []), ("t", [0])], []),
                   ("X", ["N0"], [("X", []), ("X", []), ("t", [0])], []), ("X", ["N0"], [("b", [0])], [])],
                  {"t": [-1.0, -0.5], "b": [-2.0, -1.0]}, {"family": "recursive-nonlinear"}, weights_log=True))
    # an acyclic nonterminal T and a recursive R side by side (either may be scheduled first); the best R
    # derivation needs the recursive rule:  S -> f(t) T(t) R(t) | f(t) R(t) T(t);  R(t) -> m(t,u) R(u) | stop(t)
    for order in (0, 1):
        tr = [("T", [0]), ("R", [0])] if order == 0 else [("R", [0]), ("T", [0])]
        out.append(mk({"N0": 2}, {"S": ([], N), "T": (["N0"], N), "R": (["N0"], N), "f": (["N0"], T), "b": (["N0"], T),
                                 "m": (["N0", "N0"], T), "stop": (["N0"], T)}, "S",
                      [("S", ["N0"], [("f", [0])] + tr, []), ("T", ["N0"], [("b", [0])], [0]),
                       ("R", ["N0", "N0"], [("m", [0, 1]), ("R", [1])], [0]), ("R", ["N0"], [("stop", [0])], [0])],
                      {"f": [0.0, -3.0], "b": [-0.5, -0.5], "m": [[-2.0, -0.1], [-2.0, -2.0]], "stop": [-4.0, -0.2]},
                      {"family": "acyclic-next-to-recursive"}, weights_log=True))
    return out


def _ok_for_viterbi(recipe) -> bool:
    """no rule has one of the four shapes on which viterbi is expected to break"""
    return not (set(grammar_shapes(recipe)) & set(_SHAPES[:4]))


def enum_grammars(tier: str, rng) -> List[dict]:
    n_nonrec, n_rec, n_plain = (150, 40, 200) if tier == "quick" else (4000, 800, 6000)
    out, seen = [], set()
    def add(g):
        c = G.canonical(g)
        if c not in seen:
            seen.add(c)
            out.append(g)
            return True
        return False
    for g in handwritten():
        G.validate(g)
        add(g)
    for g in itertools.islice(G.enum_nonrecursive("thorough", rng), n_nonrec):
        add(to_log_weights(g, rng))
    k = 0
    for g in G.enum_recursive("thorough", rng):
        if k >= n_rec:
            break
        if add(to_log_weights(g, rng)):
            k += 1
    # grammars none of whose rules has one of the two shapes expected to break viterbi, so that the
    # remaining clauses are exercised too
    for rec, target in ((False, n_plain), (True, n_plain // 3)):
        k = tries = 0
        while k < target and tries < 2000 * target:
            tries += 1
            g = G.random_grammar(rng, (), recursive=rec)
            if G.is_recursive(g) != rec or not _ok_for_viterbi(g) or not any(r["edges"] for r in g["rules"]):
                continue
            g = to_log_weights(g, rng)
            g["meta"] = {"family": "random-plain" + ("-recursive" if rec else "")}
            if not _scope(g):       # needs a start assignment with a finite best weight
                continue
            if add(g):
                k += 1
    return out


# ------------------------------------------------------------------------------------------
# the contract
# ------------------------------------------------------------------------------------------

class _Bad(Exception):
    def __init__(self, clause, kind, msg):
        super().__init__(msg)
        self.clause, self.kind, self.msg = clause, kind, msg


def _exc_site(e: BaseException) -> str:
    tb = traceback.extract_tb(e.__traceback__)
    for fr in reversed(tb):
        if "/fggs/" in fr.filename:
            return f"{os.path.basename(fr.filename)}:{fr.name}"
    return "?"


def _failing_rule(e: BaseException, info) -> Optional[int]:
    """recipe number of the rule viterbi was evaluating when the exception escaped (from the traceback)."""
    tb = e.__traceback__
    found = None
    while tb is not None:
        fr = tb.tb_frame
        if fr.f_code.co_name == "sum_product_edges" and fr.f_code.co_filename.endswith("viterbi.py"):
            rule = fr.f_locals.get("rule")
            found = next((i for i, r in enumerate(info["rules"]) if r is rule), found)
        tb = tb.tb_next
    return found


def _walk(recipe, fgg, info, deriv, nt_name: str, ext_vals: Tuple[int, ...], wlog, budget: List[int]):
    """Check one FGGDerivation node and recurse.  Returns (total log-weight, #terminal edges, #internal nodes)."""
    import fggs
    budget[0] -= 1
    if budget[0] < 0:
        raise _Bad("viterbi.well_formed", "derivation-too-large", "more than 2000 rule instances")
    if not isinstance(deriv, fggs.FGGDerivation):
        raise _Bad("viterbi.well_formed", "not-a-derivation", f"{type(deriv).__name__} instead of FGGDerivation")
    nt = info["labels"][nt_name]
    ri = next((i for i, r in enumerate(info["rules"]) if r is deriv.rule), None)
    if ri is None or recipe["rules"][ri]["lhs"] != nt_name or not any(deriv.rule is r for r in fgg.rules(nt)):
        raise _Bad("viterbi.well_formed", "rule-not-of-nonterminal",
                   f"step rewriting {nt_name} uses rule {ri if ri is not None else '<foreign>'}"
                   f" (lhs {deriv.rule.lhs.name})")
    rr = recipe["rules"][ri]
    nodes, edges = info["nodes"][ri], info["edges"][ri]
    vals: List[int] = []
    for j, node in enumerate(nodes):
        if node not in deriv.asst:
            raise _Bad("viterbi.well_formed", "asst-missing-node",
                       f"rule {ri} ({nt_name}): node {j} ({'external' if j in rr['ext'] else 'internal'}, "
                       f"{'edgeless' if all(j not in e['att'] for e in rr['edges']) else 'attached'}) has no value in asst")
        v = deriv.asst[node]
        size = recipe["node_labels"][rr["nodes"][j]]
        if isinstance(v, bool) or not isinstance(v, int) and not (hasattr(v, "__index__")):
            raise _Bad("viterbi.well_formed", "asst-value-not-int", f"rule {ri} node {j}: value {v!r}")
        v = int(v)
        if not 0 <= v < size:
            raise _Bad("viterbi.well_formed", "asst-value-out-of-domain", f"rule {ri} node {j}: value {v} not in range({size})")
        vals.append(v)
    extra_nodes = [n for n in deriv.asst if not any(n is m or n == m for m in nodes)]
    if extra_nodes:
        raise _Bad("viterbi.well_formed", "asst-foreign-node", f"rule {ri}: asst has {len(extra_nodes)} nodes not in rule.rhs")
    got_ext = tuple(vals[j] for j in rr["ext"])
    if got_ext != tuple(ext_vals):
        raise _Bad("viterbi.well_formed", "external-disagrees-with-parent",
                   f"rule {ri} ({nt_name}): external values {got_ext} but parent assigns {tuple(ext_vals)}")
    nt_edges = [k for k, e in enumerate(rr["edges"]) if not recipe["edge_labels"][e["label"]]["terminal"]]
    keys = list(deriv.children.keys())
    want = [edges[k] for k in nt_edges]
    if len(keys) != len(want) or any(not any(kk is w for kk in keys) for w in want):
        raise _Bad("viterbi.well_formed", "children-not-nonterminal-edges",
                   f"rule {ri}: children for {len(keys)} edges, rule has {len(want)} nonterminal edges")
    total, n_term, n_int = 0.0, 0, len(nodes) - len(rr["ext"])
    for k, e in enumerate(rr["edges"]):
        idx = [vals[j] for j in e["att"]]
        if recipe["edge_labels"][e["label"]]["terminal"]:
            total += G.nested_get(wlog[e["label"]], idx)
            n_term += 1
        else:
            t, a, b = _walk(recipe, fgg, info, deriv.children[edges[k]], e["label"], tuple(idx), wlog, budget)
            total += t
            n_term += a
            n_int += b
    return total, n_term, n_int


def check_one(recipe, dname: str, start_asst: Tuple[int, ...], best: float) -> List[dict]:
    import fggs
    case = {"recipe": recipe, "dtype": dname, "start_asst": list(start_asst)}
    shapes = grammar_shapes(recipe)
    def fail(clause, kind, detail, blame=None, rule=None):
        if blame is None:
            sh = rule_shape(recipe, recipe["rules"][rule]) if rule is not None else shapes
            blame = next((s for s in _SHAPES if s in sh), "plain-rules")
        return [{"clause": clause, "kind": kind, "key": f"viterbi-{blame}:{kind}", "detail": detail, "case": case}]
    wlog = G.convert_weights(recipe, "Viterbi")
    with warnings.catch_warnings():
        warnings.simplefilter("ignore")
        info = None
        try:
            grad = dname.endswith("+grad")        # the same log-weights, as tensors that require gradients
            dname = dname.split("+")[0]
            fgg, info = G.build_fgg_info(recipe, "Viterbi", dname)
            if grad:
                for fac in fgg.factors.values():
                    fac.weights = fac.weights.to_dense().clone().requires_grad_(True)
            opts = {} if dname == "float32" else {"semiring": G.make_semiring("Viterbi", dname)}
            deriv = fggs.viterbi(fgg, tuple(start_asst), **opts)
        except RecursionError as e:
            in_reconstruct = any(fr.name == "reconstruct" for fr in traceback.extract_tb(e.__traceback__))
            blame = "zero-weight-cycle-tie" if G.has_unit_cycle(recipe) else None
            return fail("viterbi.no_exception", "exception-RecursionError@" + ("viterbi.py:reconstruct" if in_reconstruct else _exc_site(e)),
                        f"observed RecursionError ({'unbounded recursion in reconstruct' if in_reconstruct else str(e)[:100]}); "
                        f"expected a finite derivation of log-weight {best}", blame)
        except Exception as e:  # noqa
            ri = _failing_rule(e, info) if info is not None else None
            sh = rule_shape(recipe, recipe["rules"][ri]) if ri is not None else shapes
            return fail("viterbi.no_exception", f"exception-{type(e).__name__}@{_exc_site(e)}",
                        f"observed {type(e).__name__}: {str(e)[:300]} at {_exc_site(e)} while evaluating rule {ri} "
                        f"(shapes {sh}); expected a derivation of log-weight {best}", rule=ri)
        try:
            total, n_term, n_int = _walk(recipe, fgg, info, deriv, recipe["start"], tuple(start_asst), wlog, [2000])
        except _Bad as b:
            blame = None
            if b.kind == "asst-missing-node":
                blame = "edgeless-internal-node" if "internal, edgeless" in b.msg else "rule-node"
            return fail(b.clause, b.kind, f"observed {b.msg}; expected a well-formed derivation of log-weight {best}", blame)
        except RecursionError:
            return fail("viterbi.well_formed", "derivation-infinite", "observed unbounded derivation; expected a finite tree")
        if not abs(total - best) <= TOL * max(1.0, abs(best)):
            kind = "suboptimal-derivation" if total < best else "weight-above-maximum"
            return fail("viterbi.weight_maximal", kind,
                        f"observed derivation log-weight {total}; expected maximum {best}")
        out: List[dict] = []
        # Viterbi-semiring sum_product at the start assignment
        try:
            z = fggs.sum_product(G.build_fgg(recipe, "Viterbi", dname), method="fixed-point",
                                 semiring=G.make_semiring("Viterbi", dname)).to_dense()
            zv = z[tuple(start_asst)].item()
            if not abs(zv - best) <= TOL * max(1.0, abs(best)):
                out += fail("viterbi.weight_equals_sum_product", "sum-product-differs",
                            f"observed Viterbi sum_product {zv} at {list(start_asst)}; derivation and reference weight {best}")
        except Exception as e:  # noqa
            out += fail("viterbi.weight_equals_sum_product", f"sum-product-exception-{type(e).__name__}",
                        f"observed {type(e).__name__}: {str(e)[:200]}")
        # derive()
        try:
            graph, asst = deriv.derive()
        except Exception as e:  # noqa
            return out + fail("viterbi.derive", f"derive-exception-{type(e).__name__}@{_exc_site(e)}",
                              f"observed {type(e).__name__}: {str(e)[:300]} at {_exc_site(e)}; expected the derived factor graph")
        gt = 0.0
        for e in graph.edges():
            if e.label.is_nonterminal:
                return out + fail("viterbi.derive", "derived-graph-has-nonterminal-edge", f"observed edge labelled {e.label.name}")
            try:
                idx = [int(asst[n]) for n in e.nodes]
            except KeyError:
                return out + fail("viterbi.derive", "derived-asst-missing-node", "observed an edge whose node has no value")
            gt += G.nested_get(wlog[e.label.name], idx)
        missing = [n for n in graph.nodes() if n not in asst]
        if missing:
            return out + fail("viterbi.derive", "derived-asst-missing-node", f"observed {len(missing)} graph nodes without a value")
        n_edges, n_nodes = len(list(graph.edges())), len(list(graph.nodes()))
        if n_edges != n_term or n_nodes != n_int + len(start_asst):
            return out + fail("viterbi.derive", "derived-graph-size",
                              f"observed {n_nodes} nodes / {n_edges} edges; expected {n_int + len(start_asst)} / {n_term}")
        if not abs(gt - best) <= TOL * max(1.0, abs(best)):
            return out + fail("viterbi.derive", "derived-weight-differs",
                              f"observed derived factor graph log-weight {gt}; expected {best}")
        return out


def _scope(recipe):
    """[(start_asst, best)] with finite best weight; None when the max-plus reference does not converge."""
    ref = G.reference_sum_products(recipe, "Viterbi")
    if ref.status != "finite":
        return None
    out = []
    for a in G.start_assignments(recipe):
        v = G.nested_get(ref[recipe["start"]], a)
        if v not in (INF, -INF):
            out.append((a, v))
    return out


def _worker(chunk: List[dict]):
    import torch
    torch.set_num_threads(1)
    fails: List[dict] = []
    n = 0
    stats = {"grammars_no_finite_start": 0, "grammars_positive_cycle": 0, "grammars_in_scope": 0}
    for recipe in chunk:
        sc = _scope(recipe)
        if sc is None:
            stats["grammars_positive_cycle"] += 1
            continue
        if not sc:
            stats["grammars_no_finite_start"] += 1
            continue
        stats["grammars_in_scope"] += 1
        for d in ("float32", "float64", "float64+grad"):
            for a, best in (sc if d != "float64+grad" else sc[:1]):
                n += 1
                fails.extend(check_one(recipe, d, a, best))
    return fails, n, stats


def _what(f: dict) -> str:
    c = f["case"]
    fam = (c["recipe"].get("meta") or {}).get("family", "")
    return f"viterbi {c['dtype']} start_asst={c['start_asst']}: {f['kind']} [{f['key']}] on grammar {fam or 'G'}"


def _preimport():
    """Under ./check (OMP_NUM_THREADS=1) import torch and fggs once in the parent so that the forked
    workers do not each pay for the import; otherwise leave the import to the workers (fork-safe)."""
    if os.environ.get("OMP_NUM_THREADS") == "1":
        import torch
        import fggs  # noqa
        torch.set_num_threads(1)


def run_bounded(ctx: Ctx) -> Report:
    rep = Report(property_id=PID, level="exploration")
    rep.functions_under_contract = ["fggs.viterbi.viterbi", "fggs.viterbi.F_viterbi", "fggs.viterbi.sum_product_edges",
                                    "fggs.derivations.FGGDerivation.derive"]
    recipes = enum_grammars(ctx.tier, ctx.rng("c04-grammars"))
    shapes: Dict[str, int] = {}
    for g in recipes:
        for s in grammar_shapes(g) or ["plain"]:
            shapes[s] = shapes.get(s, 0) + 1
        if G.is_recursive(g):
            shapes["recursive"] = shapes.get("recursive", 0) + 1
    jobs = max(1, min(ctx.jobs, len(recipes)))
    size = max(1, min(40, len(recipes) // (jobs * 4) or 1))
    chunks = [recipes[i:i + size] for i in range(0, len(recipes), size)]
    fails: List[dict] = []
    evals = 0
    stats: Dict[str, int] = {}
    def absorb(res):
        nonlocal evals
        fl, n, st = res
        fails.extend(fl)
        evals += n
        for k, v in st.items():
            stats[k] = stats.get(k, 0) + v
    if jobs > 1:
        _preimport()
        with mp.get_context("fork").Pool(jobs) as pool:
            for res in pool.imap(_worker, chunks):
                absorb(res)
    else:
        for ch in chunks:
            absorb(_worker(ch))
    per_key: Dict[str, int] = {}
    for f in fails:
        per_key[f["key"]] = per_key.get(f["key"], 0) + 1
        if per_key[f["key"]] <= 3:
            rep.failures.append(Failure(
                obligation=f["clause"], what=_what(f), key=f["key"], detail=f["detail"],
                replay={"module": MODULE, "func": "replay_case", "case": f["case"]}))
    rep.bounded.append(Bounded(
        function="fggs.viterbi (+ FGGDerivation.derive)",
        bound=BOUND, cases=evals, distinct_nontrivial=stats.get("grammars_in_scope", 0),
        rule=("hand-written shapes (ties, all attached nodes external, edgeless internal/external nodes, nullary, empty rhs, "
              "vanishing first rule, recursive with zero-weight cycle) + G's non-recursive and recursive skeletons with "
              "log-weights from {-inf,-2,-1,0} + seeded + random grammars all of whose rules have an internal attached node; "
              "a case is one (grammar, dtype, start assignment with finite best weight); distinct non-trivial = distinct "
              "canonical recipes with at least one such start assignment"),
        samples=recipes[:3], exhaustive=False,
        extra={"grammars": len(recipes), "rule_shapes": shapes, **stats,
               "violations_per_key": dict(sorted(per_key.items())), "violations_total": len(fails)}))
    rep.extra["c04_bounded_violations_per_key"] = dict(sorted(per_key.items()))
    return rep


def replay_case(case: dict) -> bool:
    recipe = case["recipe"]
    ref = G.reference_sum_products(recipe, "Viterbi")
    a = tuple(case["start_asst"])
    best = G.nested_get(ref[recipe["start"]], a)
    found = check_one(recipe, case["dtype"], a, best)
    print(f"C04 replay viterbi {case['dtype']} start_asst={list(a)} (reference maximum {best}): "
          f"{'VIOLATION reproduces' if found else 'no violation'}")
    for f in found[:3]:
        print("  ", f["clause"], f["key"])
        print("  ", f["detail"])
    return bool(found)


if __name__ == "__main__":
    tier = sys.argv[1] if len(sys.argv) > 1 else "quick"
    import time
    t0 = time.time()
    r = run_bounded(Ctx(PID, tier, 0))
    print(json.dumps(r.bounded[0].extra, indent=1))
    print(len(r.failures), "failure records;", r.bounded[0].cases, "cases;", round(time.time() - t0, 1), "s")
    for f in r.failures:
        print(f.obligation, "|", f.key, "|", f.what, "|", f.detail[:300])
