"""C02 (bounded): sum-product of a recursive FGG is the least fixed point, or says otherwise.

For the recursive families of the generator G (vf/bounded/gen_fgg.py) x {Real, Log, Viterbi, Bool}
x {float32, float64} x {fixed-point, newton, linear} x (tol, kmax) in {(1e-5, 1000), (1e-12, 3)}:

  value clause   (grammars whose reference = Kleene limit of bounded-depth sums is finite)
      every entry of sum_products and sum_product agrees with the reference: Bool exact,
      Viterbi within 1e-5, Real/Log within max(10*tol, 1e-4) (relative, absolute below 1) per cyclic
      SCC the nonterminal depends on (the per-SCC errors of an iterative method add up in a product)
      -- OR a warning was issued by the call (budget exhausted, says so).  Zero entries of the Real
      semiring are compared with the same absolute tolerance (linear solves round).  When fixed-point
      stops at tol=1e-5 outside that bound on a slowly converging grammar, "the error vanishes as tol
      does" is decided directly: at tol 1e-7 (1e-6 in float32) the error must shrink >= 10x.
  linear clause  method='linear' on a grammar that is not linearly recursive raises ValueError;
                 on a linearly recursive one it obeys the value clause.
  An exception on a grammar of the class (other than that ValueError) is a violation.
Grammars whose reference diverges (or contains +inf) are outside the value clause; what the
library does there is only recorded in `extra`.
"""
from __future__ import annotations
import itertools
import json
import multiprocessing as mp
import os
import sys
import traceback
import warnings
from typing import Any, Dict, List, Optional, Tuple

from vf.core import Ctx, Report, Bounded, Failure
from vf.bounded import gen_fgg as G

PID = "C02"
MODULE = "props.c02_bounded"
BUDGETS = {"generous": (1e-5, 1000), "tight": (1e-12, 3), "single": (1e-12, 1)}
REF_MAX_ITER = 5000
BOUND = ("recursive FGGs within the bound of G (<= 3 nonterminals, <= 3 rules each (random: 2), <= 3 nodes / 3 edges per rhs, "
         "arity <= 2, domain sizes 1..3): self-loop with cycle weight 0.3 / 0.9 / exactly 1 (Viterbi, Bool), mutual "
         "recursion, non-linear X -> X X | a, chained linear/non-linear SCCs, recursion through arity 1-2, two linear rules with the same lhs and recursive nonterminal, Log cycles with log-weight -1e-4..-1e-13 (closed-form reference), seeded random "
         "recursive grammars; x 4 semirings x {float32, float64} x {fixed-point, newton, linear} x (tol,kmax) in "
         "{(1e-5,1000), (1e-12,3), (1e-12,1)}")


def _configs(recipe):
    meta = recipe.get("meta") or {}
    sems = meta.get("semirings") or G.SEMIRINGS
    buds = meta.get("budgets") or list(BUDGETS)
    methods = meta.get("methods") or G.METHODS
    for s in sems:
        for d in (("bool",) if s == "Bool" else ("float32", "float64")):
            for m in methods:
                for b in buds:
                    yield s, d, m, b


def _value_tol(sname: str, tol: float) -> float:
    if sname == "Bool":
        return 0.0
    if sname == "Viterbi":
        return 1e-5
    return max(10 * tol, 1e-4)


def _scc_class(recipe, nt: Optional[str]) -> str:
    """linear-scc / nonlinear-scc / acyclic for the SCC of nt (whole grammar when nt is None)."""
    if nt is None:
        return "linear-scc" if G.is_linearly_recursive(recipe) else "nonlinear-scc"
    for comp in G.sccs(recipe):
        if nt in comp:
            if not G.scc_is_cyclic(recipe, comp):
                return "acyclic"
            cs = set(comp)
            mx = max([sum(1 for e in r["edges"] if e["label"] in cs) for r in recipe["rules"] if r["lhs"] in cs] or [0])
            return "linear-scc" if mx <= 1 else "nonlinear-scc"
    return "?"


_SPECIAL_BLAME = (("zero-times-disconnected-node", ("edgeless_internal", "zero_rule_disconnected")),
                  ("zero-next-to-inf", ("zero_next_to_inf",)))


def _special_blame(recipe, nt: Optional[str], ref_real) -> str:
    """'-zero-times-disconnected-node' / '-zero-next-to-inf' when a rule of the SCC of nt (any rule when nt is
    None) has that special-value shape, else ''.  Only used to name the input class of inf-related mismatches."""
    comp = None
    if nt is not None:
        comp = next((set(c) for c in G.sccs(recipe) if nt in c), None)
    for name, need in _SPECIAL_BLAME:
        for r in recipe["rules"]:
            if comp is not None and r["lhs"] not in comp:
                continue
            fs = G.rule_features(recipe, r, ref_real)
            if all(f in fs for f in need):
                return "-" + name
    return ""


def _n_cyclic_below(recipe, nt: str) -> int:
    """number of cyclic SCCs the value of nt depends on (its own included), at least 1."""
    reach = G._reach(recipe)
    below = set(reach[nt]) | {nt}
    return max(1, sum(1 for c in G.sccs(recipe) if G.scc_is_cyclic(recipe, c) and set(c) & below))


def _exc_site(e: BaseException) -> str:
    tb = traceback.extract_tb(e.__traceback__)
    for fr in reversed(tb):
        if "/fggs/" in fr.filename:
            return f"{os.path.basename(fr.filename)}:{fr.name}"
    return "?"


def run_library(recipe, sname, dname, method, tol, kmax):
    """-> (dense dict | None, start dense | None, warnings list, exception | None)"""
    import fggs
    with warnings.catch_warnings(record=True) as wlist:
        warnings.simplefilter("always")
        try:
            fgg = G.build_fgg(recipe, sname, dname)
            res = fggs.sum_products(fgg, method=method, semiring=G.make_semiring(sname, dname), tol=tol, kmax=kmax)
            dense = {x: res[fgg.get_edge_label(x)].to_dense() for x in G.nonterminals(recipe)}
            fgg2 = G.build_fgg(recipe, sname, dname)
            z = fggs.sum_product(fgg2, method=method, semiring=G.make_semiring(sname, dname), tol=tol, kmax=kmax).to_dense()
        except Exception as e:  # noqa
            return None, None, [str(w.message) for w in wlist], e
    return dense, z, [str(w.message) for w in wlist], None


def check_one(recipe, sname, dname, method, budget, info) -> Tuple[List[dict], Dict[str, int]]:
    tol, kmax = BUDGETS[budget]
    ref = info["refs"][sname]
    in_scope = info["scope"][sname]
    linear = info["linear"]
    unit = info["unit_cycle"]
    case = {"recipe": recipe, "semiring": sname, "dtype": dname, "method": method, "tol": tol, "kmax": kmax, "budget": budget}
    stats: Dict[str, int] = {}
    def bump(k):
        stats[k] = stats.get(k, 0) + 1
    out: List[dict] = []
    dense, z, wl, exc = run_library(recipe, sname, dname, method, tol, kmax)
    tag = lambda nt: _scc_class(recipe, nt) + ("-unit-cycle" if unit and sname in ("Viterbi", "Bool") else "")
    pre = f"{sname.lower()}-{method}"
    if method == "linear" and not linear:
        if isinstance(exc, ValueError):
            bump("linear-raises-ValueError")
            return out, stats
        what = f"{type(exc).__name__}: {exc}" if exc is not None else "no exception"
        out.append({"clause": "sum_product.linear.raises_ValueError", "kind": "no-ValueError",
                    "key": f"{pre}-nonlinear-scc:no-ValueError",
                    "detail": f"observed {what[:300]}; expected ValueError (grammar is not linearly recursive)", "case": case})
        return out, stats
    if exc is not None:
        if not in_scope:
            bump(f"out-of-scope:{sname}:{method}:raises-{type(exc).__name__}")
            return out, stats
        out.append({"clause": "sum_product.recursive.no_exception", "kind": f"exception-{type(exc).__name__}",
                    "key": f"{pre}-{tag(None)}:exception-{type(exc).__name__}@{_exc_site(exc)}",
                    "detail": f"observed {type(exc).__name__}: {str(exc)[:300]} at {_exc_site(exc)}; "
                              f"expected {G.map_nested(G.jnum, ref[recipe['start']])}", "case": case})
        return out, stats
    warned = len(wl) > 0
    if not in_scope:
        zs = G.flatten(z.tolist())
        bump(f"out-of-scope:{sname}:{method}:{budget}:" + ("warned" if warned else "silent") + ":" +
             ("inf" if any(v == G.INF for v in zs if not isinstance(v, bool)) else "finite"))
        return out, stats
    vtol = _value_tol(sname, tol)
    order = [x for comp in G.sccs(recipe) for x in comp]
    first_bad = None
    for x in order:
        bad = G.compare_dense(dense[x], ref[x], sname, vtol * _n_cyclic_below(recipe, x), real_zero_exact=False)
        if bad:
            first_bad = (x, bad)
            break
    bad_start = G.compare_dense(z, ref[recipe["start"]], sname, vtol * _n_cyclic_below(recipe, recipe["start"]),
                                real_zero_exact=False)
    if first_bad is None and not bad_start:
        bump("value-ok" + ("-but-warned" if warned else ""))
        return out, stats
    if warned:
        bump(f"unconverged-with-warning:{budget}")
        return out, stats
    if first_bad is not None:
        x, bad = first_bad
        api, obs_t, exp_t = "sum_products", dense[x], ref[x]
    else:
        x, bad = recipe["start"], bad_start
        api, obs_t, exp_t = "sum_product", z, ref[x]
    idx, o, ex, kind = bad[0]
    if (budget == "generous" and method == "fixed-point" and sname in ("Real", "Log")
            and all(k == "wrong-value" and oo < ee for _, oo, ee, k in bad)):
        # The stopping rule bounds the last step, not the error: on a slowly converging grammar the error
        # at tol=1e-5 may exceed the concrete bound although it "vanishes as tol does".  Decide that clause
        # directly: with a 100x smaller tol the error must shrink at least 10x (or fall within the bound).
        tol2 = 1e-7 if dname == "float64" else 1e-6
        d2, z2, wl2, exc2 = run_library(recipe, sname, dname, method, tol2, 20000)
        if exc2 is None:
            t2 = d2[x] if api == "sum_products" else z2
            err1 = max(abs(oo - ee) for _, oo, ee, _k in bad)
            bad2 = G.compare_dense(t2, exp_t, sname, 0.0, real_zero_exact=False)
            err2 = max([abs(oo - ee) for _, oo, ee, k in bad2 if k == "wrong-value"] or [0.0])
            if all(k == "wrong-value" for _, _o, _e, k in bad2) and (err2 <= err1 / 10 or wl2 or
                    not G.compare_dense(t2, exp_t, sname, vtol * _n_cyclic_below(recipe, x), real_zero_exact=False)):
                bump("slow-convergence:error-vanishes-with-tol")
                return out, stats
    if kind == "wrong-value" and budget in ("tight", "single") and o < ex:     # stopped below the least fixed point
        kind = "unconverged-no-warning"
    clause = "sum_product.recursive.value_or_warning" if budget in ("tight", "single") else "sum_product.recursive.least_fixed_point"
    special = _special_blame(recipe, x, info["refs"]["Real"]) if ("inf" in kind or kind == "nan") else ""
    vtol = vtol * _n_cyclic_below(recipe, x)
    out.append({"clause": clause, "kind": kind, "key": f"{pre}-{tag(x)}{special}:{kind}",
                "detail": f"{api} nonterminal {x} index {list(idx)}: observed {G.jnum(o)} expected {G.jnum(ex)} within {vtol:g}; "
                          f"no warning issued (tol={tol:g}, kmax={kmax}); observed {obs_t.tolist()} expected {G.map_nested(G.jnum, exp_t)}",
                "case": dict(case, api=api, nt=x)})
    return out, stats


def _info(recipe) -> dict:
    meta = recipe.get("meta") or {}
    refs, scope = {}, {}
    for s in G.SEMIRINGS:
        if s in (meta.get("closed_form") or {}):
            # value known in closed form (Kleene iteration would need ~1/(1-w) steps)
            r = G.RefValues(meta["closed_form"][s])
            r.status = "finite"
        elif s in (meta.get("divergent_in") or ()):
            r = G.reference_sum_products(recipe, s, max_iter=50)
            r.status = "divergent"
        else:
            r = G.reference_sum_products(recipe, s, max_iter=REF_MAX_ITER)
        refs[s] = r
        scope[s] = (r.status == "finite") and not r.has_inf()
    return {"refs": refs, "scope": scope, "linear": G.is_linearly_recursive(recipe), "unit_cycle": G.has_unit_cycle(recipe)}


def _worker(chunk: List[dict]):
    import torch
    torch.set_num_threads(1)
    fails: List[dict] = []
    stats: Dict[str, int] = {}
    n = 0
    scope_n = 0
    for recipe in chunk:
        info = _info(recipe)
        scope_n += sum(1 for s in info["scope"].values() if s)
        for s, d, m, b in _configs(recipe):
            if not info["scope"][s] and (info["linear"] or m != "linear"):
                # outside the value clause the library's behaviour is only recorded: one dtype, and no
                # 1000-iteration fixed-point runs on divergent grammars
                if d == "float32" or (m == "fixed-point" and b == "generous"):
                    continue
            n += 1
            fl, st = check_one(recipe, s, d, m, b, info)
            fails.extend(fl)
            for k, v in st.items():
                stats[k] = stats.get(k, 0) + v
    return fails, stats, n, scope_n


def _what(f: dict) -> str:
    c = f["case"]
    fam = (c["recipe"].get("meta") or {}).get("family", "")
    return (f"{c['semiring']}/{c['dtype']}/{c['method']} tol={c['tol']:g} kmax={c['kmax']}: {f['kind']} "
            f"[{f['key']}] on family {fam}")


def _preimport():
    """Under ./check (OMP_NUM_THREADS=1) import torch and fggs once in the parent so that the forked
    workers do not each pay for the import; otherwise leave the import to the workers (fork-safe)."""
    if os.environ.get("OMP_NUM_THREADS") == "1":
        import torch
        import fggs  # noqa
        torch.set_num_threads(1)


def run_bounded(ctx: Ctx) -> Report:
    rep = Report(property_id=PID, level="exploration")
    rep.functions_under_contract = ["fggs.sum_product.sum_product", "fggs.sum_product.sum_products",
                                    "fggs.sum_product.fixed_point", "fggs.sum_product.newton", "fggs.sum_product.linear"]
    recipes = list(G.enum_recursive(ctx.tier, ctx.rng("c02-grammars")))
    distinct = {G.canonical(g) for g in recipes}
    families: Dict[str, int] = {}
    for g in recipes:
        fam = (g.get("meta") or {}).get("family", "?")
        fam = fam.split("-hi")[0] if fam.startswith("random") else fam
        families[fam] = families.get(fam, 0) + 1
    jobs = max(1, min(ctx.jobs, len(recipes)))
    size = max(1, min(8, len(recipes) // (jobs * 4) or 1))
    chunks = [recipes[i:i + size] for i in range(0, len(recipes), size)]
    fails: List[dict] = []
    stats: Dict[str, int] = {}
    evals = 0
    scope_n = 0
    def absorb(res):
        nonlocal evals, scope_n
        fl, st, n, sc = res
        fails.extend(fl)
        evals += n
        scope_n += sc
        for k, v in st.items():
            stats[k] = stats.get(k, 0) + v
    if jobs > 1:
        _preimport()
        with mp.get_context("fork").Pool(jobs) as pool:
            for res in pool.imap(_worker, chunks):
                absorb(res)
    else:
        for ch in chunks:
            absorb(_worker(ch))
    per_key: Dict[str, int] = {}
    for f in fails:
        per_key[f["key"]] = per_key.get(f["key"], 0) + 1
        if per_key[f["key"]] <= 3:
            rep.failures.append(Failure(
                obligation=f["clause"], what=_what(f), key=f["key"], detail=f["detail"],
                replay={"module": MODULE, "func": "replay_case", "case": f["case"]}))
    rep.bounded.append(Bounded(
        function="fggs.sum_product / fggs.sum_products (recursive): fixed_point, newton, linear",
        bound=BOUND, cases=evals, distinct_nontrivial=len(distinct),
        rule=("hand-written recursive families + seeded random recursive grammars; a case is one (grammar, semiring, "
              "dtype, method, (tol,kmax)) call compared entry-wise with the float64 Kleene reference (value clause only "
              "where the reference converged to a finite value); distinct = distinct canonical recipe, all are recursive "
              "(non-trivial by construction: at least one cyclic SCC)"),
        samples=recipes[:3], exhaustive=False,
        extra={"grammars": len(recipes), "families": families,
               "grammar_x_semiring_in_value_scope": scope_n,
               "outcomes": dict(sorted(stats.items())),
               "violations_per_key": dict(sorted(per_key.items())), "violations_total": len(fails)}))
    rep.extra["c02_bounded_violations_per_key"] = dict(sorted(per_key.items()))
    return rep


def replay_case(case: dict) -> bool:
    recipe = case["recipe"]
    info = _info(recipe)
    budget = case.get("budget") or next(b for b, v in BUDGETS.items() if v == (case["tol"], case["kmax"]))
    found, _ = check_one(recipe, case["semiring"], case["dtype"], case["method"], budget, info)
    print(f"C02 replay {case['semiring']}/{case['dtype']}/{case['method']} tol={case['tol']:g} kmax={case['kmax']}: "
          f"{'VIOLATION reproduces' if found else 'no violation'}")
    for f in found[:3]:
        print("  ", f["clause"], f["key"])
        print("  ", f["detail"])
    if not found:
        print("   expected", {x: G.map_nested(G.jnum, v) for x, v in info["refs"][case["semiring"]].items()})
    return bool(found)


if __name__ == "__main__":
    tier = sys.argv[1] if len(sys.argv) > 1 else "quick"
    import time
    t0 = time.time()
    r = run_bounded(Ctx(PID, tier, 0))
    print(json.dumps(r.bounded[0].extra, indent=1))
    print(len(r.failures), "failure records;", r.bounded[0].cases, "cases;", round(time.time() - t0, 1), "s")
    for f in r.failures:
        print(f.obligation, "|", f.key, "|", f.what, "|", f.detail[:260])
