"""Helpers shared by the property modules."""
from __future__ import annotations
import importlib, traceback
from vf import core


def add_bounded(rep: core.Report, ctx: core.Ctx, pid: str):
    """Merge props/<pid>_bounded.run_bounded(ctx) into rep (the bounded stand-ins)."""
    name = f"props.{pid.lower()}_bounded"
    try:
        mod = importlib.import_module(name)
    except ModuleNotFoundError as e:
        if e.name == name:
            return
        raise
    sub = mod.run_bounded(ctx)
    rep.add(sub)
