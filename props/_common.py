"""Helpers shared by the property modules."""
from __future__ import annotations
import importlib, traceback
from vf import core


# bounded checkers that have been reviewed and triaged (a file that is still being written is not used)
BOUNDED_READY = {"C01", "C02", "C03", "C04", "C11", "C12", "C18", "C05", "C06", "C07", "C08", "C09", "C10", "C13", "C14", "C15", "C16", "C17", "C19", "C20"}


def add_bounded(rep: core.Report, ctx: core.Ctx, pid: str):
    """Merge props/<pid>_bounded.run_bounded(ctx) into rep (the bounded stand-ins)."""
    if pid not in BOUNDED_READY:
        return
    name = f"props.{pid.lower()}_bounded"
    try:
        mod = importlib.import_module(name)
    except ModuleNotFoundError as e:
        if e.name == name:
            return
        raise
    sub = mod.run_bounded(ctx)
    rep.add(sub)


PYVC_EXTRACTION = [
    "pyvc re-parses /repo/fggs/*.py with `ast` on every run (no cached or hand-written copy of the code)",
    "dropped: comments, docstrings, type annotations, the text of exception messages and f-strings (modelled as uninterpreted functions of their arguments), __str__/to_string/depict",
    "interpreted specially: @dataclass(frozen=True) classes NodeLabel/EdgeLabel/Node/Edge as algebraic datatypes (== structural; their __init__ bodies are executed symbolically to build the value), @property (inlined), object.__setattr__ inside frozen __init__",
    "callees without a modular contract are inlined (their loops use the invariants of their own sidecar contract)",
]
PYVC_ASSUMPTIONS = [
    "pyvc: distinct object-typed parameters do not alias; containers stored in object fields are not shared between objects at entry",
    "pyvc: dict / set iteration order is an arbitrary enumeration fixed per loop (proofs hold for every order)",
    "pyvc: id(obj) of a new object is an integer that is not the id of any object alive (ghost predicate alive); ids of nodes/edges stored in a graph are alive when the contract requires nodes_alive",
    "pyvc: hash() is consistent with == for keys (str, ids, frozen dataclasses, hashable domain values)",
    "pyvc: str is an uninterpreted sort with equality; string literals are pairwise distinct",
    "pyvc: a rule object stored in a grammar's rule table is viewed as an immutable snapshot (lhs, rhs edges / nodes / externals): rules are not mutated while a query runs",
    "pyvc: a local first assigned inside a `for` body is taken to be bound after the loop (Python's UnboundLocalError after zero iterations is not modelled)",
    "pyvc: quantified VCs are discharged by z3's E-matching/MBQI under a deterministic rlimit, then cvc5; `unknown` is never reported as proved",
]
PYVC_TRUSTED = ["vf/pyvc symbolic executor and its encoding of Python values (sorts.py) -- validated by seeded code mutants and false-postcondition canaries, not verified",
                "z3 5.1 / cvc5 1.0.3"]


def add_pyvc(rep: core.Report, ctx: core.Ctx, pid: str, files):
    """Verify all sidecar contracts tagged with property pid."""
    import os
    from vf.pyvc.verify import verify_contracts
    paths = [os.path.join(core.VERIF, "contracts", f) for f in files]
    obs, funcs = verify_contracts(paths, prop=pid, jobs=ctx.jobs)
    if not funcs:
        return []
    from vf.pyvc.spec import load_contracts
    assumed = sorted(q for q, c in load_contracts(paths).contracts.items() if c.assumed)
    if assumed:
        rep.assumptions.append("pyvc: ASSUMED contracts (trusted, not verified; callers are checked against them): " + ", ".join(assumed))
    rep.obligations += obs
    for f in funcs:
        if f not in rep.functions_under_contract: rep.functions_under_contract.append(f)
    for x in PYVC_EXTRACTION:
        if x not in rep.extraction: rep.extraction.append(x)
    for x in PYVC_ASSUMPTIONS:
        if x not in rep.assumptions: rep.assumptions.append(x)
    for x in PYVC_TRUSTED:
        if x not in rep.trusted_base: rep.trusted_base.append(x)
    return obs


# ---- one table for all properties ----------------------------------------------------------------
ALL_CONTRACT_FILES = ["graph.py", "domains.py", "utils.py", "sum_product.py", "factorize.py", "formats.py", "derivations.py", "conjunction.py", "multi.py"]


def _semvc_laws(ctx, only=None):
    from vf.semvc import laws
    return laws.run(ctx, only=only)


def _semvc(name):
    def f(ctx):
        import importlib
        mod, fn = name.rsplit(".", 1)
        return getattr(importlib.import_module(mod), fn)(ctx)
    return f


def _own(fn):
    def f(ctx):
        from vf.own import analysis
        return getattr(analysis, fn)()
    return f


def _own_subset(fn, prefixes):
    def f(ctx):
        from vf.own import analysis
        r = getattr(analysis, fn)()
        r.obligations = [o for o in r.obligations if o.name.startswith(tuple(prefixes))]
        return r
    return f


SPEC = {
    "C01": dict(level="other", pyvc=True, extra=[],
                text="Proved: the per-component choice of the solver in sum_products (one-step iff a single acyclic nonterminal; linear for "
                     "newton iff no rule has two edges inside the component; all other options passed through) and rename_duplicate_nodes "
                     "(repeated external nodes are renamed apart by fresh, connected copies); scc, by which the nonterminals are scheduled, "
                     "returns a partition of the nonterminals (every nonterminal is scheduled exactly once); sum_product_edges hands einsum "
                     "one tensor per index list, the edges' index lists in edge order after the identity factors of duplicated externals, "
                     "pairwise different connected output nodes, and returns None without calling einsum exactly when a weight is missing. Bounded stand-in for the denotation: every "
                     "grammar of the stated scope x 4 semirings x dtype x method against an independent evaluation of the definition."),
    "C02": dict(level="other", pyvc=True, extra=[lambda ctx: _semvc_laws(ctx, only="star")],
                text="Proved: control flow of fixed_point and newton (leaving the iteration without the stopping criterion => a warning was "
                     "issued; bounded number of evaluations of F), star(x) is the least solution of y = 1 + x*y in each semiring, method='linear' "
                     "raises ValueError exactly on rules with two unresolved edges, scc partitions the nonterminals. Bounded: "
                     "values against an independent Kleene iteration. Convergence rates / 'error vanishes as tol does' are not decidable here."),
    "C03": dict(level="other", pyvc=True, extra=[],
                text="Proved: rename_duplicate_nodes (the `ext + edge.nodes` overlap in the Jacobian is renamed apart correctly, one identity "
                     "factor per index pair) and the index bookkeeping of sum_product_edges at its einsum call. Everything "
                     "about derivatives is a bounded stand-in: gradients against exact dual-number derivatives / central differences."),
    "C04": dict(level="other", pyvc=True, extra=[lambda ctx: _semvc_laws(ctx, only="ViterbiSemiring.star")],
                text="Proved: ViterbiSemiring.star is the least solution of y = 1 + x*y (the Viterbi sum_product the derivation weight must equal "
                     "is built on it). Bounded stand-in: viterbi derivations checked for well-formedness and optimality against brute force, and "
                     "against the Viterbi-semiring sum_product under every method."),
    "C05": dict(level="other", pyvc=True, extra=[],
                text="Proved: the method argument reaches tree_decomposition through factorize_fgg / factorize_hrg and selects the algorithm; "
                     "unique_label_name returns a name not in the given label set. Bounded: inlining isomorphism, widths, sum-product equality."),
    "C06": dict(level="other", pyvc=False, extra=[_semvc("vf.semvc.pt_ops.run")],
                text="Proved: every elementwise operation treats `default` exactly as torch treats a physical element (scalar semantics, incl. "
                     "+-inf, Python-level raises). Bounded: denotation of all operations against dense torch on enumerated typed patterns; the "
                     "representation invariant is checked on every construction by the FGGS_VERIF hook."),
    "C07": dict(level="other", pyvc=False, extra=[_semvc("vf.semvc.homs.run_c07")],
                text="Proved: the multiply/add callbacks of each semiring's einsum are the semiring's mul (0 x inf = 0). Bounded: denotation of "
                     "patterned einsum against explicit nested loops."),
    "C08": dict(level="other", pyvc=False, extra=[lambda ctx: _semvc_laws(ctx), _semvc("vf.semvc.pt_ops.run"), _semvc("vf.semvc.floatgrid.run")],
                text="Law clauses: proof obligations (semvc) on the scalar meaning of the real method bodies of fggs/semirings.py, over the "
                     "reals extended with +-inf/NaN, discharged by z3 nonlinear arithmetic. Representation clause (Tensor vs PatternedTensor) "
                     "and exact-IEEE laws: bounded stand-in, never counted as proved."),
    "C09": dict(level="other", pyvc=True, extra=[_own_subset("inplace_ownership", ["semirings.", "multi.multi_solve", "multi.multi_mv", "indices.PatternedTensor.solve"])],
                text="Proved: the elimination order of multi_solve (_order_nonterminals, with its nested recursive depth-first search "
                     "verified against its own contract) is a permutation of the block indices -- every nonterminal is eliminated and "
                     "back-substituted exactly once -- and raises no KeyError / IndexError when every block is indexed by indices of "
                     "the shapes; (ownership analysis) the solvers write only storage they allocated (arguments are left unmodified). "
                     "Bounded: least solutions against dense Kleene iteration."),
    "C10": dict(level="other", pyvc=True, extra=[],
                text="Proved: the graph helpers preserve the symmetric/irreflexive adjacency invariant with exact view postconditions, "
                     "eliminate_node = remove v and make N(v) a clique, min_fill returns a permutation of the vertices and leaves its argument "
                     "untouched, tree_decomposition dispatches on method; tree_decomposition_from_order (nested recursive build verified against "
                     "its own contract): every vertex and every edge of the graph lies in some bag, bags consist of vertices, the result is "
                     "non-empty (AssertionError of the clique search is declared possible: the Helly property is not proved); contract_edge "
                     "(exact view), simplicial / almost_simplicial (decide what their names say), connected_components (a partition of the "
                     "vertices outside s into non-empty blocks that no edge leaves except into s). Bounded "
                     "(exhaustive up to the stated vertex bound): running intersection, tree shape, optimality, acb."),
    "C11": dict(level="other", pyvc=False, extra=[_own("assert_purity"), _semvc("vf.semvc.homs.run_c11")],
                text="Proved: every assert / `if __debug__` block is a check only (python -O/-OO safe); log, support and max<=+ are semiring "
                     "homomorphisms on scalars. Bounded: relational comparison across method x j_precompute x dtype x semiring x interpreter level."),
    "C12": dict(level="other", pyvc=False, extra=[_own("no_id_ordering"), lambda ctx: _semvc_laws(ctx, only="ative")],
                text="Proved: solver modules never order ids/labels/nodes/domain values (ordering operations are on numbers only); add and mul are "
                     "associative and commutative over the reals. Bounded: relational comparison of presentations of the same grammar."),
    "C13": dict(level="exploration", pyvc=True, extra=[], text="Bounded stand-in: equal/allclose against torch on dense tensors for all compatible pattern pairs."),
    "C14": dict(level="other", pyvc=True, extra=[],
                text="Proved: an attachment/external node number accepted by json_to_hrg is in range [0, len(nodes)); an out-of-range number "
                     "surfaces only as ValueError. Bounded: round trips, weights specifications."),
    "C15": dict(level="other", pyvc=True, extra=[],
                text="Proved: replace_edge itself (removes exactly the edge; externals identified with the attachment nodes in order; fresh, "
                     "label-preserving copies of all other nodes and of all edges with attachments mapped in order; rest of the graph and its "
                     "externals untouched; ValueError and unchanged graph on a wrong type or a foreign edge) from the contracts of Node/Edge "
                     "construction and Graph.add_node / add_edge / remove_edge, under the preconditions distinct externals and agreeing "
                     "label tables. Bounded: all linearisations of derivations (confluence), derive()."),
    "C16": dict(level="other", pyvc=True, extra=[],
                text="Per-operation contracts (requires wf; ensures wf + exact update of the whole view + frame; raises iff; state unchanged on "
                     "raise) on the real methods of fggs/fggs.py, VCs generated from the AST and discharged by z3 (unbounded: loops by invariant). "
                     "HRG.add_rule / new_rule are proved at the level of the label tables (raises iff a label conflict, tables unchanged on raise); "
                     "the rule table itself (lists of mutable rules), copy and == of grammars are outside the VC generator's value model: bounded "
                     "breadth-first exploration of call histories, which also re-checks the Graph contracts natively."),
    "C17": dict(level="other", pyvc=True, extra=[],
                text="Proved: nonterminal_pairs is total on pairs of nonterminals, its names are pairwise distinct and differ from every "
                     "existing label, each paired label has the first component's type; check_namespace_collisions returns exactly the "
                     "conflicting pairs; unique_label_name; conjoinable is True exactly for equal node sets, equal (id, attachment) signatures "
                     "of the nonterminal edges and equal external ids; conjoin_rules raises nothing on conjoinable rules with paired labels "
                     "and compatible terminals, carries the nodes, externals and paired lhs, pairs every explicit-id nonterminal edge (both "
                     "directions), yields a well-formed rhs and leaves its arguments alone. Bounded: implicit-id and terminal edges of "
                     "conjoin_rules, the derivation bijection."),
    "C18": dict(level="other", pyvc=True, extra=[_own("inplace_ownership"), _own("no_hidden_state")],
                text="Proved (ownership analysis over the real ASTs): every in-place write in the tensor modules reaches only storage allocated in "
                     "the same call or owned by the receiver by contract; Graph.copy / copy_graph / min_fill frame conditions by pyvc. Bounded: "
                     "snapshot comparison around queries."),
    "C19": dict(level="other", pyvc=True, extra=[],
                text="Proved: nonterminal_graph has every nonterminal as a vertex, an edge X->Y exactly when a rule of X has an rhs edge labelled "
                     "by the nonterminal Y, and is closed -- over a view of the HRG with its rule table (rules as immutable snapshots) on which "
                     "HRG.all_rules / HRG.rules are themselves verified (exactly the rules of the table; the table entry or nothing). scc (Tarjan, with its nested recursive visit verified against its own contract): the result is a partition of "
                     "the vertex set into non-empty pairwise disjoint blocks and no KeyError/IndexError occurs on a closed adjacency map. "
                     "That the blocks are exactly the SCCs in dependency order: bounded stand-in, exhaustive over all digraphs up to 4 "
                     "vertices and all insertion orders."),
    "C20": dict(level="other", pyvc=True, extra=[],
                text="Contracts on fggs/domains.py (numberize/denumberize mutually inverse under the representation invariant established by "
                     "__init__, contains, equality by content) and on add_domain / add_factor / shape (raises iff, unchanged on raise), discharged "
                     "by z3. FiniteFactor (torch) is outside reach: bounded stand-in."),
}


def make(pid):
    spec = SPEC[pid]

    def run_obligations(ctx):
        rep = core.Report(property_id=pid, level=spec["level"])
        if spec["pyvc"]:
            add_pyvc(rep, ctx, pid, ALL_CONTRACT_FILES)
        for f in spec["extra"]:
            sub = f(ctx)
            rep.add(sub)
        return rep

    def run(ctx):
        rep = run_obligations(ctx)
        rep.explanation = spec["text"]
        add_bounded(rep, ctx, pid)
        # level: obligations + bounded -> as declared; only bounded -> exploration
        if not rep.obligations:
            rep.level = "exploration"
        return rep

    return run, run_obligations
