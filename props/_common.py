"""Helpers shared by the property modules."""
from __future__ import annotations
import importlib, traceback
from vf import core


def add_bounded(rep: core.Report, ctx: core.Ctx, pid: str):
    """Merge props/<pid>_bounded.run_bounded(ctx) into rep (the bounded stand-ins)."""
    name = f"props.{pid.lower()}_bounded"
    try:
        mod = importlib.import_module(name)
    except ModuleNotFoundError as e:
        if e.name == name:
            return
        raise
    sub = mod.run_bounded(ctx)
    rep.add(sub)


PYVC_EXTRACTION = [
    "pyvc re-parses /repo/fggs/*.py with `ast` on every run (no cached or hand-written copy of the code)",
    "dropped: comments, docstrings, type annotations, the text of exception messages and f-strings (modelled as uninterpreted functions of their arguments), __str__/to_string/depict",
    "interpreted specially: @dataclass(frozen=True) classes NodeLabel/EdgeLabel/Node/Edge as algebraic datatypes (== structural; their __init__ bodies are executed symbolically to build the value), @property (inlined), object.__setattr__ inside frozen __init__",
    "callees without a modular contract are inlined (their loops use the invariants of their own sidecar contract)",
]
PYVC_ASSUMPTIONS = [
    "pyvc: distinct object-typed parameters do not alias; containers stored in object fields are not shared between objects at entry",
    "pyvc: dict / set iteration order is an arbitrary enumeration fixed per loop (proofs hold for every order)",
    "pyvc: id(obj) of a new object is an integer that is not the id of any object alive (ghost predicate alive); ids of nodes/edges stored in a graph are alive when the contract requires nodes_alive",
    "pyvc: hash() is consistent with == for keys (str, ids, frozen dataclasses, hashable domain values)",
    "pyvc: str is an uninterpreted sort with equality; string literals are pairwise distinct",
    "pyvc: quantified VCs are discharged by z3's E-matching/MBQI under a deterministic rlimit, then cvc5; `unknown` is never reported as proved",
]
PYVC_TRUSTED = ["vf/pyvc symbolic executor and its encoding of Python values (sorts.py) -- validated by seeded code mutants and false-postcondition canaries, not verified",
                "z3 5.1 / cvc5 1.0.3"]


def add_pyvc(rep: core.Report, ctx: core.Ctx, pid: str, files):
    """Verify all sidecar contracts tagged with property pid."""
    import os
    from vf.pyvc.verify import verify_contracts
    paths = [os.path.join(core.VERIF, "contracts", f) for f in files]
    obs, funcs = verify_contracts(paths, prop=pid, jobs=ctx.jobs)
    rep.obligations += obs
    for f in funcs:
        if f not in rep.functions_under_contract: rep.functions_under_contract.append(f)
    for x in PYVC_EXTRACTION:
        if x not in rep.extraction: rep.extraction.append(x)
    for x in PYVC_ASSUMPTIONS:
        if x not in rep.assumptions: rep.assumptions.append(x)
    for x in PYVC_TRUSTED:
        if x not in rep.trusted_base: rep.trusted_base.append(x)
    return obs
