"""C20 -- domains and factors index consistently and reject ill-shaped bindings."""
from vf import core
from props._common import add_bounded, add_pyvc

FILES = ["graph.py", "domains.py"]


def run_obligations(ctx):
    rep = core.Report(property_id="C20", level="other")
    add_pyvc(rep, ctx, "C20", FILES)
    return rep


def run(ctx):
    rep = run_obligations(ctx)
    rep.explanation = ("Contracts on the real methods of fggs/domains.py (numberize/denumberize mutually inverse under the "
                       "representation invariant that __init__ establishes, contains, equality by content) and on "
                       "add_domain / add_factor / shape of fggs/fggs.py (raises iff, unchanged on raise), discharged by z3. "
                       "FiniteFactor (torch tensors, PatternedTensor shapes, apply) is outside the VC generator's reach: "
                       "bounded stand-in, reported separately.")
    rep.assumptions.append("C20: Domain and Factor objects bound to labels are opaque values with an equivalence == "
                           "(proved for FiniteDomain/RangeDomain separately); Factor.arity = len(Factor.domains)")
    add_bounded(rep, ctx, "C20")
    return rep
