#!/usr/bin/env python
"""Regenerate baseline_obligations.json from the evidence files of a run on the pinned tree.
Run by hand (never by a check):  .venv/bin/python tools/make_baseline.py C08 C16 ..."""
import json, os, sys
V = os.path.dirname(os.path.dirname(os.path.abspath(__file__)))
path = os.path.join(V, "baseline_obligations.json")
base = json.load(open(path)) if os.path.exists(path) else {}
for pid in sys.argv[1:]:
    ev = json.load(open(os.path.join(V, "evidence", pid + ".json")))
    recs = ev["coverage"]["obligation_records"]
    # obligations that must be generated again on every run (site-numbered obligations of the static
    # analysis come and go with edits, so they are not required -- only re-checked when present)
    base[pid] = {"obligations": sorted(r["name"] for r in recs if r["backend"] != "own" or r["kind"] != "frame" or "inplace" not in r["name"] and "assert" not in r["name"] and "debug_block" not in r["name"] and "ordering" not in r["name"]),
                 "proved": sorted(r["name"] for r in recs if r["status"] == "proved"),
                 "tiers": ["quick", "thorough"]}
    print(pid, len(base[pid]["obligations"]), "obligations,", len(base[pid]["proved"]), "proved")
sys.path.insert(0, V)
from vf.core import source_digest
base["_source"] = source_digest()
json.dump(base, open(path, "w"), indent=1, sort_keys=True)
