#!/usr/bin/env python
"""Print the markdown table of seeded changes (seeded/*/meta.json) for DESIGN.md."""
import json, glob, os
V = os.path.dirname(os.path.dirname(os.path.abspath(__file__)))
print("| id | site | what the change needs to manifest | caught by (obligation / bounded contract) |")
print("|---|---|---|---|")
for d in sorted(glob.glob(os.path.join(V, "seeded", "*"))):
    m = json.load(open(os.path.join(d, "meta.json")))
    by = []
    for p, r in m["results"].items():
        if r["exit"] != 1: 
            by.append(f"{p}: not caught (exit {r['exit']})"); continue
        obs = [f[0] for f in r["failed_obligations"]][:2]
        rep = (r["first_reports"] or [""])[0].split(":")[0]
        by.append(f"{p}: " + "; ".join(obs + ([rep] if rep and rep not in obs else [])))
    print(f"| {m['id']} | `{m.get('site','')}` | {m.get('needs','')[:150]} | {' / '.join(by)[:260]} |")
