#!/bin/bash
# Re-run every seeded change against its property's check (detection regression).  Serial: it edits /repo.
cd /verif
for d in seeded/*/; do
  id=$(basename $d); pid=${id%%-*}
  git -C /repo diff --quiet || { echo "/repo dirty"; exit 3; }
  git -C /repo apply /verif/${d}patch.diff 2>/dev/null || { echo "$id: patch does not apply"; continue; }
  ./check $pid > /tmp/reeval_$id.log 2>&1; rc=$?
  git -C /repo checkout -- .
  echo "$id exit=$rc $(grep -c '^VIOLATION' /tmp/reeval_$id.log) violations $(grep -m1 '^CHECKER' /tmp/reeval_$id.log | cut -c1-100)"
done
git -C /verif checkout -- evidence 2>/dev/null
