#!/usr/bin/env python
"""tools/vc1.py <substring of qualified name> [--repo DIR]   verify the matching sidecar contracts, print every obligation."""
import os, sys, time
sys.path.insert(0, "/verif")
from props._common import ALL_CONTRACT_FILES
from vf import core
from vf.pyvc.verify import verify_contracts
from vf.pyvc.program import Program
only = sys.argv[1]
repo = sys.argv[sys.argv.index("--repo") + 1] if "--repo" in sys.argv else None
paths = [os.path.join(core.VERIF, "contracts", f) for f in ALL_CONTRACT_FILES]
t0 = time.time()
P = Program(repo=repo) if repo else Program()
obs, funcs = verify_contracts(paths, only=only, program=P, jobs=int(os.environ.get("VERIF_JOBS", "16")))
bad = 0
for o in obs:
    flag = "ok " if o.status == "proved" else "BAD"
    if o.status != "proved": bad += 1
    print(f"{flag} {o.status:16s} {o.time_s:6.2f}s {o.name}" + ("" if o.status == "proved" else f"\n      {o.detail[:600]}"))
print(f"{len(funcs)} functions, {len(obs)} obligations, {bad} not proved, {time.time()-t0:.1f}s")
