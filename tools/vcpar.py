#!/usr/bin/env python
"""tools/vcpar.py <qual-substr> <obligation-substr> [--show N]  discharge the matching VCs in parallel; print failing goals."""
import os, sys, z3, time, multiprocessing as mp
sys.path.insert(0, "/verif")
from props._common import ALL_CONTRACT_FILES
from vf import core, prover
from vf.pyvc.verify import Verifier, prove_vc
from vf.pyvc.program import Program
from vf.pyvc.spec import load_contracts
from vf.pyvc import sorts as S
paths = [os.path.join(core.VERIF, "contracts", f) for f in ALL_CONTRACT_FILES]
spec = load_contracts(paths)
q = ([k for k in spec.contracts if k.endswith(sys.argv[1])] or [k for k in spec.contracts if sys.argv[1] in k])[0]
v = Verifier(Program(), spec)
vcs, exits = v.verify(spec.contracts[q])
sel = [x for x in vcs if sys.argv[2] in x[0] and not z3.is_true(z3.simplify(x[2]))]
show = int(sys.argv[sys.argv.index("--show") + 1]) if "--show" in sys.argv else 2
full = "--full" in sys.argv

def work(i):
    name, hyps, goal, note = sel[i]
    t = time.time()
    r, _ = prove_vc(S.lit_axioms(), hyps, goal)
    return i, r.status, r.backend, time.time() - t

if __name__ == "__main__":
    print(len(vcs), "VCs,", len(sel), "selected")
    with mp.get_context("fork").Pool(16) as pool:
        res = pool.map(work, range(len(sel)), chunksize=1)
    for i, status, backend, t in res:
        name, hyps, goal, note = sel[i]
        ok = status == "unsat"
        print(("ok  " if ok else "FAIL"), i, name, status, backend, f"{t:.1f}s", note)
        if not ok and show > 0:
            show -= 1
            nf = hyps.nfacts
            if full:
                for h in hyps[:nf]: print("   F:", str(h).replace("\n", "\n      "))
            for h in hyps[nf + 1:]: print("  PC:", str(h).replace("\n", "\n      ")[:3000])
            print("   G:", str(goal).replace("\n", "\n      "))
