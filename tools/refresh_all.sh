#!/bin/bash
# Re-run every claimed check on the current (unchanged) tree without the baseline guard, then rebuild
# baseline_obligations.json from the evidence.  By hand, after contracts / checkers changed.
cd /verif
PROPS=$(.venv/bin/python -c "import json; print(' '.join(c['property_id'] for c in json.load(open('MANIFEST.json'))['checks']))")
for p in $PROPS; do
  VERIF_NO_BASELINE=1 ./check $p 2>&1 | grep -E "^VIOLATION|^CHECKER|^# " | cut -c1-180
done
.venv/bin/python tools/make_baseline.py $PROPS | tail -3
