#!/bin/bash
# Re-run every claimed check on the current (unchanged) tree without the baseline guard (5 at a time), then rebuild
# baseline_obligations.json from the evidence.  By hand, after contracts / checkers changed.
cd /verif
PROPS=$(.venv/bin/python -c "import json; print(' '.join(c['property_id'] for c in json.load(open('MANIFEST.json'))['checks']))")
mkdir -p /tmp/refresh
echo $PROPS | tr ' ' '\n' | xargs -P 5 -I{} bash -c 'VERIF_NO_BASELINE=1 VERIF_JOBS=8 ./check {} > /tmp/refresh/{}.log 2>&1; echo "{} rc=$? $(grep -E "^# " /tmp/refresh/{}.log | cut -c1-170)"; grep -E "^VIOLATION|^CHECKER" /tmp/refresh/{}.log | head -3'
.venv/bin/python tools/make_baseline.py $PROPS | tail -3
