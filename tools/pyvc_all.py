#!/usr/bin/env python
"""tools/pyvc_all.py [substr]  verify every sidecar contract; list what is not proved and what the baseline had proved."""
import os, sys, time, json
sys.path.insert(0, "/verif")
from props._common import ALL_CONTRACT_FILES
from vf import core
from vf.pyvc.verify import verify_contracts
paths = [os.path.join(core.VERIF, "contracts", f) for f in ALL_CONTRACT_FILES]
t0 = time.time()
obs, funcs = verify_contracts(paths, only=(sys.argv[1] if len(sys.argv) > 1 else None), jobs=16)
base = json.load(open(os.path.join(core.VERIF, "baseline_obligations.json")))
proved_before = set()
for pid, b in base.items():
    if pid.startswith("_"): continue
    proved_before |= set(b.get("proved", []))
bad = [o for o in obs if o.status != "proved"]
for o in bad:
    print(("REGRESSION " if o.name in proved_before else "new-unproved ") + f"{o.status} {o.time_s:.1f}s {o.name}\n     {o.detail[:300]}")
slow = sorted(obs, key=lambda o: -o.time_s)[:8]
print("slowest:", [(o.name, round(o.time_s, 1)) for o in slow])
print(f"{len(funcs)} functions, {len(obs)} obligations, {len(bad)} not proved, {time.time()-t0:.0f}s")
