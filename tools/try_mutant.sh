#!/bin/bash
# tools/try_mutant.sh <diff> <Cxx> [<Cyy> ...]   apply a seeded change to /repo, run the checks, undo it.
D=$1; shift
cd /repo || exit 3
git diff --quiet || { echo "/repo is dirty"; exit 3; }
git apply "$D" || { echo "patch does not apply"; exit 3; }
trap 'git -C /repo checkout -- . ' EXIT
cd /verif
for p in "$@"; do
  ./check "$p" > /tmp/try_$p.log 2>&1; rc=$?
  echo "== $p exit=$rc"; grep -E "^VIOLATION|^KNOWN|^CHECKER|^# " /tmp/try_$p.log | head -6 | cut -c1-220
done
