#!/bin/bash
# tools/round2.sh <Cxx> [extra checks...]   confirm + evaluate the two round-2 seeded changes of a property
P=$1; shift
for n in 1 2; do
  tools/confirm_mutant.sh /tmp/mut/${P}_out2 $n 2>&1 | tail -1
  SEED_ID=${P}-r2$( [ $n = 1 ] && echo a || echo b ) .venv/bin/python tools/eval_mutant.py /tmp/mut/${P}_out2 $n $P "$@" 2>&1 | cut -c1-230
done
