#!/bin/bash
# tools/round3.sh <Cxx> [extra checks...]   confirm + evaluate (on a scratch copy) the two round-3 seeded changes of a property
P=$1; shift
for n in 1 2; do
  tools/confirm_mutant.sh /tmp/mut/${P}_out3 $n 2>&1 | tail -1
  .venv/bin/python tools/eval_mutant2.py /tmp/mut/${P}_out3 $n ${P}-r3$( [ $n = 1 ] && echo a || echo b ) $P "$@" 2>&1 | grep -v WARNING | cut -c1-260
done
