#!/usr/bin/env python
"""tools/agent_prompt.py <Cxx> <tag>   print the prompt given to a fresh sub-agent (property text + scratch worktree only)."""
import json, sys
pid, tag = sys.argv[1], sys.argv[2]
p = next(json.loads(l) for l in open("/verif/properties.jsonl") if json.loads(l)["id"] == pid)
wt, out = f"/tmp/mut/{pid}_{tag}_wt", f"/tmp/mut/{pid}_out{tag}"
print(f"""You are helping to evaluate how well a test/verification setup for the Python library diprism/fggs (factor graph grammars; PyTorch) detects subtle regressions. Your job: produce TWO independent, realistic code changes ("mutants") to the library that each BREAK the semantic property below while the library still imports and its existing test suite still passes completely.

Work ONLY inside your own scratch git worktree of the library: {wt}  (already created for you; it is a git worktree, `git diff` there shows your change). Never read or write /repo or /verif or any other /tmp/mut/* directory. Write your results to {out}/ (create it).

PROPERTY {pid}: {p['title']}
{p['statement']}
(quantification: {p['quantifier']})
Anchors in the code: {json.dumps(p['anchors'])}

Requirements for EACH of the two changes:
 1. It is a plausible edit a maintainer could make (a refactoring slip, an "optimisation", a wrong boundary, a dropped case, an aliasing/ordering mistake) -- not sabotage that ordinary use exposes at once. It must need something SPECIFIC to manifest: an unusual input shape or value, a multi-step sequence of API calls, a particular option combination, two cooperating sites that each look fine alone, etc. Prefer sites and input classes that are far from what the existing tests exercise; the two changes must be at different sites / have different mechanisms.
 2. With the change applied, the whole existing suite passes:  cd {wt} && PYTHONPATH={wt} /venv/bin/python -m pytest -q -p no:cacheprovider --timeout=900   (must report 110 passed). Do not edit anything under test/.
 3. A demonstration program (plain Python script, uses only the public library API, no reliance on test files outside the worktree) that exits 0 on the unchanged library and exits 1 (printing what went wrong) with the change applied. Run it as: PYTHONPATH={wt} /venv/bin/python <demo>. The demonstration must show a genuine violation of the PROPERTY as stated (not just "behaviour differs").
 4. Only files under fggs/ (the library) may be changed. Keep the diff small.

Procedure: read the property and the anchored code; design change 1; apply; run the suite; write the demo; save `git diff` to {out}/mut1.diff; then `git checkout -- .` and verify the demo exits 0 on the unchanged tree; repeat for change 2 (mut2.diff). Leave the worktree clean (git checkout -- .) at the end.

Deliver in {out}/:  mut1.diff, mut1_demo.py, mut1_meta.json, mut2.diff, mut2_demo.py, mut2_meta.json  where each meta.json is
  {{"property": "{pid}", "summary": "<what the change does>", "needs": "<what specific input / sequence / options it needs to manifest>", "site": "<file:function>", "tests_passed": "<last line of pytest output>", "demo_unchanged": "0", "demo_mutant": "1"}}
The sandbox has no network. The suite takes about a minute. Report back briefly what the two changes are.""")
