#!/bin/bash
# tools/confirm_mutant.sh <out_dir> <n>  -- confirm in a scratch worktree that mutant n (a) passes the
# 110 tests, (b) makes its demo fail, (c) the demo passes on the unchanged tree.  Prints one line.
OUT=$1; N=$2
WT=/tmp/mut/confirm_$$
git -C /repo worktree add -q --detach $WT HEAD || exit 3
cd $WT
PYTHONPATH=$WT /venv/bin/python $OUT/mut${N}_demo.py > /tmp/confirm_demo0.log 2>&1; d0=$?
git apply $OUT/mut$N.diff || { echo "APPLY-FAIL"; cd /; git -C /repo worktree remove --force $WT; exit 3; }
PYTHONPATH=$WT /venv/bin/python $OUT/mut${N}_demo.py > /tmp/confirm_demo1.log 2>&1; d1=$?
t=$(PYTHONPATH=$WT /venv/bin/python -m pytest -q -p no:cacheprovider --timeout=900 2>&1 | tail -1)
cd /; git -C /repo worktree remove --force $WT
echo "$(basename $OUT) mut$N: demo_unchanged=$d0 demo_mutant=$d1 tests: $t"
