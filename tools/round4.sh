#!/bin/bash
# tools/round4.sh <Cxx> [extra checks...]   confirm + evaluate (on a scratch copy) the two round-4 seeded changes of a property
P=$1; shift
for n in 1 2; do
  tools/confirm_mutant.sh /tmp/mut/${P}_out4 $n 2>&1 | tail -1
  .venv/bin/python tools/eval_mutant2.py /tmp/mut/${P}_out4 $n ${P}-r4$( [ $n = 1 ] && echo a || echo b ) $P "$@" 2>&1 | grep -v WARNING | cut -c1-260
done
