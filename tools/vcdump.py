#!/usr/bin/env python
"""tools/vcdump.py <qual> <obligation-substring> [n]  print the hypotheses and goal of the matching VCs."""
import os, sys, z3
sys.path.insert(0, "/verif")
from props._common import ALL_CONTRACT_FILES
from vf import core, prover
from vf.pyvc.verify import Verifier
from vf.pyvc.program import Program
from vf.pyvc.spec import load_contracts
from vf.pyvc import sorts as S
paths = [os.path.join(core.VERIF, "contracts", f) for f in ALL_CONTRACT_FILES]
spec = load_contracts(paths)
q = [k for k in spec.contracts if sys.argv[1] in k][0]
v = Verifier(Program(), spec)
vcs, exits = v.verify(spec.contracts[q])
print(len(vcs), "VCs;", len(exits), "exits")
sel = [x for x in vcs if sys.argv[2] in x[0]]
lim = int(sys.argv[3]) if len(sys.argv) > 3 else 1
for name, hyps, goal, note in sel:
    from vf.pyvc.verify import prove_vc
    r, _t = prove_vc(S.lit_axioms(), hyps, goal)
    print("==", name, r.status, "proved" if r.proved else "NOT", f"{r.time_s:.2f}s")
    if not r.proved and lim > 0:
        lim -= 1
        for h in hyps: print("  H:", str(h).replace("\n", "\n     "))
        print("  G:", str(goal).replace("\n", "\n     "))
