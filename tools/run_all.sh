#!/bin/bash
# Run every registered quick check (with the baseline guard), 5 at a time; evidence files are rewritten.
cd "$(dirname "$0")/.."; L=${RUNALL_LOG:-/tmp/runall}; mkdir -p $L
TIER=${1:-quick}
./setup.sh >/dev/null 2>&1
for i in $(seq -w 1 20); do echo C$i; done | xargs -P 5 -I{} bash -c 'S=$(date +%s); VERIF_JOBS=8 ./check {} --tier '$TIER' > '$L'/{}.log 2>&1; echo "{} rc=$? $(( $(date +%s)-S ))s $(grep -E "^# " '$L'/{}.log | cut -c1-150)"; grep -E "^VIOLATION|^CHECKER" '$L'/{}.log | head -3'
