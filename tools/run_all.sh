#!/bin/bash
# Run every registered quick check (with the baseline guard), 5 at a time; evidence files are rewritten.
cd /verif; mkdir -p /tmp/runall
TIER=${1:-quick}
for i in $(seq -w 1 20); do echo C$i; done | xargs -P 5 -I{} bash -c 'S=$(date +%s); VERIF_JOBS=8 ./check {} --tier '$TIER' > /tmp/runall/{}.log 2>&1; echo "{} rc=$? $(( $(date +%s)-S ))s $(grep -E "^# " /tmp/runall/{}.log | cut -c1-150)"; grep -E "^VIOLATION|^CHECKER" /tmp/runall/{}.log | head -3'
