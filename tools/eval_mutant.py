#!/usr/bin/env python
"""tools/eval_mutant.py <out_dir> <n> <Cxx> [more checks...]
Copy a confirmed seeded change into /verif/seeded/<Cxx>-m<n>/, apply it to /repo, run the checks, undo it,
and record what each check reported in meta.json."""
import json, os, shutil, subprocess, sys
V = "/verif"
out, n, pid, *more = sys.argv[1:]
sid = f"{pid}-m{n}" if not os.environ.get("SEED_ID") else os.environ["SEED_ID"]
d = os.path.join(V, "seeded", sid)
os.makedirs(d, exist_ok=True)
shutil.copy(f"{out}/mut{n}.diff", f"{d}/patch.diff")
shutil.copy(f"{out}/mut{n}_demo.py", f"{d}/demo.py")
meta = json.load(open(f"{out}/mut{n}_meta.json"))
assert subprocess.run(["git", "-C", "/repo", "diff", "--quiet"]).returncode == 0, "/repo dirty"
subprocess.check_call(["git", "-C", "/repo", "apply", f"{d}/patch.diff"])
results = {}
try:
    for p in [pid] + more:
        r = subprocess.run([f"{V}/check", p], capture_output=True, text=True, cwd=V)
        ev = {}
        try:
            ev = json.load(open(f"{V}/evidence/{p}.json"))
        except Exception:
            pass
        recs = ev.get("coverage", {}).get("obligation_records", []) if r.returncode in (0, 1) else []
        failed = [(o["name"], o["status"], o["backend"]) for o in recs if o["status"] != "proved"]
        viol = [l for l in r.stdout.splitlines() if l.startswith("VIOLATION")]
        what = [l.strip()[2:] for l in r.stderr.splitlines() if l.startswith("  # ")]
        results[p] = {"exit": r.returncode, "violations": len(viol),
                      "no_failing_input_found": sum("no-failing-input-found" in l for l in viol),
                      "failed_obligations": failed[:12],
                      "first_reports": what[:5],
                      "checker_error": next((l for l in r.stdout.splitlines() if l.startswith("CHECKER-ERROR")), None)}
finally:
    subprocess.check_call(["git", "-C", "/repo", "checkout", "--", "."])
    # restore the evidence of the unchanged tree
    subprocess.run(["git", "-C", V, "checkout", "--", "evidence"], capture_output=True)
meta.update({"id": sid, "confirmed": "applied in a scratch worktree: demo exit 1 with the change / 0 without; full suite 110 passed",
             "ran": [f"./check {p}" for p in [pid] + more], "results": results,
             "detected": any(v["exit"] == 1 for v in results.values())})
json.dump(meta, open(f"{d}/meta.json", "w"), indent=1)
for p, v in results.items():
    print(sid, p, "exit", v["exit"], "violations", v["violations"], "failed obligations", [f[0] for f in v["failed_obligations"]][:4], (v["first_reports"] or [""])[0][:120])
