#!/usr/bin/env python
"""Write MANIFEST.json from the table below (run by hand: .venv/bin/python tools/make_manifest.py)."""
import json, os, subprocess, sys
V = os.path.dirname(os.path.dirname(os.path.abspath(__file__)))
sys.path.insert(0, V)
from props._common import SPEC

# property -> (claimed?, technique, level_note)
TECH = {
 "C01": "contract-based VCs (pyvc/z3) for the solver dispatch of sum_products, rename_duplicate_nodes and the scheduling partition computed by scc (nested function verified against its own contract) + bounded contract check of the real sum_product against an independent evaluation of the definition (stand-in; not proved)",
 "C02": "contract-based VCs from the real AST (pyvc/z3) for fixed_point/newton control flow + scalar semiring proofs (semvc/z3 NRA) + bounded stand-in for values",
 "C03": "contract-based VCs (pyvc/z3) for rename_duplicate_nodes and the einsum bookkeeping of sum_product_edges + bounded contract check of gradients against exact derivatives / central differences (stand-in; not proved)",
 "C04": "scalar proof that ViterbiSemiring.star is the least solution (semvc/z3) + contract-based VCs (pyvc/z3) for the index bookkeeping of viterbi.sum_product_edges + bounded contract check of viterbi against brute force (stand-in; not proved)",
 "C05": "contract-based VCs (pyvc/z3) for method forwarding and fresh names + bounded stand-in (inlining isomorphism, sum-product equality)",
 "C06": "scalar-semantics proof obligations on the real PatternedTensor method ASTs (semvc/z3 NRA) + bounded stand-in for denotation + run-time representation invariant (hook)",
 "C07": "scalar-semantics proof obligations for the einsum callbacks (semvc/z3) + bounded stand-in against nested-loop einsum",
 "C08": "semiring laws as proof obligations over the real method bodies, extended reals in z3 nonlinear arithmetic (semvc) + bounded stand-in for the representation clause",
 "C09": "contract-based VCs (pyvc/z3) for the elimination order of multi_solve (permutation of the block indices; nested recursive dfs under its own contract) + ownership analysis obligations on the real ASTs (arguments unmodified) + bounded stand-in against dense Kleene iteration",
 "C10": "contract-based VCs (pyvc/z3) with loop invariants for the graph helpers, eliminate_node, min_fill, dispatch and tree_decomposition_from_order (vertex and edge cover; nested recursive function under its own contract) + exhaustive bounded stand-in for running intersection / tree shape / optimality / acb",
 "C11": "assertion-purity obligations by static analysis of the real ASTs + scalar homomorphism proofs (semvc/z3) + bounded relational stand-in",
 "C12": "static obligations: no ordering of ids/labels in solver modules + commutativity/associativity proofs (semvc/z3) + bounded relational stand-in",
 "C13": "bounded contract check of equal/allclose against torch on dense tensors (stand-in; not proved)",
 "C14": "contract-based VCs (pyvc/z3) with program-point assertions for json_to_hrg node numbers + bounded stand-in for round trips",
 "C15": "contract-based VCs (pyvc/z3) for the Graph/Node/Edge operations replace_edge is built from + bounded stand-in for replacement and all linearisations",
 "C16": "contract-based deductive verification (pyvc: AST -> VCs with loop invariants -> z3/cvc5) of every Graph / label-table / interpretation operation + bounded exploration of call histories",
 "C17": "contract-based VCs (pyvc/z3) for fresh paired names, conjoinable (exact characterisation) and conjoin_rules (no exception, nodes/externals/lhs, explicit-id nonterminal edges, frame) + bounded stand-in for implicit ids, terminal edges and the derivation bijection",
 "C18": "ownership / frame obligations by static analysis of every in-place site of the real ASTs + pyvc frame contracts + bounded snapshot stand-in",
 "C19": "contract-based VCs (pyvc/z3): nonterminal_graph (exact edge set) and Tarjan's scc with its nested recursive visit under contract (result is a partition of the vertices, no KeyError/IndexError) + bounded stand-in, exhaustive over all digraphs up to 4 vertices and all insertion orders, for exactness and dependency order",
 "C20": "contract-based deductive verification (pyvc/z3) of domains.py and of add_domain/add_factor/shape + bounded stand-in for FiniteFactor",
}
NOTE = ("Trusted: the VC generator / scalar interpreter / ownership analysis of /verif (validated by seeded mutants and canaries, not verified), "
        "z3 and cvc5, torch and torch_semiring_einsum, CPython semantics of the supported subset; floats as reals in proofs. "
        "Bounded stand-ins are never counted as proved.")


def main(claimed):
    hooks = subprocess.run(["git", "-C", "/repo", "log", "--format=%h %s"], capture_output=True, text=True).stdout.splitlines()
    hook_commits = [l.split()[0] for l in hooks if "verif hook" in l]
    props = [json.loads(l) for l in open(os.path.join(V, "properties.jsonl"))]
    checks, na = [], []
    for p in props:
        pid = p["id"]
        if pid in claimed:
            checks.append({
                "property_id": pid,
                "quick_cmd": f"./check {pid} --tier quick",
                "thorough_cmd": f"./check {pid} --tier thorough",
                "evidence_file": f"evidence/{pid}.json",
                "replay_cmd_template": "./check --replay {path}",
                "engine": "vf",
                "level_claimed": {"category": SPEC[pid]["level"], "text": SPEC[pid]["text"], "design_ref": f"DESIGN.md section 5 ({pid}) and 'Changes since round 0'"},
                "level_note": NOTE,
                "technique": TECH[pid],
            })
        else:
            na.append({"property_id": pid, "reason": claimed_reason.get(pid, "check not built yet in this round (see DESIGN.md)")})
    m = {
        "version": 1,
        "setup_cmd": "./setup.sh",
        "hooks": {"guard": "FGGS_VERIF",
                  "enable": "FGGS_VERIF=1 in the environment (pure Python, no build step); ./check sets it",
                  "baseline_off_cmd": "cd /repo && /venv/bin/python -m pytest -ra -q -p no:cacheprovider --timeout=900 --continue-on-collection-errors",
                  "source_commits": hook_commits, "add_only": True},
        "engines": [
            {"name": "pyvc", "path": "vf/pyvc", "serves_properties": ["C01", "C02", "C03", "C04", "C05", "C09", "C10", "C12", "C14", "C15", "C16", "C17", "C18", "C19", "C20"],
             "kind_free_text": "VC generator: symbolic execution of the real ASTs of /repo/fggs against sidecar contracts (contracts/*.py), loops by invariant, discharge with z3 (rlimit) then cvc5"},
            {"name": "semvc", "path": "vf/semvc", "serves_properties": ["C02", "C06", "C07", "C08", "C11", "C12"],
             "kind_free_text": "scalar semantics of elementwise tensor code over extended reals (IEEE special values) in z3 nonlinear arithmetic"},
            {"name": "own", "path": "vf/own", "serves_properties": ["C09", "C11", "C12", "C18"],
             "kind_free_text": "frame / ownership / purity obligations by static analysis of the real ASTs"},
            {"name": "bounded", "path": "props/*_bounded.py", "serves_properties": sorted(claimed),
             "kind_free_text": "bounded contract checkers on the real functions (stand-ins, never counted as proved)"},
        ],
        "checks": checks,
        "not_applicable": na,
        "notes": "See DESIGN.md. exit 0 held / 1 VIOLATION / 3 CHECKER-ERROR. known_findings.json lists recorded defects and the fix: commits.",
    }
    json.dump(m, open(os.path.join(V, "MANIFEST.json"), "w"), indent=1)
    print("claimed", len(checks), "not applicable", len(na))


claimed_reason = {}
if __name__ == "__main__":
    main(set(sys.argv[1:]) or set(TECH))   # no arguments: every property is claimed
