#!/bin/bash
# tools/vc_mut.sh <patch.diff> <contract-substring>   verify contracts against a scratch copy of /repo with the patch applied
T=$(mktemp -d /tmp/vcmut.XXXX); mkdir -p $T/fggs; cp /repo/fggs/*.py $T/fggs/
( cd $T && patch -p1 -s < "$1" ) || { echo "patch failed"; rm -rf $T; exit 3; }
cd /verif; FGGS_REPO=$T .venv/bin/python tools/vc1.py "$2" --repo $T 2>&1 | grep -v "^WARNING" | grep -v "^ok " | cut -c1-260
rm -rf $T
