#!/usr/bin/env python
"""tools/eval_mutant2.py <out_dir> <n> <seed-id> <Cxx> [more checks...]
Like eval_mutant.py, but evaluates the seeded change on a scratch copy of /repo (FGGS_REPO=<copy>), so /repo itself
stays untouched and background runs are not disturbed.  Evidence written during the evaluation goes to a scratch
VERIF_EVIDENCE_DIR (not /verif/evidence)."""
import json, os, shutil, subprocess, sys, tempfile
V = "/verif"
out, n, sid, pid, *more = sys.argv[1:]
d = os.path.join(V, "seeded", sid)
os.makedirs(d, exist_ok=True)
shutil.copy(f"{out}/mut{n}.diff", f"{d}/patch.diff")
shutil.copy(f"{out}/mut{n}_demo.py", f"{d}/demo.py")
meta = json.load(open(f"{out}/mut{n}_meta.json"))
T = tempfile.mkdtemp(prefix="evalmut_")
subprocess.check_call(["rsync", "-a", "--exclude=.git", "--exclude=__pycache__", "/repo/", T + "/"])
subprocess.check_call(["patch", "-p1", "-s", "-d", T, "-i", f"{d}/patch.diff"])
ev_dir = os.path.join(T, "_evidence"); os.makedirs(ev_dir)
results = {}
try:
    for p in [pid] + more:
        env = dict(os.environ, FGGS_REPO=T, VERIF_EVIDENCE_DIR=ev_dir, VERIF_REPLAY_DIR=os.path.join(T, "_replays"))
        r = subprocess.run([f"{V}/check", p], capture_output=True, text=True, cwd=V, env=env)
        ev = {}
        try:
            ev = json.load(open(f"{ev_dir}/{p}.json"))
        except Exception:
            pass
        recs = ev.get("coverage", {}).get("obligation_records", []) if r.returncode in (0, 1) else []
        failed = [(o["name"], o["status"], o["backend"]) for o in recs if o["status"] != "proved"]
        viol = [l for l in r.stdout.splitlines() if l.startswith("VIOLATION")]
        what = [l.strip()[2:] for l in r.stderr.splitlines() if l.startswith("  # ")]
        results[p] = {"exit": r.returncode, "violations": len(viol),
                      "no_failing_input_found": sum("no-failing-input-found" in l for l in viol),
                      "failed_obligations": failed[:12], "first_reports": what[:5],
                      "checker_error": next((l for l in r.stdout.splitlines() if l.startswith("CHECKER-ERROR")), None)}
finally:
    shutil.rmtree(T, ignore_errors=True)
meta.update({"id": sid, "confirmed": "applied in a scratch worktree: demo exit 1 with the change / 0 without; full suite 110 passed",
             "ran": [f"FGGS_REPO=<scratch copy with the change> ./check {p}" for p in [pid] + more], "results": results,
             "detected": any(v["exit"] == 1 for v in results.values())})
json.dump(meta, open(f"{d}/meta.json", "w"), indent=1)
for p, v in results.items():
    print(sid, p, "exit", v["exit"], "violations", v["violations"], "failed obligations", [f[0] for f in v["failed_obligations"]][:4], (v["first_reports"] or [""])[0][:120], v["checker_error"] or "")
