#!/usr/bin/env python
"""tools/reeval_all.py [-j N] [ids...]   re-run every seeded change (seeded/*/patch.diff) against the checks recorded in its
meta.json, each on its own scratch copy of /repo (FGGS_REPO), N at a time; rewrites meta.json["results"]."""
import json, os, re, shutil, subprocess, sys, tempfile, glob
from concurrent.futures import ThreadPoolExecutor
V = "/verif"
args = sys.argv[1:]
J = 3
if args and args[0] == "-j": J = int(args[1]); args = args[2:]
ids = args or sorted(os.path.basename(d) for d in glob.glob(f"{V}/seeded/*") if os.path.isdir(d))

def one(sid):
    d = f"{V}/seeded/{sid}"
    meta = json.load(open(f"{d}/meta.json"))
    pid = sid.split("-")[0]
    checks = [pid] + [p for p in meta.get("results", {}) if p != pid]
    T = tempfile.mkdtemp(prefix="reeval_")
    try:
        subprocess.check_call(["rsync", "-a", "--exclude=.git", "--exclude=__pycache__", "/repo/", T + "/"])
        r = subprocess.run(["patch", "-p1", "-s", "-d", T, "-i", f"{d}/patch.diff"], capture_output=True, text=True)
        if r.returncode != 0:
            meta["reeval"] = "patch does not apply to the current tree (the site was repaired or rewritten since)"
            json.dump(meta, open(f"{d}/meta.json", "w"), indent=1)
            return f"{sid}: patch does not apply"
        ev_dir = os.path.join(T, "_evidence"); os.makedirs(ev_dir)
        results, line = {}, []
        for p in checks:
            env = dict(os.environ, FGGS_REPO=T, VERIF_EVIDENCE_DIR=ev_dir, VERIF_REPLAY_DIR=os.path.join(T, "_replays"), VERIF_JOBS="4")
            r = subprocess.run([f"{V}/check", p], capture_output=True, text=True, cwd=V, env=env)
            ev = {}
            try: ev = json.load(open(f"{ev_dir}/{p}.json"))
            except Exception: pass
            recs = ev.get("coverage", {}).get("obligation_records", []) if r.returncode in (0, 1) else []
            failed = [(o["name"], o["status"], o["backend"]) for o in recs if o["status"] != "proved"]
            viol = [l for l in r.stdout.splitlines() if l.startswith("VIOLATION")]
            what = [l.strip()[2:] for l in r.stderr.splitlines() if l.startswith("  # ")]
            results[p] = {"exit": r.returncode, "violations": len(viol),
                          "no_failing_input_found": sum("no-failing-input-found" in l for l in viol),
                          "failed_obligations": failed[:12], "first_reports": what[:5],
                          "checker_error": next((l for l in r.stdout.splitlines() if l.startswith("CHECKER-ERROR")), None)}
            line.append(f"{p}={r.returncode}")
        meta["results"] = results
        meta["detected"] = any(v["exit"] == 1 for v in results.values())
        meta.pop("reeval", None)
        meta["ran"] = [f"FGGS_REPO=<scratch copy with the change> ./check {p}" for p in checks]
        json.dump(meta, open(f"{d}/meta.json", "w"), indent=1)
        own = results[pid]["exit"]
        return f"{sid}: {' '.join(line)}" + ("" if own == 1 else "   <-- NOT caught by its own property's check")
    finally:
        shutil.rmtree(T, ignore_errors=True)

with ThreadPoolExecutor(J) as ex:
    for msg in ex.map(one, ids):
        print(msg, flush=True)
