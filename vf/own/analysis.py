"""Frame / ownership obligations discharged by static analysis of the real ASTs ("own" back end).

  assert_purity      C11  every `assert` / `if __debug__:` block is a check only (python -O / -OO safe)
  no_id_ordering     C12  solver modules never order ids, labels, nodes or domain values
  inplace_ownership  C18  every in-place write reaches only storage owned by the call

Each site is one named obligation; `proved` means the analysis classified it as safe, `failed-no-input`
that it could not.  The tables below (what aliases, what is fresh) are the trusted base.
"""
from __future__ import annotations
import ast, os
from typing import Dict, List, Optional, Set, Tuple
from vf import core
from vf.core import Obligation, PROVED, FAILED_NO_INPUT

MODULES = ["fggs", "domains", "factors", "utils", "derivations", "conjunction", "factorize", "formats",
           "multi", "sum_product", "viterbi", "semirings", "indices", "equation"]

# container / tensor methods that mutate their receiver
MUTATORS = {"append", "add", "update", "pop", "remove", "discard", "insert", "extend", "clear", "setdefault",
            "sort", "reverse", "popitem", "add_single", "copy_", "fill_", "masked_fill_into", "requires_grad_"}


def is_inplace_name(n: str) -> bool:
    return (n.endswith("_") and not n.endswith("__")) or n in MUTATORS


def load(repo=None):
    repo = repo or core.REPO
    out = {}
    for m in MODULES:
        p = os.path.join(repo, "fggs", m + ".py")
        if os.path.exists(p):
            out[m] = ast.parse(open(p).read(), p)
    return out


def functions(tree) -> List[Tuple[str, ast.FunctionDef]]:
    """(qualified name within the module, node) for every def, including methods and nested defs"""
    res = []
    def visit(node, prefix):
        for it in ast.iter_child_nodes(node):
            if isinstance(it, (ast.FunctionDef, ast.AsyncFunctionDef)):
                res.append((prefix + it.name, it)); visit(it, prefix + it.name + ".")
            elif isinstance(it, ast.ClassDef):
                visit(it, prefix + it.name + ".")
            else:
                visit(it, prefix)
    visit(tree, "")
    return res


def own_nodes(fn):
    """nodes of fn excluding nested function bodies"""
    stack = list(ast.iter_child_nodes(fn))
    while stack:
        n = stack.pop()
        yield n
        if not isinstance(n, (ast.FunctionDef, ast.AsyncFunctionDef, ast.Lambda, ast.ClassDef)):
            stack.extend(ast.iter_child_nodes(n))


# ---------------------------------------------------------------------------------------------------
# C11: assertions are checks only
def root_name(e) -> Optional[str]:
    while isinstance(e, (ast.Attribute, ast.Subscript, ast.Call, ast.Starred)):
        e = e.func if isinstance(e, ast.Call) else e.value
        if isinstance(e, ast.Attribute) and False: pass
    return e.id if isinstance(e, ast.Name) else None


def impure_calls(node, pure_funcs: Set[str]) -> List[str]:
    bad = []
    for n in ast.walk(node):
        if isinstance(n, ast.Call):
            f = n.func
            if isinstance(f, ast.Attribute):
                if is_inplace_name(f.attr): bad.append(ast.unparse(n)[:60])
            elif isinstance(f, ast.Name):
                if is_inplace_name(f.id): bad.append(ast.unparse(n)[:60])
                if f.id in ("setattr", "delattr", "exec", "eval", "next", "print"): bad.append(ast.unparse(n)[:60])
        if isinstance(n, (ast.NamedExpr, ast.Yield, ast.YieldFrom, ast.Await)):
            bad.append(type(n).__name__)
    return bad


def mutates_arguments(fn) -> List[str]:
    """Conservative: does fn write through one of its parameters (incl. self)?"""
    params = {a.arg for a in fn.args.args + fn.args.kwonlyargs + fn.args.posonlyargs}
    tainted = set(params)
    changed = True
    while changed:            # aliases:  x = <expr rooted at a tainted name>
        changed = False
        for n in own_nodes(fn):
            if isinstance(n, ast.Assign) and root_name(n.value) in tainted and not isinstance(n.value, ast.Call):
                for t in n.targets:
                    if isinstance(t, ast.Name) and t.id not in tainted:
                        tainted.add(t.id); changed = True
            if isinstance(n, ast.For) and root_name(n.iter) in tainted:
                for t in ast.walk(n.target):
                    if isinstance(t, ast.Name) and t.id not in tainted:
                        tainted.add(t.id); changed = True
    bad = []
    for n in own_nodes(fn):
        if isinstance(n, (ast.Assign, ast.AugAssign, ast.AnnAssign, ast.Delete)):
            tgts = n.targets if isinstance(n, (ast.Assign, ast.Delete)) else [n.target]
            for t in tgts:
                if isinstance(t, (ast.Attribute, ast.Subscript)) and root_name(t) in tainted:
                    bad.append(ast.unparse(t)[:50])
        if isinstance(n, ast.Call) and isinstance(n.func, ast.Attribute) and is_inplace_name(n.func.attr) \
                and root_name(n.func.value) in tainted:
            bad.append(ast.unparse(n)[:50])
        if isinstance(n, (ast.Global, ast.Nonlocal)):
            bad.append("global/nonlocal")
    return bad


def assert_purity(repo=None) -> core.Report:
    rep = core.Report(property_id="C11", level="other")
    trees = load(repo)
    # program functions that write through their arguments (calling one inside an assert is impure)
    impure_fn: Dict[str, List[str]] = {}
    for m, tree in trees.items():
        for q, fn in functions(tree):
            b = mutates_arguments(fn)
            if b: impure_fn[fn.name] = b
    # PhysicalAxis.lookup compresses forwarding chains in `subst` (a semantic no-op): allowed
    benign = {"lookup", "unify", "__post_init__", "__init__"}
    for m, tree in trees.items():
        for q, fn in functions(tree):
            k = 0
            for n in sorted(own_nodes(fn), key=lambda x: (getattr(x, "lineno", 0), getattr(x, "col_offset", 0))):
                is_assert = isinstance(n, ast.Assert)
                is_debug = isinstance(n, ast.If) and ast.unparse(n.test) == "__debug__"
                if not (is_assert or is_debug): continue
                name = f"{m}.{q}.assert{k}.is_check_only" if is_assert else f"{m}.{q}.debug_block{k}.is_check_only"
                k += 1
                body = [n.test] + ([n.msg] if n.msg else []) if is_assert else n.body
                bad: List[str] = []
                for b in body:
                    bad += impure_calls(b, set())
                    for c in ast.walk(b):
                        if isinstance(c, ast.Call):
                            fname = c.func.attr if isinstance(c.func, ast.Attribute) else getattr(c.func, "id", None)
                            if fname in impure_fn and fname not in benign and any(not isinstance(a, ast.Constant) for a in c.args + [c.func]):
                                # method of the same name on an unrelated object?  be conservative only for plain functions
                                if isinstance(c.func, ast.Name): bad.append(f"{fname}() writes through its arguments")
                if is_debug:
                    if n.orelse: bad.append("else branch")
                    assigned = {t.id for s in ast.walk(n) if isinstance(s, (ast.Assign, ast.AugAssign, ast.For))
                                for t in ast.walk(s.targets[0] if isinstance(s, ast.Assign) else s.target)
                                if isinstance(t, ast.Name)}
                    inside = {id(x) for x in ast.walk(n)}
                    for x in own_nodes(fn):
                        if isinstance(x, ast.Name) and isinstance(x.ctx, ast.Load) and x.id in assigned and id(x) not in inside:
                            # read outside: only a problem if the name is not also assigned outside the block
                            outside_def = any(isinstance(y, ast.Name) and isinstance(y.ctx, ast.Store) and y.id == x.id
                                              and id(y) not in inside for y in own_nodes(fn))
                            params = {a.arg for a in fn.args.args}
                            if not outside_def and x.id not in params:
                                bad.append(f"{x.id} is defined only inside the block but read outside")
                    for s in ast.walk(n):
                        if isinstance(s, (ast.Return, ast.Break, ast.Continue, ast.Delete)):
                            bad.append(type(s).__name__ + " inside the block")
                        if isinstance(s, (ast.Assign, ast.AugAssign)):
                            for t in (s.targets if isinstance(s, ast.Assign) else [s.target]):
                                if isinstance(t, (ast.Attribute, ast.Subscript)):
                                    bad.append("assignment to " + ast.unparse(t)[:40])
                rep.obligations.append(Obligation(name, f"fggs.{m}.{q}", "frame", PROVED if not bad else FAILED_NO_INPUT,
                                                  "own", 0.0, f"fggs/{m}.py:{n.lineno}", "; ".join(bad)))
        # -OO removes docstrings: nothing may read them
        uses_doc = [n.lineno for n in ast.walk(tree) if isinstance(n, ast.Attribute) and n.attr == "__doc__"]
        rep.obligations.append(Obligation(f"{m}.no_use_of___doc__", f"fggs.{m}", "frame",
                                          PROVED if not uses_doc else FAILED_NO_INPUT, "own", 0.0, f"fggs/{m}.py",
                                          f"lines {uses_doc}" if uses_doc else ""))
    rep.trusted_base.append("own: a call is side-effect free unless its name ends in '_' , is one of the known container "
                            "mutators, or it is a program function that writes through its parameters (vf/own/analysis.py)")
    rep.assumptions.append("C11: raise and warnings.warn inside a check are not side effects on values or gradients; "
                           "`assert False` statements are unreachable (not proved)")
    return rep


# ---------------------------------------------------------------------------------------------------
# C12: no ordering of ids / labels / nodes / domain values in the solver modules
SOLVER_MODULES = ["sum_product", "multi", "utils", "viterbi"]
NUMERIC_CALLS = {"len", "numel", "item", "size", "int", "float", "abs", "max", "min", "sum", "dim", "perf_counter_ns",
                 "arity", "index", "count", "stride"}
NUMERIC_ATTRS = {"ndim", "default", "arity", "lineno"}


class Numeric:
    def __init__(self, fn):
        self.fn = fn
        self.params = {a.arg: (ast.unparse(a.annotation) if a.annotation else "") for a in fn.args.args + fn.args.kwonlyargs}
        self.assigns: Dict[str, List[ast.expr]] = {}
        self.sub_assigns: Dict[str, List[ast.expr]] = {}
        for n in ast.walk(fn):          # incl. nested functions (closures write the enclosing function's containers)
            if isinstance(n, ast.Assign):
                for t in n.targets:
                    self.bind(t, n.value)
            elif isinstance(n, ast.AugAssign):
                self.bind(n.target, n.value)
            elif isinstance(n, ast.For):
                if isinstance(n.iter, ast.Call) and getattr(n.iter.func, "id", "") == "range":
                    self.bind(n.target, ast.Constant(0))
                elif isinstance(n.iter, ast.Call) and getattr(n.iter.func, "id", "") == "enumerate" and isinstance(n.target, ast.Tuple):
                    self.bind(n.target.elts[0], ast.Constant(0))

    def bind(self, t, v):
        if isinstance(t, ast.Name): self.assigns.setdefault(t.id, []).append(v)
        elif isinstance(t, ast.Subscript) and isinstance(t.value, ast.Name): self.sub_assigns.setdefault(t.value.id, []).append(v)
        elif isinstance(t, ast.Tuple) and isinstance(v, ast.Tuple) and len(t.elts) == len(v.elts):
            for a, b in zip(t.elts, v.elts): self.bind(a, b)

    def numeric(self, e, depth=0) -> bool:
        if depth > 6: return False
        if isinstance(e, ast.Constant): return isinstance(e.value, (int, float)) and not isinstance(e.value, bool) or isinstance(e.value, bool)
        if isinstance(e, ast.UnaryOp): return self.numeric(e.operand, depth + 1)
        if isinstance(e, ast.BinOp): return self.numeric(e.left, depth + 1) and self.numeric(e.right, depth + 1)
        if isinstance(e, ast.IfExp): return self.numeric(e.body, depth + 1) and self.numeric(e.orelse, depth + 1)
        if isinstance(e, ast.Call):
            f = e.func
            n = f.attr if isinstance(f, ast.Attribute) else getattr(f, "id", "")
            return n in NUMERIC_CALLS
        if isinstance(e, ast.Attribute): return e.attr in NUMERIC_ATTRS
        if isinstance(e, ast.Name):
            if e.id in ("inf", "nan", "tol", "kmax", "dmax", "time", "k", "n", "i", "j"): return True
            ann = self.params.get(e.id)
            if ann is not None and ann in ("int", "float", "bool"): return True
            vals = self.assigns.get(e.id)
            return bool(vals) and all(self.numeric(v, depth + 1) for v in vals)
        if isinstance(e, ast.Subscript) and isinstance(e.value, ast.Name):
            vals = self.sub_assigns.get(e.value.id)
            if vals and all(self.numeric(v, depth + 1) for v in vals): return True
            if e.value.id in ("opts",): return True
            return False
        return False


def no_id_ordering(repo=None) -> core.Report:
    rep = core.Report(property_id="C12", level="exploration")
    trees = load(repo)
    for m in SOLVER_MODULES:
        tree = trees.get(m)
        if tree is None: continue
        for q, fn in functions(tree):
            num = Numeric(fn)
            k = 0
            for n in sorted(own_nodes(fn), key=lambda x: (getattr(x, "lineno", 0), getattr(x, "col_offset", 0))):
                operands, what = None, ""
                if isinstance(n, ast.Compare) and any(isinstance(o, (ast.Lt, ast.LtE, ast.Gt, ast.GtE)) for o in n.ops):
                    operands, what = [n.left] + list(n.comparators), "comparison"
                elif isinstance(n, ast.Call):
                    f = n.func
                    fname = f.attr if isinstance(f, ast.Attribute) else getattr(f, "id", "")
                    if fname in ("sorted", "sort", "min", "max") and not (isinstance(f, ast.Attribute) and isinstance(f.value, ast.Name) and f.value.id in ("torch",)):
                        key = next((kw.value for kw in n.keywords if kw.arg == "key"), None)
                        if isinstance(f, ast.Attribute) and fname in ("min", "max"):
                            continue                       # tensor.max() etc.: numeric by construction
                        if key is not None and isinstance(key, ast.Lambda):
                            sub = Numeric(fn); sub.params = dict(num.params)
                            operands, what = [key.body], f"{fname}(key=...)"
                            # the lambda parameter is an element; its key expression must be numeric
                        elif fname in ("min", "max") and len(n.args) >= 2:
                            operands, what = list(n.args), fname
                        elif fname in ("min", "max", "sorted") and len(n.args) == 1:
                            a = n.args[0]
                            # elements of a generator / list: check the element expression
                            if isinstance(a, (ast.GeneratorExp, ast.ListComp)): operands = [a.elt]
                            else: operands = [ast.Subscript(a, ast.Constant(0), ast.Load())] if isinstance(a, ast.Name) else [a]
                            what = fname
                        elif fname == "sort":
                            operands, what = [ast.Name("?unknown", ast.Load())], "sort"
                if operands is None: continue
                ok = all(num.numeric(o) for o in operands)
                name = f"{m}.{q}.ordering{k}.on_numbers_only"
                k += 1
                rep.obligations.append(Obligation(name, f"fggs.{m}.{q}", "frame", PROVED if ok else FAILED_NO_INPUT, "own", 0.0,
                                                  f"fggs/{m}.py:{n.lineno}", f"{what}: {ast.unparse(n)[:70]}"))
    rep.trusted_base.append("own: numeric-expression inference of vf/own/analysis.py (len/numel/item/..., literals, counters)")
    return rep


# ---------------------------------------------------------------------------------------------------
# C18: in-place writes reach only storage owned by the call
ALIASING = {"view", "reshape", "expand", "expand_as", "permute", "t", "T", "transpose", "unsqueeze", "squeeze", "diagonal",
            "as_strided", "physical", "project", "flatten", "movedim", "detach", "default_to", "freshen", "dim_to_dense",
            "nonphysical", "reincarnate", "values", "keys", "items", "get", "contiguous", "to", "unbind", "narrow"}
# functions / methods whose result is always freshly allocated storage
FRESH = {"clone", "new_full", "new_tensor", "new_ones", "new_zeros", "new_empty", "to_dense", "einsum", "stack", "tensor",
         "zeros", "ones", "full", "full_like", "zeros_like", "eye", "arange", "as_tensor", "where", "solve", "copy",
         "isclose", "eq", "lt", "le", "gt", "ge", "add", "sub", "mul", "div", "logaddexp", "maximum", "exp", "log", "abs",
         "logical_or", "logical_and", "logical_not", "sum", "logsumexp", "max", "any", "all", "mv", "mm", "log_softmax",
         "reciprocal", "neg", "isinf", "isnan", "make_a", "make_b", "from_int", "zeros_", "MultiTensor", "PatternedTensor",
         "semiring_einsum_forward", "log_viterbi_einsum_forward", "compute_sum", "sum_block", "max_block", "dict", "list",
         "set", "tuple", "F", "J", "multi_solve", "multi_mv", "F_viterbi", "sum_product_edges", "linear", "norm"}
# functions that are in-place by contract on the listed parameters (documented API of the callee)
OWNED_PARAMS = {
    "index": {"physical"}, "J": {"J_inputs"}, "J_log": {"J_inputs"}, "J_precompute_products": {"J_inputs"},
    "unify": {"subst"}, "antiunify": {"antisubst"}, "extend_antisubst": {"antisubst"}, "freshen": {"rename"},
    "lookup": {"subst"}, "rename_duplicate_nodes": {"tensors", "indexing", "connected"},
    "add_": {"x"}, "multiply_in_place": {"a"}, "add_in_place": {"a"}, "sumexpsub_block": {"a"},
    "masked_fill_into": {"dest"}, "fixed_point": {"x0"}, "newton": {"x0"}, "post_einsum": set(),
}
SELF_MUTATORS = {"neg_", "log_", "log1p_", "relu_", "abs_", "nan_to_num_", "__imul__", "__itruediv__", "copy_",
                 "requires_grad_", "__setitem__", "__delitem__", "add_single", "__iadd__", "__isub__", "maximum_",
                 "__init__", "__post_init__", "update", "clear", "pop", "popitem", "setdefault"}


RETURNS_ARGUMENT = {"cast", "project", "reversed", "zip", "enumerate", "iter", "next", "chain", "getattr", "sorted_view"}
NOT_TENSOR_CONTAINERS = {"stride", "antisubst", "subst", "rename", "paxis_to_char", "index_to_vaxis", "pi", "ctx",
                         "output_paxes_set", "finish_times", "nonterminal_graph", "lowlink", "indexof", "chart"}


def expr_root(e):
    """strip aliasing operations: returns (root expression, True if the value is freshly allocated)"""
    while True:
        if isinstance(e, (ast.Compare, ast.UnaryOp, ast.BinOp, ast.BoolOp, ast.JoinedStr, ast.Lambda)):
            return e, True                          # operators allocate their result
        if isinstance(e, ast.Subscript): e = e.value; continue
        if isinstance(e, ast.Attribute): e = e.value; continue
        if isinstance(e, ast.Call):
            f = e.func
            n = f.attr if isinstance(f, ast.Attribute) else getattr(f, "id", "")
            if isinstance(f, ast.Attribute):
                if n in ALIASING or (n.endswith("_") and not n.endswith("__")) or n in ("copy_", "fill_", "requires_grad_"):
                    e = f.value; continue          # views and torch's in-place methods return (an alias of) the receiver
                return e, True                      # any other method allocates its result (trusted table: ALIASING)
            if n in RETURNS_ARGUMENT and e.args:
                e = e.args[1] if n == "cast" and len(e.args) == 2 else e.args[0]; continue
            return e, True                          # constructors and functions allocate their result
        return e, False


def block_paths(fn):
    """statement -> tuple of (id(parent statement), field) from the function body down to the statement"""
    paths = {}
    def visit(stmts, path):
        for s in stmts:
            paths[id(s)] = path
            for field in ("body", "orelse", "finalbody"):
                sub = getattr(s, field, None)
                if isinstance(sub, list) and sub and isinstance(sub[0], ast.stmt) and not isinstance(s, (ast.FunctionDef, ast.ClassDef)):
                    visit(sub, path + ((id(s), field, isinstance(s, (ast.For, ast.While))),))
            for h in getattr(s, "handlers", []) or []:
                visit(h.body, path + ((id(s), "handler", False),))
    visit(fn.body, ())
    return paths


class Ownership:
    """Which values may a name hold at a program point?  Reaching definitions, approximated on the
    statement tree: the nearest preceding definition that dominates the use, plus every definition in
    between that sits in a non-dominating branch, plus definitions later in an enclosing loop."""

    def __init__(self, fn, qual, parent: "Ownership" = None):
        self.fn, self.qual, self.parent = fn, qual, parent
        a = fn.args
        self.params = [x.arg for x in a.posonlyargs + a.args + a.kwonlyargs]
        self.fresh_params = {x.arg for x in (a.vararg, a.kwarg) if x is not None}     # *args / **kw: built per call
        self.paths = block_paths(fn)
        self.defs: Dict[str, List[Tuple[ast.stmt, ast.expr]]] = {}
        self.stmt_of: Dict[int, ast.stmt] = {}
        for st in [n for n in own_nodes(fn) if isinstance(n, ast.stmt)]:
            for sub in ast.walk(st) if not isinstance(st, (ast.For, ast.While, ast.If, ast.With, ast.Try)) else [st]:
                pass
            if isinstance(st, ast.Assign):
                for t in st.targets: self.bind(st, t, st.value)
            elif isinstance(st, ast.AnnAssign) and st.value is not None: self.bind(st, st.target, st.value)
            elif isinstance(st, ast.For):
                it = st.iter
                if isinstance(it, ast.Call) and getattr(it.func, "id", "") == "zip" and isinstance(st.target, ast.Tuple) \
                        and len(st.target.elts) == len(it.args):
                    for t, src in zip(st.target.elts, it.args): self.bind(st, t, ast.Subscript(src, ast.Constant(0), ast.Load()))
                else:
                    self.bind(st, st.target, ast.Subscript(it, ast.Constant(0), ast.Load()))
        for n in own_nodes(fn):
            if isinstance(n, ast.expr):
                pass

    def bind(self, st, t, v):
        if isinstance(t, ast.Name): self.defs.setdefault(t.id, []).append((st, v))
        elif isinstance(t, (ast.Tuple, ast.List)):
            if isinstance(v, (ast.Tuple, ast.List)) and len(v.elts) == len(t.elts):
                for a, b in zip(t.elts, v.elts): self.bind(st, a, b)
            else:
                for a in t.elts: self.bind(st, a, v)

    def enclosing_stmt(self, node):
        best = None
        for st in own_nodes(self.fn):
            if isinstance(st, ast.stmt) and id(st) in self.paths and st.lineno <= node.lineno <= getattr(st, "end_lineno", st.lineno):
                if best is None or st.lineno >= best.lineno and len(self.paths[id(st)]) >= len(self.paths[id(best)]):
                    best = st
        return best

    def reaching(self, name, site_stmt) -> Optional[List[ast.expr]]:
        """definitions of `name` that may reach site_stmt; None if a parameter value / free variable may reach"""
        ds = self.defs.get(name, [])
        if site_stmt is None: return [v for _, v in ds] or None
        spath = self.paths.get(id(site_stmt), ())
        before = [(d, v) for d, v in ds if (d.lineno, getattr(d, "col_offset", 0)) < (site_stmt.lineno, 0) or d is site_stmt and False]
        before.sort(key=lambda x: x[0].lineno, reverse=True)
        out, dominated = [], False
        for d, v in before:
            out.append(v)
            dpath = self.paths.get(id(d), ())
            if isinstance(d, ast.For): dpath = dpath + ((id(d), "body", True),)
            if spath[:len(dpath)] == dpath and not (isinstance(d, ast.For) and False):
                dominated = True
                break
        # definitions later in a loop that encloses the site
        loops = {p[0] for p in spath if p[2]}
        for d, v in ds:
            if d.lineno >= site_stmt.lineno and any(p[0] in loops for p in self.paths.get(id(d), ())):
                out.append(v)
        if not dominated:
            return None if not out or True and not dominated and (name in self.params or not ds) else out
        return out

    def stored_into(self, name, visited=None):
        """values stored into the container `name` (or a local alias of it) anywhere in the function"""
        visited = visited or set()
        if name in visited: return []
        visited.add(name)
        out = []
        for n in own_nodes(self.fn):
            if isinstance(n, ast.Assign):
                for t in n.targets:
                    if isinstance(t, ast.Subscript) and isinstance(t.value, ast.Name) and t.value.id == name:
                        out.append((n, n.value))
            if isinstance(n, ast.Call) and isinstance(n.func, ast.Attribute) and n.func.attr in ("add_single", "__setitem__", "append") \
                    and isinstance(n.func.value, ast.Name) and n.func.value.id == name and n.args:
                out.append((n, n.args[-1]))
        for d, v in self.defs.get(name, []):
            if isinstance(v, ast.Name):
                out += self.stored_into(v.id, visited)
        return out

    def element_access(self, e):
        """name of the local container if e reads an element of it (X[...], X[...].attr, ...)"""
        while isinstance(e, (ast.Attribute, ast.Call)):
            e = e.func if isinstance(e, ast.Call) else e.value
        if isinstance(e, ast.Subscript) and isinstance(e.value, ast.Name):
            return e.value.id
        return None

    def owned(self, e, site_stmt, depth=0, seen=None) -> Tuple[bool, str]:
        seen = seen or set()
        cont = self.element_access(e) if depth == 0 else None
        if cont is not None and cont in self.defs:
            for stn, v in self.stored_into(cont):
                ok, why = self.owned(v, self.enclosing_stmt(stn), depth + 1, seen)
                if not ok:
                    return False, f"element stored into {cont} at line {stn.lineno}: {why}"
        root, fresh = expr_root(e)
        if fresh: return True, "fresh allocation"
        if isinstance(root, ast.Constant): return True, "constant"
        if isinstance(root, (ast.ListComp, ast.GeneratorExp, ast.List, ast.Tuple, ast.Dict, ast.DictComp, ast.Set)):
            elts = [root.elt] if isinstance(root, (ast.ListComp, ast.GeneratorExp)) else \
                   (root.elts if isinstance(root, (ast.List, ast.Tuple, ast.Set)) else
                    ([root.value] if isinstance(root, ast.DictComp) else root.values))
            for x in elts:
                ok, why = self.owned(x, site_stmt, depth + 1, seen)
                if not ok: return False, why
            return True, "container of owned values"
        if isinstance(root, ast.IfExp):
            a, wa = self.owned(root.body, site_stmt, depth + 1, seen); b, wb = self.owned(root.orelse, site_stmt, depth + 1, seen)
            return (a and b), (wa if not a else wb)
        if isinstance(root, ast.Name):
            name = root.id
            if (name, id(site_stmt)) in seen or depth > 10: return True, "cycle"
            fname = self.fn.name
            if name == "self":
                return (fname in SELF_MUTATORS or is_inplace_name(fname)), f"self in {fname}"
            if name in self.fresh_params: return True, "*args / **kwargs are built per call"
            vals = self.reaching(name, site_stmt)
            if vals is None:
                if name in self.params:
                    ok = name in OWNED_PARAMS.get(fname, set())
                    return ok, f"parameter {name}" + (" is in-place by contract" if ok else " is caller-owned")
                if self.parent is not None and name not in self.defs:
                    return self.parent.owned(root, None, depth + 1, seen)
                if name not in self.defs: return False, f"{name}: unknown origin (global / free variable)"
                vals = [v for _, v in self.defs[name]]
            why = "no definition"
            for v in vals:
                # the definition's own right-hand side is evaluated where it stands
                dstmt = next((d for d, vv in self.defs.get(name, []) if vv is v), site_stmt)
                ok, why = self.owned(v, dstmt, depth + 1, seen | {(name, id(site_stmt))})
                if not ok: return False, f"{name} <- {why}"
            return True, why
        return False, f"cannot classify {ast.unparse(root)[:40]}"


def inplace_sites(fn):
    for n in sorted(own_nodes(fn), key=lambda x: (getattr(x, "lineno", 0), getattr(x, "col_offset", 0))):
        if isinstance(n, ast.Call):
            f = n.func
            if isinstance(f, ast.Attribute) and f.attr == "add_" and len(n.args) == 2:
                yield n, n.args[0], "semiring.add_(x, y) writes x"
                continue
            if isinstance(f, ast.Attribute) and is_inplace_name(f.attr) and f.attr not in ("append", "add", "update", "pop", "remove",
                                                                                       "discard", "insert", "extend", "clear",
                                                                                       "setdefault", "sort", "reverse", "popitem"):
                yield n, f.value, f"{f.attr}()"
            for kw in n.keywords:
                if kw.arg == "out":
                    yield n, kw.value, "out="
            if isinstance(f, ast.Attribute) and f.attr == "solve_thunks":
                for a in n.args:
                    if isinstance(a, ast.Lambda):
                        yield n, a.body, "thunk passed to solve_thunks must return fresh storage"
            if isinstance(f, ast.Name) and f.id in ("operate_",) and n.args:
                yield n, n.args[0], "operate_()"
            if isinstance(f, ast.Attribute) and f.attr == "masked_fill_into" and n.args:
                yield n, n.args[0], "masked_fill_into(dest)"
        elif isinstance(n, ast.Assign):
            for t in n.targets:
                if isinstance(t, ast.Subscript):
                    yield n, t.value, "subscript assignment"
        elif isinstance(n, ast.AugAssign) and isinstance(n.target, (ast.Subscript, ast.Attribute)):
            yield n, n.target.value, "augmented assignment"


TENSOR_MODULES = ["semirings", "multi", "indices", "sum_product", "viterbi", "equation"]
# dicts / lists that are plain local bookkeeping (subscript assignment on them is not a tensor write)
def local_container(own: Ownership, e) -> bool:
    root, _ = expr_root(e)
    if isinstance(root, ast.Name):
        vals = own.assigns.get(root.id, [])
        if vals and all(isinstance(v, (ast.Dict, ast.DictComp, ast.List, ast.ListComp, ast.Set)) or
                        (isinstance(v, ast.Call) and getattr(v.func, "id", "") in ("dict", "list", "set", "MultiTensor")) for v in vals):
            return True
    return False


def inplace_ownership(repo=None) -> core.Report:
    rep = core.Report(property_id="C18", level="other")
    trees = load(repo)
    nsites = 0
    for m in TENSOR_MODULES:
        tree = trees.get(m)
        if tree is None: continue
        owners: Dict[str, Ownership] = {}
        for q, fn in functions(tree):
            if fn.name.startswith("_verif"): continue          # the verification hook itself
            parent = owners.get(q.rsplit(".", 1)[0]) if "." in q else None
            own = Ownership(fn, q, parent)
            owners[q] = own
            k = 0
            for node, recv, kind in inplace_sites(fn):
                root, _ = expr_root(recv)
                if isinstance(root, ast.Name) and root.id in NOT_TENSOR_CONTAINERS:
                    continue                     # axis / graph bookkeeping dictionaries, not tensor storage
                if kind == "subscript assignment" and isinstance(recv, ast.Attribute) and recv.attr == "_dict":
                    continue
                ok, why = own.owned(recv, own.enclosing_stmt(node))
                name = f"{m}.{q}.inplace{k}.writes_owned_storage"
                k += 1; nsites += 1
                rep.obligations.append(Obligation(name, f"fggs.{m}.{q}", "frame", PROVED if ok else FAILED_NO_INPUT, "own", 0.0,
                                                  f"fggs/{m}.py:{node.lineno}", f"{kind} on `{ast.unparse(recv)[:50]}`: {why}"))
    rep.extra["inplace_sites"] = nsites
    rep.trusted_base.append("own: torch alias table (view/reshape/expand/permute/T/diagonal/as_strided/__getitem__/.physical/project alias "
                            "their source; every other method or function call, and every operator, allocates its result) and the list "
                            "of functions that are in-place on a named parameter by their documented contract (vf/own/analysis.py)")
    return rep


def no_hidden_state(repo=None) -> core.Report:
    """C18 (reproducibility): a query must not carry state from one call to the next --
    no mutable default argument, no function that writes a module-level container."""
    rep = core.Report(property_id="C18", level="other")
    trees = load(repo)
    ALLOWED_GLOBALS = {"_verif_stats", "warnings"}           # the verification hook's counters; warnings.formatwarning
    for m, tree in trees.items():
        module_containers = set()
        for n in tree.body:
            if isinstance(n, ast.Assign) and isinstance(n.value, (ast.Dict, ast.List, ast.Set, ast.DictComp, ast.ListComp)) or \
               isinstance(n, ast.Assign) and isinstance(n.value, ast.Call) and getattr(n.value.func, "id", "") in ("dict", "list", "set"):
                for t in n.targets:
                    if isinstance(t, ast.Name): module_containers.add(t.id)
        for q, fn in functions(tree):
            bad = []
            a = fn.args
            for d in list(a.defaults) + [x for x in a.kw_defaults if x is not None]:
                if isinstance(d, (ast.List, ast.Dict, ast.Set, ast.ListComp, ast.DictComp, ast.SetComp)) or \
                   (isinstance(d, ast.Call) and getattr(d.func, "id", "") in ("set", "list", "dict", "defaultdict", "Counter")):
                    bad.append(f"mutable default argument {ast.unparse(d)}")
            local = {x.arg for x in a.args + a.kwonlyargs + a.posonlyargs}
            for n in own_nodes(fn):
                if isinstance(n, ast.Assign):
                    for t in n.targets:
                        if isinstance(t, ast.Name): local.add(t.id)
            for n in own_nodes(fn):
                tgt = None
                if isinstance(n, (ast.Assign, ast.AugAssign)):
                    for t in (n.targets if isinstance(n, ast.Assign) else [n.target]):
                        if isinstance(t, ast.Subscript): tgt = root_name(t)
                elif isinstance(n, ast.Call) and isinstance(n.func, ast.Attribute) and n.func.attr in MUTATORS:
                    tgt = root_name(n.func.value)
                elif isinstance(n, ast.Global):
                    bad.append("global statement")
                if tgt and tgt in module_containers and tgt not in local and tgt not in ALLOWED_GLOBALS:
                    bad.append(f"writes module-level container {tgt}")
            if a.defaults or a.kw_defaults or bad:
                rep.obligations.append(Obligation(f"{m}.{q}.no_state_across_calls", f"fggs.{m}.{q}", "frame",
                                                  PROVED if not bad else FAILED_NO_INPUT, "own", 0.0,
                                                  f"fggs/{m}.py:{fn.lineno}", "; ".join(bad)))
    return rep


if __name__ == "__main__":
    import sys
    for r in (assert_purity(), no_id_ordering(), inplace_ownership(), no_hidden_state()):
        bad = [o for o in r.obligations if o.status != PROVED]
        print(r.property_id, len(r.obligations), "obligations,", len(bad), "not proved")
        for o in (r.obligations if "-v" in sys.argv else bad):
            print(f"  {o.status:16s} {o.name}  [{o.where}] {o.detail[:140]}")
