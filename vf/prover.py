"""Discharging verification conditions: z3 (Python API, deterministic rlimit) first,
/usr/bin/cvc5 on the same SMT-LIB text for z3's `unknown`s."""
from __future__ import annotations
import os, subprocess, tempfile, time
import z3

RLIMIT = int(os.environ.get("VERIF_RLIMIT", "40000000"))    # ~ 10-20 s of z3 work; deterministic
CVC5 = "/usr/bin/cvc5"


class Result:
    __slots__ = ("status", "backend", "time_s", "detail", "model", "rlimit")

    def __init__(self, status, backend, time_s, detail="", model=None, rlimit=0):
        self.status, self.backend, self.time_s, self.detail, self.model, self.rlimit = \
            status, backend, time_s, detail, model, rlimit

    @property
    def proved(self):
        return self.status == "unsat"


def check_valid(hyps, goal, *, rlimit: int = None, use_cvc5: bool = True, tactic: str = None,
                cvc5_timeout_s: int = 20, seed: int = None) -> Result:
    """Validity of  /\\ hyps -> goal.   status: 'unsat' (proved) | 'sat' (counter-model) | 'unknown'."""
    rl = rlimit or RLIMIT
    t0 = time.time()
    s = z3.Solver() if tactic is None else z3.Tactic(tactic).solver()
    s.set("rlimit", rl)
    if seed is not None:
        s.set("random_seed", seed)
    for h in hyps:
        s.add(h)
    s.add(z3.Not(goal))
    r = s.check()
    dt = time.time() - t0
    if r == z3.unsat:
        return Result("unsat", "z3", dt, rlimit=rl)
    if r == z3.sat:
        m = s.model()
        return Result("sat", "z3", dt, detail=_model_str(m), model=m, rlimit=rl)
    reason = s.reason_unknown()
    if use_cvc5 and os.path.exists(CVC5):
        r2 = _cvc5(s.to_smt2(), cvc5_timeout_s)
        if r2 == "unsat":
            return Result("unsat", "cvc5", time.time() - t0, rlimit=rl)
        if r2 == "sat":
            return Result("sat", "cvc5", time.time() - t0, detail="cvc5: sat (no model extracted)", rlimit=rl)
        reason += f"; cvc5: {r2}"
    return Result("unknown", "z3", time.time() - t0, detail=f"unknown: {reason}", rlimit=rl)


def _cvc5(smt2: str, timeout_s: int) -> str:
    with tempfile.NamedTemporaryFile("w", suffix=".smt2", delete=False) as f:
        f.write("(set-logic ALL)\n" + smt2)
        path = f.name
    try:
        out = subprocess.run([CVC5, f"--tlimit={timeout_s * 1000}", path], capture_output=True,
                             text=True, timeout=timeout_s + 5)
        first = (out.stdout.strip().splitlines() or ["error"])[0]
        return first if first in ("sat", "unsat", "unknown") else f"error({first[:60]})"
    except subprocess.TimeoutExpired:
        return "timeout"
    finally:
        os.unlink(path)


def _model_str(m, limit=40) -> str:
    items = []
    for d in m.decls():
        if "!" in d.name() and not d.name().startswith("zs"):
            continue
        items.append(f"{d.name()} = {m[d]}")
    items.sort()
    return "; ".join(items[:limit])
