"""C08 (and the scalar clauses of C02/C07/C11): semiring laws as proof obligations over the
scalar meaning of the *real* method bodies of /repo/fggs/semirings.py.

Every law is written once, against an abstract `ops` object; `SymOps` evaluates it symbolically
(interp.py over the method ASTs, extended reals in z3), `NativeOps` evaluates it on the real
semiring objects with float64 tensors (used to replay the solver's counter-model).
"""
from __future__ import annotations
import ast, math, os, time
from typing import Any, Callable, Dict, List, Tuple
import z3
from vf import core, prover
from vf.core import Obligation, Failure, PROVED, REFUTED, FAILED_NO_INPUT, UNDECIDED
from vf.semvc import er, interp
from vf.semvc.interp import Val, Interp, Unsupported

SEMIRINGS = ["RealSemiring", "LogSemiring", "ViterbiSemiring", "BoolSemiring"]
MODE = {"RealSemiring": "lin", "LogSemiring": "log", "ViterbiSemiring": "lin", "BoolSemiring": "bool"}
SRC = os.path.join(core.REPO, "fggs", "semirings.py")


def load_classes(path=SRC) -> Dict[str, Dict[str, Any]]:
    """class name -> {method name: FunctionDef, '=name': assigned expression}"""
    tree = ast.parse(open(path).read(), path)
    out: Dict[str, Dict[str, Any]] = {}
    for node in tree.body:
        if isinstance(node, ast.ClassDef):
            d: Dict[str, Any] = {}
            for it in node.body:
                if isinstance(it, ast.FunctionDef):
                    d[it.name] = it
                elif isinstance(it, ast.Assign) and len(it.targets) == 1 and isinstance(it.targets[0], ast.Name):
                    d["=" + it.targets[0].id] = it.value
            out[node.name] = d
    return out


def params(fdef: ast.FunctionDef) -> List[str]:
    names = [a.arg for a in fdef.args.args]
    return [n for n in names if n != "self"]


# ------------------------------------------------------------------------------------------
class SymOps:
    def __init__(self, cls: str, classes):
        self.cls, self.classes, self.mode = cls, classes, MODE[cls]
        self.hyps: List[Any] = list(interp.AXIOMS)
        self.vars: Dict[str, Val] = {}

    def var(self, name: str) -> Val:
        if self.mode == "bool":
            v = Val("bool", z3.Bool(name))
        else:
            e = er.var(name)
            self.hyps.append(er.wf(e))
            v = Val(self.mode, e)
            self.hyps.append(self.in_carrier(v))
        self.vars[name] = v
        return v

    def nat(self, name: str) -> Val:
        i = z3.Int(name)
        self.hyps.append(i >= 0)
        v = Val("int", i)
        self.vars[name] = v
        return v

    def in_carrier(self, v: Val):
        if v.mode == "bool":
            return z3.BoolVal(True)
        e = v.t
        if self.cls in ("RealSemiring", "LogSemiring"):      # [0, +inf] (Log: the exp-image)
            return z3.Or(e.pinf, z3.And(e.fin, e.v >= 0))
        return z3.Or(e.fin, e.pinf, e.ninf)                   # Viterbi: [-inf, +inf]

    def call(self, method: str, *args) -> Val:
        fdef = self.classes[self.cls].get(method)
        if fdef is None:
            raise Unsupported(f"{self.cls}.{method} not found")
        env = dict(zip(params(fdef), args))
        it = Interp(env)
        r = it.run(fdef.body)
        if it.raises:
            raise Unsupported("python-level raise in torch code")
        return r

    def call_inplace(self, method: str, *args) -> Val:
        """Value left in the first parameter by an in-place method."""
        fdef = self.classes[self.cls][method]
        ps = params(fdef)
        it = Interp(dict(zip(ps, args)))
        it.run(fdef.body)
        return it.env[ps[0]]

    def nested(self, method: str, inner: str) -> ast.FunctionDef:
        for n in ast.walk(self.classes[self.cls][method]):
            if isinstance(n, ast.FunctionDef) and n.name == inner:
                return n
        raise Unsupported(f"{self.cls}.{method}.{inner} not found")

    def call_nested_inplace(self, method: str, inner: str, *args) -> Val:
        fdef = self.nested(method, inner)
        ps = params(fdef)
        it = Interp(dict(zip(ps, args)))
        it.run(fdef.body)
        return it.env[ps[0]]

    # ops used by the laws
    def add(self, x, y): return self.call("add", x, y)
    def mul(self, x, y): return self.call("mul", x, y)
    def sub(self, x, y): return self.call("sub", x, y)
    def star(self, x): return self.call("star", x)
    def from_int(self, n): return self.call("from_int", n if isinstance(n, Val) else Val("int", z3.IntVal(n)))
    def add_(self, x, y): return self.call_inplace("add_", x, y)
    def eq(self, a, b): return interp.val_eq(a, b)
    def le(self, a, b):
        if a.mode == "bool": return z3.Implies(a.t, b.t)
        return er.le(a.t, b.t)
    def implies(self, a, b): return z3.Implies(a, b)
    def conj(self, *a): return z3.And(*a)
    def plus(self, m, n): return Val("int", m.t + n.t)
    def times(self, m, n): return Val("int", m.t * n.t)
    def carrier(self, a): return self.in_carrier(a)
    def is_infinite(self, a):
        if a.mode == "bool": return z3.BoolVal(False)
        return a.t.pinf


class NativeOps:
    """The same vocabulary on the real semiring objects (float64 scalars)."""
    def __init__(self, cls: str):
        import torch, fggs.semirings as S
        self.torch = torch
        self.cls = cls
        self.S = getattr(S, cls)() if cls == "BoolSemiring" else getattr(S, cls)(dtype=torch.float64)

    def value(self, x):
        t = self.torch
        if self.cls == "BoolSemiring": return t.tensor(bool(x))
        return t.tensor(float(x), dtype=t.float64)

    def add(self, x, y): return self.S.add(x, y)
    def mul(self, x, y): return self.S.mul(x, y)
    def sub(self, x, y): return self.S.sub(x, y)
    def star(self, x): return self.S.star(x)
    def from_int(self, n): return self.S.from_int(int(n))
    def add_(self, x, y):
        x = x.clone(); self.S.add_(x, y); return x
    def eq(self, a, b):
        t = self.torch
        a, b = t.as_tensor(a), t.as_tensor(b)
        if a.dtype == t.bool or b.dtype == t.bool: return bool(a == b)
        return bool(t.isclose(a.double(), b.double(), rtol=1e-9, atol=1e-12, equal_nan=True))
    def le(self, a, b):
        t = self.torch
        if a.dtype == t.bool: return bool((~a) | b)
        return bool(a <= b) or self.eq(a, b)
    def implies(self, a, b): return (not a) or b
    def conj(self, *a): return all(a)
    def plus(self, m, n): return int(m) + int(n)
    def times(self, m, n): return int(m) * int(n)
    def carrier(self, a):
        t = self.torch
        if a.dtype == t.bool: return True
        if bool(t.isnan(a)): return False
        if self.cls == "RealSemiring": return bool(a >= 0)
        return True
    def is_infinite(self, a):
        return a.dtype != self.torch.bool and bool(a == math.inf)


# ------------------------------------------------------------------------------------------
# The laws.  Each: (name, element-variables, nat-variables, lambda ops, *vars -> formula)
def _laws():
    L = []
    def law(name, nv, nn=0):
        def deco(f):
            L.append((name, nv, nn, f)); return f
        return deco

    @law("add.closed", 2)
    def _(o, x, y): return o.carrier(o.add(x, y))
    @law("mul.closed", 2)
    def _(o, x, y): return o.carrier(o.mul(x, y))
    @law("add.commutative", 2)
    def _(o, x, y): return o.eq(o.add(x, y), o.add(y, x))
    @law("add.associative", 3)
    def _(o, x, y, z): return o.eq(o.add(o.add(x, y), z), o.add(x, o.add(y, z)))
    @law("add.identity_from_int0", 1)
    def _(o, x): return o.conj(o.eq(o.add(x, o.from_int(0)), x), o.eq(o.add(o.from_int(0), x), x))
    @law("mul.commutative", 2)
    def _(o, x, y): return o.eq(o.mul(x, y), o.mul(y, x))
    @law("mul.associative", 3)
    def _(o, x, y, z): return o.eq(o.mul(o.mul(x, y), z), o.mul(x, o.mul(y, z)))
    @law("mul.identity_from_int1", 1)
    def _(o, x): return o.conj(o.eq(o.mul(x, o.from_int(1)), x), o.eq(o.mul(o.from_int(1), x), x))
    @law("mul.distributes_over_add", 3)
    def _(o, x, y, z): return o.eq(o.mul(x, o.add(y, z)), o.add(o.mul(x, y), o.mul(x, z)))
    @law("mul.zero_annihilates", 1)
    def _(o, x): return o.conj(o.eq(o.mul(x, o.from_int(0)), o.from_int(0)),
                               o.eq(o.mul(o.from_int(0), x), o.from_int(0)))
    @law("from_int.in_carrier", 0, 1)
    def _(o, m): return o.carrier(o.from_int(m))
    @law("from_int.additive", 0, 2)
    def _(o, m, n): return o.eq(o.from_int(o.plus(m, n)), o.add(o.from_int(m), o.from_int(n)))
    @law("from_int.multiplicative", 0, 2)
    def _(o, m, n): return o.eq(o.from_int(o.times(m, n)), o.mul(o.from_int(m), o.from_int(n)))
    @law("star.closed", 1)
    def _(o, x): return o.carrier(o.star(x))
    @law("star.fixpoint", 1)
    def _(o, x): return o.eq(o.star(x), o.add(o.from_int(1), o.mul(x, o.star(x))))
    @law("star.least_solution", 2)
    def _(o, x, y): return o.implies(o.eq(y, o.add(o.from_int(1), o.mul(x, y))), o.le(o.star(x), y))
    @law("star.of_one", 0)
    def _(o):
        s = o.star(o.from_int(1))
        idem = o.eq(o.add(o.from_int(1), o.from_int(1)), o.from_int(1))
        # star(1) = one in an idempotent semiring, the infinite element otherwise
        return o.conj(o.implies(idem, o.eq(s, o.from_int(1))), o.implies(_not(o, idem), o.is_infinite(s)))
    @law("sub.inverse_of_add", 2)
    def _(o, x, y): return o.implies(o.le(y, x), o.eq(o.add(o.sub(x, y), y), x))
    @law("add_.agrees_with_add", 2)
    def _(o, x, y): return o.eq(o.add_(x, y), o.add(x, y))
    return L


def _not(o, a):
    return z3.Not(a) if z3.is_expr(a) else (not a)


LAWS = _laws()


def sum_attribute_ok(cls: str, classes) -> Tuple[bool, str]:
    """`sum` must be the torch reduction whose (assumed) meaning is the fold of what `add` denotes."""
    want = {"RealSemiring": "torch.sum", "LogSemiring": "torch.logsumexp", "BoolSemiring": "torch.any"}
    d = classes[cls]
    if cls == "ViterbiSemiring":
        f = d.get("sum")
        if f is None: return False, "no sum method"
        src = ast.unparse(f.body[-1])
        ok = src.replace(" ", "") == "returntorch.max(x,dim=dim)[0]"
        return ok, src
    e = d.get("=sum")
    if e is None: return False, "no sum attribute"
    src = ast.unparse(e)
    return src == f"staticmethod({want[cls]})", src


def model_value(m, v: Val, mode: str):
    """Concrete python value of a variable in a z3 model (native-space: log-mode -> log E)."""
    if v.mode == "bool":
        return bool(z3.is_true(m.eval(v.t, model_completion=True)))
    if v.mode == "int":
        return m.eval(v.t, model_completion=True).as_long()
    k = m.eval(v.t.k, model_completion=True).as_long()
    if k == er.NAN: return math.nan
    if k == er.PINF: return math.inf
    if k == er.NINF: return -math.inf
    r = m.eval(v.t.v, model_completion=True)
    try:
        x = float(r.as_fraction())
    except Exception:
        x = float(r.approx(20).as_fraction())
    if v.mode == "log":
        return -math.inf if x == 0 else math.log(x)
    return x


def run(ctx=None, only=None) -> core.Report:
    rep = core.Report(property_id="C08", level="other")
    classes = load_classes()
    where = "fggs/semirings.py"
    for cls in SEMIRINGS:
        for m in ("add", "mul", "sub", "star", "from_int", "add_"):
            rep.functions_under_contract.append(f"fggs.semirings.{cls}.{m}")
        for (lname, nv, nn, f) in LAWS:
            name = f"{cls}.{lname}"
            if only and only not in name:
                continue
            t0 = time.time()
            try:
                o = SymOps(cls, classes)
                xs = [o.var(n) for n in "xyz"[:nv]] + [o.nat(n) for n in "mn"[:nn]]
                goal = f(o, *xs)
                r = prover.check_valid(o.hyps, goal)
            except Unsupported as e:
                rep.obligations.append(Obligation(name, f"fggs.semirings.{cls}", "scalar", UNDECIDED,
                                                  "semvc", time.time() - t0, where, f"outside the scalar subset: {e}"))
                continue
            if r.proved:
                rep.obligations.append(Obligation(name, f"fggs.semirings.{cls}", "scalar", PROVED, r.backend,
                                                  r.time_s, where, rlimit=r.rlimit))
                continue
            if r.status == "sat" and r.model is not None:
                vals = {n: model_value(r.model, v, o.mode) for n, v in o.vars.items()}
                case = {"semiring": cls, "law": lname, "values": {k: _j(v) for k, v in vals.items()}}
                reproduced = replay_case(case, quiet=True)
                st = REFUTED if reproduced else FAILED_NO_INPUT
                det = f"counter-model {case['values']}" + ("" if reproduced else " (did not reproduce in float64 on the real code)")
                rep.obligations.append(Obligation(name, f"fggs.semirings.{cls}", "scalar", st, r.backend, r.time_s, where, det))
                rep.failures.append(Failure(
                    obligation=name, what=f"{cls}: law {lname} fails at {case['values']}",
                    replay={"module": "vf.semvc.laws", "func": "replay_case", "case": case} if reproduced else None,
                    detail=det + "\n" + r.detail, no_input=not reproduced,
                    key=f"{cls}.{lname}"))
            else:
                rep.obligations.append(Obligation(name, f"fggs.semirings.{cls}", "scalar", UNDECIDED, r.backend,
                                                  r.time_s, where, r.detail))
        # syntactic obligations
        if not only or "sum" in only:
            ok, src = sum_attribute_ok(cls, classes)
            rep.obligations.append(Obligation(f"{cls}.sum.is_fold_of_add", f"fggs.semirings.{cls}.sum", "frame",
                                              PROVED if ok else FAILED_NO_INPUT, "own", 0.0, where, src))
    # vacuity canary: a deliberately false law must be refuted by the same pipeline on every run
    o = SymOps("RealSemiring", classes)
    x, y = o.var("x"), o.var("y")
    if prover.check_valid(o.hyps, o.eq(o.add(x, y), x)).status != "sat":
        raise core.CheckerError("semvc canary (add(x,y) = x) was not refuted")
    rep.extra["canary"] = "false law add(x,y)=x refuted"
    rep.trusted_base += [
        "IEEE special-value table for torch elementwise kernels (vf/semvc/er.py)",
        "log-space identities exp/log/log1p/expm1/logaddexp (vf/semvc/interp.py header)",
        "torch.sum / logsumexp / max / any are the folds of + / logaddexp / max / or",
        "z3 nonlinear real arithmetic (nlsat); cvc5 for z3's unknowns",
    ]
    rep.assumptions += [
        "semiring laws are proved over the reals extended with +-inf and NaN: rounding and overflow of machine floats are ignored (associativity and distributivity are false in floating point)",
        "uniqueness of the homomorphism from_int follows from from_int(0)=zero, from_int(1)=one and additivity by induction on n (not machine-checked)",
    ]
    rep.extraction.append("semvc reads the method bodies of fggs/semirings.py from the AST on every run; it drops dtype/device arguments, shapes, broadcasting and in-place-ness (aliasing is the ownership analysis' job)")
    return rep


def _j(v):
    if isinstance(v, float):
        if v != v: return "nan"
        if v == math.inf: return "inf"
        if v == -math.inf: return "-inf"
    return v


def _unj(v):
    return {"nan": math.nan, "inf": math.inf, "-inf": -math.inf}.get(v, v) if isinstance(v, str) else v


def replay_case(case, quiet=False) -> bool:
    cls, lname = case["semiring"], case["law"]
    f = next(f for (n, _, _, f) in LAWS if n == lname)
    nv, nn = next((nv, nn) for (n, nv, nn, _) in LAWS if n == lname)
    o = NativeOps(cls)
    vals = {k: _unj(v) for k, v in case["values"].items()}
    args = [o.value(vals[n]) for n in "xyz"[:nv]] + [vals[n] for n in "mn"[:nn]]
    try:
        holds = bool(f(o, *args))
    except Exception as e:
        if not quiet: print(f"law raised {type(e).__name__}: {e}")
        return True
    if not quiet:
        print(f"{cls}: law {lname} at {vals}: {'holds' if holds else 'FAILS'} on the real code (float64)")
    return not holds


if __name__ == "__main__":
    import sys
    r = run(only=sys.argv[1] if len(sys.argv) > 1 else None)
    for o in r.obligations:
        print(f"{o.status:16s} {o.backend:5s} {o.time_s:6.2f}s {o.name}  {o.detail[:100]}")
