"""Extended reals with IEEE-754 special values, as z3 terms.

An ER is (kind, val): kind in {FIN, PINF, NINF, NAN} (z3 Int 0..3), val a z3 Real that is
meaningful iff kind == FIN.  All operations follow the IEEE special-value rules that torch's
elementwise kernels and Python's float arithmetic implement; *rounding and overflow do not
exist* (machine floats are treated as mathematical reals -- stated assumption).

The sign of a zero is not tracked: a division x/0 with x != 0 yields +inf or -inf according to
a fresh boolean (adversarial in validity proofs) unless `poszero=True` is passed (used for the
exp-image of log-space values, where every zero is +0).
"""
from __future__ import annotations
import z3

FIN, PINF, NINF, NAN = 0, 1, 2, 3
_fresh = [0]


def fresh_bool(prefix="zs"):
    _fresh[0] += 1
    return z3.Bool(f"{prefix}!{_fresh[0]}")


def fresh_real(prefix="r"):
    _fresh[0] += 1
    return z3.Real(f"{prefix}!{_fresh[0]}")


class ER:
    __slots__ = ("k", "v", "_zn")

    def __init__(self, k, v, zn=None):
        self.k = k if z3.is_expr(k) else z3.IntVal(k)
        self.v = v if z3.is_expr(v) else z3.RealVal(v)
        self._zn = zn

    @property
    def zn(self):
        """sign bit of the value when it is a zero (True: -0.0); unknown (fresh) unless tracked"""
        if self._zn is None:
            self._zn = fresh_bool()
        return self._zn

    # predicates
    @property
    def fin(self): return self.k == FIN
    @property
    def pinf(self): return self.k == PINF
    @property
    def ninf(self): return self.k == NINF
    @property
    def nan(self): return self.k == NAN
    @property
    def inf(self): return z3.Or(self.k == PINF, self.k == NINF)

    def pos(self):   # strictly positive (incl. +inf)
        return z3.Or(self.pinf, z3.And(self.fin, self.v > 0))

    def neg(self):   # strictly negative (incl. -inf)
        return z3.Or(self.ninf, z3.And(self.fin, self.v < 0))

    def zero(self):
        return z3.And(self.fin, self.v == 0)


def const(x) -> ER:
    if isinstance(x, ER):
        return x
    if isinstance(x, bool):
        x = float(x)
    if isinstance(x, (int, float)):
        if x != x: return ER(NAN, 0)
        if x == float("inf"): return ER(PINF, 0)
        if x == float("-inf"): return ER(NINF, 0)
        import math
        return ER(FIN, z3.RealVal(repr(x) if isinstance(x, float) else x),
                  z3.BoolVal(isinstance(x, float) and math.copysign(1.0, x) < 0))
    if z3.is_expr(x):
        if x.sort() == z3.IntSort():
            return ER(FIN, z3.ToReal(x))
        return ER(FIN, x)
    raise TypeError(x)


def var(name: str) -> ER:
    return ER(z3.Int(name + ".k"), z3.Real(name + ".v"), z3.Bool(name + ".zneg"))


def wf(a: ER):
    return z3.And(a.k >= 0, a.k <= 3)


def ite(c, a: ER, b: ER) -> ER:
    return ER(z3.If(c, a.k, b.k), z3.If(c, a.v, b.v), z3.If(c, a.zn, b.zn))


def eq(a: ER, b: ER):
    """Same extended real (NaN is considered equal to NaN here: 'same value')."""
    return z3.And(a.k == b.k, z3.Implies(a.k == FIN, a.v == b.v))


def neg(a: ER) -> ER:
    k = z3.If(a.pinf, z3.IntVal(NINF), z3.If(a.ninf, z3.IntVal(PINF), a.k))
    return ER(k, -a.v)


def add(a: ER, b: ER) -> ER:
    isnan = z3.Or(a.nan, b.nan, z3.And(a.pinf, b.ninf), z3.And(a.ninf, b.pinf))
    k = z3.If(isnan, NAN, z3.If(z3.Or(a.pinf, b.pinf), PINF, z3.If(z3.Or(a.ninf, b.ninf), NINF, FIN)))
    return ER(k, a.v + b.v)


def sub(a: ER, b: ER) -> ER:
    return add(a, neg(b))


def mul(a: ER, b: ER) -> ER:
    isnan = z3.Or(a.nan, b.nan, z3.And(a.inf, b.zero()), z3.And(a.zero(), b.inf))
    anyinf = z3.Or(a.inf, b.inf)
    negsign = z3.Xor(a.neg(), b.neg())
    k = z3.If(isnan, NAN, z3.If(anyinf, z3.If(negsign, NINF, PINF), FIN))
    return ER(k, a.v * b.v)


def div(a: ER, b: ER, poszero: bool = False) -> ER:
    zs = z3.BoolVal(False) if poszero else b.zn            # True: the zero divisor is -0
    isnan = z3.Or(a.nan, b.nan, z3.And(a.inf, b.inf), z3.And(a.zero(), b.zero()))
    bz = b.zero()
    res_inf = z3.Or(a.inf, z3.And(bz, z3.Not(a.zero())))
    bneg = z3.If(bz, zs, b.neg())
    negsign = z3.Xor(a.neg(), bneg)
    k = z3.If(isnan, NAN,
              z3.If(res_inf, z3.If(negsign, NINF, PINF), FIN))
    # finite result: a fin / b inf -> 0 ; a fin / b fin nonzero -> quotient
    v = z3.If(b.inf, z3.RealVal(0), z3.If(bz, z3.RealVal(0), a.v / z3.If(bz, z3.RealVal(1), b.v)))
    return ER(k, v)


def abs_(a: ER) -> ER:
    k = z3.If(a.ninf, z3.IntVal(PINF), a.k)
    return ER(k, z3.If(a.v < 0, -a.v, a.v))


def lt(a: ER, b: ER):
    ok = z3.And(z3.Not(a.nan), z3.Not(b.nan))
    return z3.And(ok, z3.Or(z3.And(a.ninf, z3.Not(b.ninf)),
                            z3.And(b.pinf, z3.Not(a.pinf)),
                            z3.And(a.fin, b.fin, a.v < b.v)))


def le(a: ER, b: ER):
    ok = z3.And(z3.Not(a.nan), z3.Not(b.nan))
    return z3.And(ok, z3.Or(a.ninf, b.pinf, z3.And(a.fin, b.fin, a.v <= b.v)))


def gt(a, b): return lt(b, a)
def ge(a, b): return le(b, a)


def eqcmp(a: ER, b: ER):
    """IEEE == (False if either is NaN)."""
    return z3.And(z3.Not(a.nan), z3.Not(b.nan), a.k == b.k, z3.Implies(a.fin, a.v == b.v))


def maximum(a: ER, b: ER) -> ER:
    """torch.maximum: NaN-propagating."""
    isnan = z3.Or(a.nan, b.nan)
    return ite(isnan, ER(NAN, 0), ite(ge(a, b), a, b))


def py_max(a: ER, b: ER) -> ER:
    """Python's max(a, b): returns a unless b > a (so a NaN in first position sticks, in second is dropped)."""
    return ite(gt(b, a), b, a)


def py_min(a: ER, b: ER) -> ER:
    return ite(lt(b, a), b, a)


def relu(a: ER) -> ER:
    """torch.relu: NaN stays NaN, negatives (incl. -inf) become 0."""
    return ite(a.nan, a, ite(lt(a, const(0)), const(0), a))


BIG = z3.Real("MAXFLOAT")           # stands for the largest finite float; only BIG > 1e30 is assumed
BIG_AX = [BIG > z3.RealVal("1e30")]


def nan_to_num(a: ER, nan=0.0, posinf=None, neginf=None) -> ER:
    rn = const(0.0 if nan is None else nan)
    rp = ER(FIN, BIG) if posinf is None else const(posinf)
    rm = ER(FIN, -BIG) if neginf is None else const(neginf)
    return ite(a.nan, rn, ite(a.pinf, rp, ite(a.ninf, rm, a)))


def where(c, a: ER, b: ER) -> ER:
    return ite(c, a, b)
